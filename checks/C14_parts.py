"""C14 bounded part: WcMatch.match()/get_skipped() against an independent filtered directory walk."""
import itertools
import random

from vlib.common import REPO
from vlib.par import pmap
from vlib import patsets
from vlib.harness import trees, walkrun

WM = walkrun.WM
L = patsets.L


def empty_pattern_lemma(chk):
    """finite, exact: with an empty file pattern the file check denotes ALL names (str and bytes), decided by relang over the whole alphabet"""
    import os
    import tempfile
    import time
    from vlib import relang as R
    from vlib.common import REPO
    d = tempfile.mkdtemp(prefix='wcv-c14-')
    try:
        for root, pat in ((d, ''), (os.fsencode(d), b'')):
            ob = 'C14.finite.empty_file_pattern_selects_every_name[%s]' % type(pat).__name__
            t0 = time.time()
            w = WM.WcMatch(root, pat)
            fc = w.file_check
            inc, exc = tuple(getattr(fc, '_include', ())), tuple(getattr(fc, '_exclude', None) or ())
            maxc = 255 if isinstance(pat, bytes) else R.UMAX
            try:
                r = None if (len(inc) == 1 and not exc) else ((), 'shape', 'one inclusion regex')
                if r is None:
                    r = R.equal(R.Impl(inc[0]), R.Spec(R.s_star(R.s_cls(((0, maxc),))), maxc))
            except R.Unsupported as e:
                chk.undecide(ob, e)
                chk.obligation(ob, 'undecided', 'finite')
                continue
            if r is None:
                chk.obligation(ob, 'proved', 'finite', time.time() - t0, function='wcmatch.WcMatch.__init__', detail=repr(inc[0].pattern))
            else:
                wname = R.to_str(r[0], isinstance(pat, bytes)) if r[0] != () else ''
                chk.violation(dict(obligation=ob, witness=wname), f'WcMatch(root, {pat!r}).file_check does not accept every name: {wname!r} is rejected ({inc and inc[0].pattern!r}, flags {inc and inc[0].flags})',
                              f"import sys, os, tempfile; sys.path.insert(0, {REPO!r})\nfrom wcmatch import wcmatch\nd = tempfile.mkdtemp()\nname = {wname!r}\n"
                              f"w = wcmatch.WcMatch(os.fsencode(d) if isinstance(name, bytes) else d, {pat!r})\nok = w.file_check.match(name)\nprint('file_check.match', repr(name), '->', ok)\nos.rmdir(d)\nsys.exit(0 if ok else 1)\n")
                chk.obligation(ob, 'refuted', 'finite', time.time() - t0)
    finally:
        os.rmdir(d)


def run(chk, tier, seed):
    empty_pattern_lemma(chk)
    star, q = ('star',), ('q',)
    txt = (star, L('.'), L('t'), L('x'), L('t'))
    a, d, e = (L('a'),), (L('d'),), (L('e'),)
    hid = (L('.'), star)
    inc_sets = [[], [(star,)], [txt], [a], [(L('a'), star)], [txt, a], [(('ext', '@', ((L('a'),), (L('b'), star))),)], [hid]]
    exc_sets = [[], [a], [txt], [hid]]
    pinc_sets = [[], [(star,)], [(('gs',), ('sep',)) + txt], [d + (('sep',),) + (star,)], [(star, ('sep',), star)], [txt], [(('gs',), ('sep',), L('a'))]]
    dir_sets = [([], []), ([d], []), ([], [d]), ([e], []), ([(L('.'), star)], []), ([a], [])]
    pdir_sets = [([], []), ([d + (('sep',),) + e], []), ([(('gs',), ('sep',)) + e], []), ([d], []), ([(star, ('sep',), L('a'))], []),
                 ([d + (('sep',),)], []), ([(('gs',), ('sep',)) + e + (('sep',),)], []), ([], [d + (('sep',),)]), ([a + (('sep',),)], []), ([a + (('sep',), ('sep',))], [])]      # exclude patterns that end in a separator: directories are shown with one
    bits = [WM.RV, WM.HD, WM.SL, WM.X, WM.G, WM.E, WM.I, WM.M]
    flagsets = [0, WM.RV, WM.RV | WM.HD, WM.RV | WM.SL, WM.RV | WM.HD | WM.SL, WM.RV | WM.E, WM.RV | WM.I, WM.RV | WM.M | WM.E, WM.HD]
    cases = []
    for fl in flagsets:
        for inc, exc in itertools.product(inc_sets, exc_sets):
            if not (fl & WM.E) and any(t[0] == 'ext' for p in inc for t in p):
                continue
            for dinc, dexc in dir_sets[:: (2 if tier == 'quick' else 1)]:
                cases.append((inc, exc, dinc, dexc, fl))
    for fl in (WM.RV | WM.FP, WM.RV | WM.FP | WM.G, WM.RV | WM.FP | WM.X, WM.RV | WM.DP, WM.RV | WM.DP | WM.FP | WM.G, WM.RV | WM.DP | WM.G | WM.HD, WM.RV | WM.FP | WM.X | WM.G,
               WM.RV | WM.DP | WM.X, WM.RV | WM.DP | WM.X | WM.HD | WM.I):      # MATCHBASE with DIRPATHNAME: a pattern whose only separator is the trailing one is still anchored
        for inc in (pinc_sets if fl & WM.FP else inc_sets[:4]):
            for dinc, dexc in (pdir_sets if fl & WM.DP else dir_sets[:3]):
                cases.append((inc, [], dinc, dexc, fl))
                cases.append(([], inc, dinc, dexc, fl))
    if tier == 'quick':
        cases = cases[::2]
    specs = {k: trees.NAMED[k] for k in (('basic', 'links', 'nested') if tier == 'quick' else trees.NAMED)}
    rnd = random.Random(seed * 11 + 9)
    for i in range(1 if tier == 'quick' else 20):
        specs[f'random{i}'] = trees.random_spec(rnd, 8)
    items = []
    for tname, spec in specs.items():
        for i in range(0, len(cases), 60):
            items.append((tname, spec, cases[i:i + 60]))
    n = 0
    for res in pmap(walkrun.wcmatch_vs_spec, items, chunk=1):
        for r in res:
            if 'error' in r:
                chk.broke(f'C14 harness crashed: {r["tree"]} {r["pattern"]!r} {r["exclude"]!r} {r["fl"]}: {r["error"]}')
                continue
            n += 1
            chk.case(key=(r['tree'], r['pattern'], r['exclude'], r['flags']), nontrivial=r['n'] > 0)
            for kind, w in r['bad']:
                chk.violation(dict(obligation='C14.bounded.' + kind, tree=r['tree'], pattern=r['pattern'], exclude=r['exclude'], fl=r['fl'], witness=w),
                              f'WcMatch(root, {r["pattern"]!r}, {r["exclude"]!r}, flags={r["fl"]}) on tree {r["tree"]}: {kind}: {w}',
                              f"import sys, os; sys.path.insert(0, {REPO!r}); sys.path.insert(0, '/verif')\nfrom wcmatch import wcmatch\nfrom vlib.harness import trees\n"
                              f"with trees.Tree({specs[r['tree']]!r}) as t:\n    w = wcmatch.WcMatch(t.root, {r['pattern']!r}, {r['exclude']!r}, flags={r['flags']})\n"
                              f"    print(sorted(os.path.relpath(x, t.root) for x in w.match()), w.get_skipped())\nsys.exit(1)\n")
    chk.rule = ('bounded stand-in: file patterns (lists with | and !/- negations from the C01 grammar; path patterns under FILEPATHNAME) x folder-exclude patterns x flag sets over '
                '{RECURSIVE, HIDDEN, SYMLINKS, FILEPATHNAME, DIRPATHNAME, MATCHBASE, GLOBSTAR, EXTMATCH, MINUSNEGATE, IGNORECASE}; results and get_skipped() are compared with an '
                'independent os.listdir walk using the predicates of the statement and the Den denotations (DOTMATCH forced); SYMLINKS never on cyclic trees')
    chk.bounds.update(dict(c14_trees=len(specs), c14_cases=n))
    chk.sample(dict(tree='links', file_pattern='*.txt|!a', exclude='d', flags='RECURSIVE|HIDDEN'))
