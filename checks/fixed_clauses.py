"""Fixed scenario clauses added in round 3 (wave 6): each is a small explicit history / tree with the expected outcome computed independently of
the code path under test (single-pattern calls, os.lstat truth, the str twin of a bytes call).  Called from the Cxx_parts drivers."""
import os
import sys

from vlib.common import REPO
from vlib.harness import trees


def _viol(chk, pid, ob, what, script, **sig):
    chk.violation(dict(obligation=f'{pid}.bounded.{ob}', **sig), what,
                  f"import sys; sys.path.insert(0, {REPO!r}); sys.path.insert(0, '/verif')\n" + script + "\nsys.exit(1)\n")


NEWLINE_TREE = {'a.txt\n': 'f', 'b.txt': 'f', 'notes.txt\n': 'f', 'd': 'd', 'd/c.txt\n': 'f', 'd/e.txt': 'f', 'n\n': 'd', 'n\n/x.txt': 'f'}


def newline_names(chk, pid):
    """A name that ends in a line feed is a name like any other: a segment pattern has to match ALL of it (glob walker, exclusions), as globmatch says."""
    from wcmatch import glob as G
    n = 0
    with trees.Tree(NEWLINE_TREE) as t:
        entries = t.entries()
        for pat, fl in (('*.txt', 0), ('*', 0), ('?.txt', 0), ('d/*.txt', 0), ('**/*.txt', G.G), ('*/x.txt', 0), ('n', 0), ('[ab].txt', 0), ('*.tx[t]', 0), ('+(a|b).txt', G.E)):
            got = sorted(x.rstrip('/') for x in G.glob(pat, flags=fl | G.U, root_dir=t.root))
            want = sorted(e for e in entries if G.globmatch(e, pat, flags=fl | G.U))
            n += 1
            chk.case(key=('newline', pid, pat, fl))
            if got != want:
                _viol(chk, pid, 'names_ending_in_a_line_feed_are_matched_whole', f'tree with names ending in a line feed: glob({pat!r}) returns {got}, the entries globmatch accepts are {want}',
                      f"from wcmatch import glob\nfrom vlib.harness import trees\nwith trees.Tree({NEWLINE_TREE!r}) as t:\n    print(glob.glob({pat!r}, flags={fl | G.U}, root_dir=t.root))", pattern=pat, tree='newline')
        for pat, ex, fl in (('*', '*.txt', 0), ('**', '*.txt', G.G), ('**', '**/*.txt', G.G), ('*', 'n', 0), (['*', '!*.txt'], None, G.N), ('*', '[ab]*.txt', 0)):
            kw = dict(exclude=ex) if ex is not None else {}
            got = sorted(x.rstrip('/') for x in G.glob(pat, flags=fl | G.U, root_dir=t.root, **kw))
            if ex is None:
                inc, exs = [p for p in pat if not p.startswith('!')], [p[1:] for p in pat if p.startswith('!')]
            else:
                inc, exs = [pat], [ex]
            plain = fl & ~G.N
            want = sorted(e for e in entries if any(G.globmatch(e, p, flags=plain | G.U) for p in inc) and not any(G.globmatch(e, p, flags=plain | G.U | G.D) or
                                                                                                                    (os.path.isdir(os.path.join(t.root, e)) and G.globmatch(e + '/', p, flags=plain | G.U | G.D)) for p in exs))
            n += 1
            chk.case(key=('newline-exclude', pid, str(pat), str(ex), fl))
            if got != want:
                _viol(chk, pid, 'exclusions_match_the_whole_name_(line_feed_at_the_end)', f'tree with names ending in a line feed: glob({pat!r}, exclude={ex!r}) returns {got}, inclusion minus exclusion by single-pattern globmatch is {want}',
                      f"from wcmatch import glob\nfrom vlib.harness import trees\nwith trees.Tree({NEWLINE_TREE!r}) as t:\n    print(glob.glob({pat!r}, flags={fl | G.U}, root_dir=t.root, **{kw!r}))", pattern=str(pat), tree='newline')
    chk.bounds[f'{pid.lower()}_newline_cases'] = n


def pending_iterators(chk):
    """C15: each run of imatch() resets for ITSELF when it starts - also when the iterator was obtained earlier and another run happened in between."""
    from wcmatch import wcmatch as WM
    spec = {'a.txt': 'f', 'b.skip': 'f', 'c.skip': 'f', 'd': 'd', 'd/e.txt': 'f', 'd/f.skip': 'f'}

    class Rec(WM.WcMatch):
        def on_init(self):
            self.resets = 0
            self.log = []

        def on_reset(self):
            self.resets += 1
            self.log = []

        def on_skip(self, base, name):
            self.log.append(('S', name))

        def on_match(self, base, name):
            self.log.append(('M', name))
            return os.path.join(base, name)
    with trees.Tree(spec) as t:
        ref = Rec(t.root, '*.txt', flags=WM.RV)
        want = sorted(ref.match())
        want_skipped, want_log = ref.get_skipped(), sorted(ref.log)
        histories = {
            'iterator obtained, full run in between, then consumed': lambda w: (lambda it: (w.match(), list(it))[1])(w.imatch()),
            'two iterators obtained up front, consumed in turn': lambda w: (lambda a, b: (list(a), list(b))[1])(w.imatch(), w.imatch()),
            'iterator abandoned after one item, new run': lambda w: (next(w.imatch()), w.match())[1],
            'killed, reset, iterator obtained before the reset is consumed after': lambda w: (lambda it: (w.kill(), w.reset(), list(it))[2])(w.imatch()),
        }
        for name, h in histories.items():
            w = Rec(t.root, '*.txt', flags=WM.RV)
            chk.case(key=('pending-iterator', name))
            try:
                got = sorted(h(w))
            except Exception as e:
                _viol(chk, 'C15', 'pending_iterators', f'history {name!r}: raised {type(e).__name__}: {e}', '# see checks/fixed_clauses.py pending_iterators', history=name)
                continue
            bad = []
            if got != want:
                bad.append(f'last run returned {got}, an uninterrupted run returns {want}')
            if w.get_skipped() != want_skipped:
                bad.append(f'get_skipped() is {w.get_skipped()} after the last run, a fresh run counts {want_skipped}')
            if sorted(w.log) != want_log:
                bad.append(f'hook log of the last run has {len(w.log)} entries, a fresh run has {len(want_log)} (on_reset did not run when the run started)')
            if bad:
                _viol(chk, 'C15', 'a_run_resets_for_itself_when_it_starts', f'history {name!r}: ' + '; '.join(bad), '# see checks/fixed_clauses.py pending_iterators', history=name)


def bytes_without_inclusions(chk):
    """C18: bytes and str give the same answer also when the pattern set has no inclusion left (exclusions only, empty list), incl. under REALPATH."""
    from wcmatch import glob as G, fnmatch as F
    with trees.Tree({'a': 'f', 'x': 'f', 'd': 'd'}) as t:
        root = t.root
        calls = []
        for fl, fn in ((G.N, 'N'), (G.N | G.M, 'N|M'), (0, '0'), (G.N | G.A, 'N|A')):
            for pats, ex in (('!x', None), ('-x', None), ([], 'x'), ([], None), (['!x', '!a'], None), ('!x', 'a')):
                for real in (False, True):
                    calls.append((pats, ex, fl | (G.P if real else 0), f'{fn}{"|P" if real else ""}'))
        for pats, ex, fl, fn in calls:
            for name in ('a', 'x', 'd', 'nope'):
                def enc(v):
                    return v.encode() if isinstance(v, str) else [q.encode() for q in v] if isinstance(v, list) else v
                res = []
                for b in (False, True):
                    kw = {}
                    if ex is not None:
                        kw['exclude'] = enc(ex) if b else ex
                    if fl & G.P:
                        kw['root_dir'] = os.fsencode(root) if b else root
                    try:
                        r1 = ('ok', G.globmatch(enc(name) if b else name, enc(pats) if b else pats, flags=fl | G.U, **kw))
                        r2 = ('ok', [os.fsdecode(x) if b else x for x in G.globfilter([enc(name) if b else name], enc(pats) if b else pats, flags=fl | G.U, **kw)])
                    except Exception as e:
                        r1 = r2 = ('exc', type(e).__name__)
                    res.append((r1, r2))
                chk.case(key=('bytes-no-inclusion', str(pats), str(ex), fl, name))
                if res[0] != res[1]:
                    _viol(chk, 'C18', 'bytes_equal_str_without_inclusion_patterns', f'globmatch/globfilter({name!r}, {pats!r}, exclude={ex!r}, flags={fn}): str gives {res[0]}, bytes gives {res[1]}',
                          f"from wcmatch import glob\nprint(glob.globmatch({name.encode()!r}, {enc(pats)!r}, flags={fl | G.U}))", pattern=str(pats), fl=fn, name=name)


def rglob_exclusions(chk):
    """C16: rglob applies the implicit recursive segment to EVERY pattern of the call - exclusions included - exactly as match() does."""
    from wcmatch import pathlib as PL, glob as G
    spec = {'keep.txt': 'f', 'skip.txt': 'f', 'sub': 'd', 'sub/skip.txt': 'f', 'sub/keep.txt': 'f', 'sub/deep': 'd', 'sub/deep/skip.txt': 'f', 'sub/deep/x.txt': 'f'}
    with trees.Tree(spec) as t:
        root = PL.Path(t.root)
        for pats, fl, kw in ((['*.txt', '!skip.txt'], PL.N, {}), (['*.txt', '-skip.txt'], PL.N | PL.M, {}), ('*.txt', 0, dict(exclude='skip.txt')), (['*', '!deep'], PL.N, {}),
                             ('*.txt', 0, dict(exclude=['skip.*', 'x.*']))):
            got = sorted(str(p.relative_to(root)) for p in root.rglob(pats, flags=fl, **kw))
            want = sorted(e for e in t.entries() if PL.PurePath(e).match(pats, flags=fl, **kw))
            chk.case(key=('rglob-exclusion', str(pats), fl, str(kw)))
            if got != want:
                _viol(chk, 'C16', 'rglob_applies_the_recursive_segment_to_exclusions_as_match_does', f'rglob({pats!r}, flags={fl}, {kw}) yields {got}; match() accepts {want}',
                      f"from wcmatch import pathlib\nfrom vlib.harness import trees\nwith trees.Tree({spec!r}) as t:\n    print(sorted(map(str, pathlib.Path(t.root).rglob({pats!r}, flags={fl}, **{kw!r}))))", pattern=str(pats))


def case_of_literal_text(chk):
    """C17: in case-insensitive mode the result of glob() does not depend on the case in which a literal segment is written (case-sensitive file system)."""
    from wcmatch import glob as G
    spec = {'docs': 'd', 'docs/a.txt': 'f', 'Docs': 'd', 'Docs/b.txt': 'f', 'DOCS': 'd', 'DOCS/c.txt': 'f', 'docs/sub': 'd', 'docs/sub/x.txt': 'f', 'Docs/SUB': 'd', 'Docs/SUB/y.txt': 'f', 'readme': 'f', 'README': 'f'}
    with trees.Tree(spec) as t:
        ents = t.entries()
        for spellings, fl in ((('docs/*.txt', 'dOcS/*.txt', 'DOCS/*.txt', 'Docs/*.TXT'), G.I), (('docs/sub/*', 'DOCS/sub/*', 'docs/SUB/*', 'dOCs/sUb/*'), G.I), (('readme', 'README', 'ReadMe'), G.I),
                              (('docs/', 'DOCS/', 'doCS/'), G.I), (('**/sub/*.txt', '**/SUB/*.txt', '**/Sub/*.TXT'), G.I | G.G), (('docs/*.txt', 'dOcS/*.txt'), G.I | G.C)):
            res = {}
            for p in spellings:
                res[p] = sorted(x.rstrip('/') for x in G.glob(p, flags=fl | G.U | G.Q, root_dir=t.root))
                chk.case(key=('case-of-literal', p, fl))
            want = sorted(e for e in ents if G.globmatch(e, spellings[0], flags=fl | G.U) or (os.path.isdir(os.path.join(t.root, e)) and G.globmatch(e + '/', spellings[0], flags=fl | G.U)))
            insensitive = not (fl & G.C)
            for p, got in res.items():
                exp = want if insensitive else sorted(e for e in ents if G.globmatch(e, p, flags=fl | G.U))
                if got != exp:
                    _viol(chk, 'C17', 'glob_result_is_independent_of_the_case_of_literal_pattern_text_in_insensitive_mode', f'glob({p!r}, IGNORECASE{"|CASE" if not insensitive else ""}) returns {got}; globmatch accepts {exp}',
                          f"from wcmatch import glob\nfrom vlib.harness import trees\nwith trees.Tree({spec!r}) as t:\n    print(glob.glob({p!r}, flags={fl | G.U | G.Q}, root_dir=t.root))", pattern=p)


def windows_bytes_twins(chk):
    """C17: under the Windows rules a bytes pattern selects the same mode as its str twin - drive / UNC prefixes and separators written `\\/` included."""
    from wcmatch import glob as G, fnmatch as F
    pats = [r'c:\/x', r'C:\/X\/y', r'//host\/share/x', r'\\\\host\\share\/x', r'a\/b', r'a\/\/b', r'c:\\x\/*', r'//?/c:\/x', r'*\/b', r'[ab]\/c']
    names = ['C:/x', 'c:/x', 'c:\\x', 'C:/X/y', 'c:/x/Y', '//host/share/x', '//HOST/SHARE/x', '/host/share/x', 'a/b', 'A\\b', 'a//b', 'c:/x/q', '//?/c:/x', 'z/b', 'b/c']
    for api, nm in ((G, 'glob'), (F, 'fnmatch')):
        for fl, fn in ((api.W, 'W'), (api.W | api.C, 'W|C'), (api.W | api.I, 'W|I'), (api.W | api.R, 'W|R')):
            for p in pats:
                for name in names:
                    chk.case(key=('win-bytes', nm, fn, p, name))
                    call = api.globmatch if api is G else api.fnmatch
                    try:
                        a = call(name, p, flags=fl)
                        b = call(name.encode(), p.encode(), flags=fl)
                    except Exception as e:
                        a, b = 'exc', type(e).__name__
                    if a != b:
                        _viol(chk, 'C17', 'Windows_rules_bytes_pattern_selects_the_mode_of_its_str_twin', f'{nm}({name!r}, {p!r}, {fn}) is {a}, the bytes twin gives {b}',
                              f"from wcmatch import {nm} as m\nprint(m.{'globmatch' if api is G else 'fnmatch'}({name.encode()!r}, {p.encode()!r}, flags={fl}))", pattern=p, name=name, fl=fn)


def split_then_tilde(chk):
    """C07: with SPLIT every piece is a pattern of its own - also for GLOBTILDE: `a|~/b` is the list ['a', '~/b'] (inline and through exclude=)."""
    import tempfile
    import shutil
    from wcmatch import glob as G
    home = tempfile.mkdtemp(prefix='wcv-home-')
    work = tempfile.mkdtemp(prefix='wcv-work-')
    old_home = os.environ.get('HOME')
    try:
        for d, names in ((home, ('h1.txt', 'h2.log', 'h3.md')), (work, ('w1.md', 'w2.txt'))):
            for n in names:
                open(os.path.join(d, n), 'w').close()
        os.environ['HOME'] = home
        fl = G.S | G.T | G.U
        for pat, pieces, kw in (('*.md|~/*.txt', ['*.md', '~/*.txt'], {}), ('~/*.log|*.txt|~/*.md', ['~/*.log', '*.txt', '~/*.md'], {}), ('*|!~/*.log', None, {}), ('~/*', ['~/*'], dict(exclude='*.md|~/*.log')),
                                ('*.txt|~/h1.*', ['*.txt', '~/h1.*'], {})):
            chk.case(key=('split-tilde', pat, str(kw)))
            try:
                got = sorted(G.glob(pat, flags=fl | (G.N if '!' in pat else 0), root_dir=work, **kw))
                if pieces is None:
                    want = sorted(x for x in G.glob('*', flags=G.T | G.U, root_dir=work) if x not in G.glob('~/*.log', flags=G.T | G.U, root_dir=work))
                else:
                    want = set()
                    for q in pieces:
                        want |= set(G.glob(q, flags=G.T | G.U, root_dir=work))
                    if kw:
                        for q in kw['exclude'].split('|'):
                            want -= set(G.glob(q, flags=G.T | G.U | G.D, root_dir=work))
                    want = sorted(want)
            except Exception as e:
                _viol(chk, 'C07', 'SPLIT_pieces_are_tilde-expanded_one_by_one', f'glob({pat!r}, SPLIT|GLOBTILDE, {kw}) raised {type(e).__name__}: {e}', '# see checks/fixed_clauses.py split_then_tilde', pattern=pat)
                continue
            if got != want:
                _viol(chk, 'C07', 'SPLIT_pieces_are_tilde-expanded_one_by_one', f'glob({pat!r}, SPLIT|GLOBTILDE, {kw}) with HOME={home} returns {got}; the pieces one by one give {want}',
                      '# see checks/fixed_clauses.py split_then_tilde (needs a scratch HOME)', pattern=pat)
    finally:
        if old_home is None:
            os.environ.pop('HOME', None)
        else:
            os.environ['HOME'] = old_home
        shutil.rmtree(home, ignore_errors=True)
        shutil.rmtree(work, ignore_errors=True)


def pathlib_uniqueness_and_history(chk):
    """C16: pathlib's normalisation never makes one file appear twice (also under SCANDOTDIR without DOTGLOB), and match(REALPATH) agrees with rglob whatever
    was asked before in the same process (an rglob with exclusions first, then match on a path below a symlinked directory)."""
    from wcmatch import pathlib as PL
    spec = {'.aa': 'd', '.aa/.b': 'f', 'x': 'f', 'real': 'd', 'real/sub': 'd', 'real/sub/b.md': 'f', 'ln': ('l', 'real'), 'c.md': 'f', 'bb.md': 'f'}
    with trees.Tree(spec) as t:
        cwd = os.getcwd()
        os.chdir(t.root)
        try:
            root = PL.Path('.')
            for pat, fl in (('.*/.*', PL.SD), ('.*/.*/.*', PL.SD), ('.*', PL.SD), ('.*/.*', PL.SD | PL.D), ('*/.*', PL.SD), ('.*/*', PL.SD | PL.G)):
                res = [str(p) for p in root.glob(pat, flags=fl)]
                chk.case(key=('pathlib-unique', pat, fl))
                dup = sorted({x for x in res if res.count(x) > 1})
                if dup:
                    _viol(chk, 'C16', 'Path.glob_never_yields_one_path_twice_unless_NOUNIQUE', f'Path.glob({pat!r}, flags={fl}) yields {dup} more than once', '# see checks/fixed_clauses.py pathlib_uniqueness_and_history', pattern=pat)
            # history: exclusions under rglob are compiled with the implicit prefix but WITHOUT the symlink capture; a later match() must not inherit that
            list(root.rglob(['*.md', '!b*'], flags=PL.N | PL.D))
            for p in ('*.md', 'b.md', 'sub/*.md'):
                for fl in (PL.D | PL.P, PL.P, PL.D | PL.P | PL.G):
                    yielded = {str(x) for x in root.rglob(p, flags=fl & ~PL.P)}
                    for q in ('ln/sub/b.md', 'real/sub/b.md', 'c.md'):
                        chk.case(key=('match-after-rglob-exclusion', p, fl, q))
                        m = PL.Path(q).match(p, flags=fl)
                        if m != (q in yielded):
                            _viol(chk, 'C16', 'match(REALPATH)_agrees_with_rglob_whatever_was_asked_before', f'after rglob with an exclusion: Path({q!r}).match({p!r}, flags={fl}) is {m}, rglob yields it: {q in yielded}',
                                  '# see checks/fixed_clauses.py pathlib_uniqueness_and_history', pattern=p, name=q)
        finally:
            os.chdir(cwd)


def str_bytes_twins(chk):
    """C18: is_magic, and RAWCHARS matching, give the same answer for a bytes argument as for its str twin."""
    from wcmatch import glob as G, fnmatch as F
    for api, nm in ((G, 'glob'), (F, 'fnmatch')):
        for fl, fn in ((0, '0'), (api.W, 'W'), (api.U, 'U'), (api.W | api.E | api.B, 'W|E|B'), (api.U | api.S | api.N, 'U|S|N')):
            for p in ('c:\\\\abc', 'c:/abc', '//host/share/x', '\\\\\\\\host\\\\share\\\\x', 'abc', 'a\\\\b', 'a\\*b', 'a*b', 'c:\\\\a[b]', '//h/s/{a,b}', 'a|b', '-a', '!a', 'a\\', 'c:', '//?/c:\\\\x'):
                chk.case(key=('is_magic-twin', nm, fn, p))
                a, b = api.is_magic(p, flags=fl), api.is_magic(p.encode(), flags=fl)
                if a != b:
                    _viol(chk, 'C18', 'is_magic_of_a_bytes_pattern_equals_is_magic_of_its_str_twin', f'{nm}.is_magic({p!r}, {fn}) is {a}, the bytes twin gives {b}', f"from wcmatch import {nm} as m\nprint(m.is_magic({p.encode()!r}, flags={fl}))", pattern=p, fl=fn)
        names = ['a\\b', 'ab', 'aAb', 'a\\zz', 'a*b', 'a\x07b', 'a\\\\b', 'a\\Ab', 'A', 'a']
        for fl, fn in ((api.R | api.U, 'R|U'), (api.R | api.U | api.E, 'R|U|E'), (api.R | api.W, 'R|W')):
            for p in (r'a\\b', r'a\\*', r'a\\\x41b', r'a\x5cb', r'a\134b', r'a\ab', r'a\\\\b', r'\x41', r'\101', r'[\x41-\x43]', r'a\x2ab'):
                for name in names:
                    chk.case(key=('rawchars-twin', nm, fn, p, name))
                    call = api.globmatch if api is G else api.fnmatch
                    try:
                        a, b = call(name, p, flags=fl), call(name.encode('latin-1'), p.encode(), flags=fl)
                    except Exception as e:
                        a, b = 'exc', type(e).__name__
                    if a != b:
                        _viol(chk, 'C18', 'RAWCHARS_bytes_pattern_answers_like_its_str_twin', f'{nm}({name!r}, {p!r}, {fn}) is {a}, the bytes twin gives {b}',
                              f"from wcmatch import {nm} as m\nprint(m.{'globmatch' if api is G else 'fnmatch'}({name.encode('latin-1')!r}, {p.encode()!r}, flags={fl}))", pattern=p, name=name, fl=fn)


def windows_spelling_pairs(chk):
    """C17: under the Windows rules a separator may be written `/` or as an escaped backslash anywhere in the pattern - also inside and right behind a UNC / device prefix."""
    from wcmatch import glob as G
    pairs = [(r'\\\\host\\share\\*.txt', '//host/share/*.txt'), (r'\\\\host\\share\\?', '//host/share/?'), (r'\\\\?\\UNC\\h\\s\\[ab]*', '//?/UNC/h/s/[ab]*'), (r'\\\\?\\c:\\*.txt', '//?/c:/*.txt'),
             (r'c:\\*.txt', 'c:/*.txt'), (r'\\\\host\\share\\**\\x', '//host/share/**/x'), (r'\\\\host\\share\\@(a|b)', '//host/share/@(a|b)'), (r'a\\*\\b', 'a/*/b')]
    names = ['//host/share/a.txt', '//HOST/share/a.txt', '//host/share/*.txt', '//host/share/a', '//?/UNC/h/s/ax', '//?/c:/q.txt', 'c:/q.txt', 'C:\\q.txt', '//host/share/d/e/x', '//host/share/x', '//host/share/a', 'a/q/b',
             '//host/share/b', '\\\\host\\share\\a.txt']
    for fl, fn in ((G.W, 'W'), (G.W | G.C, 'W|C'), (G.W | G.G | G.E, 'W|G|E')):
        for bsl, sl in pairs:
            for name in names:
                chk.case(key=('win-spelling', fn, bsl, name))
                a, b = G.globmatch(name, bsl, flags=fl), G.globmatch(name, sl, flags=fl)
                if a != b:
                    _viol(chk, 'C17', 'escaped_backslash_and_slash_spell_the_same_separator_also_around_a_UNC_prefix', f'globmatch({name!r}, {bsl!r}, {fn}) is {a} but with the separators written `/` ({sl!r}) it is {b}',
                          f"from wcmatch import glob\nprint(glob.globmatch({name!r}, {bsl!r}, flags={fl}), glob.globmatch({name!r}, {sl!r}, flags={fl}))", pattern=bsl, name=name, fl=fn)


BASH_PATTERNS = ['*', '*/', '**', '**/', '**/a', '**/*.txt', 'd/**', 'd/**/a', '*/*', '*/*/', '?', '?.txt', '[ab]*', '[!a]*', 'd/*', 'd/e/*', './*', 'd/../*', '.*', '.*/', '*/.*', '**/.*', 'd/.*',
                 '@(a|d)', '@(a|d)/*', '+(a)', '*(a)b*', '?(b).txt', '*.@(txt|md)', 'd/@(a|e)', '**/@(a|e)', '+([a-d])', 'c/*/*', '**/a/**', '[[:alpha:]]', '*[[:punct:]]*', 'b.tx[t]', 'nonexistent', 'd/nonexistent/*',
                 'a/*', 'a/', 'd', 'd/', './d/./e/*', '**/e/**', '*/a', '?/?', 'b*', '*b*', '*.*', 'b\\.txt', '\\a']


def bash_clause(chk, tier):
    """C05: on the syntax the two share (negation-free, no empty alternatives), glob() returns what Bash 5.2 pathname expansion returns under the corresponding
    shell options (globstar, extglob, dotglob; nullglob for 'no match'; globskipdots is Bash 5.2's default and corresponds to the forced NODOTDIR)."""
    import shutil
    import subprocess
    from wcmatch import glob as G
    bash = shutil.which('bash')
    if not bash:
        chk.note('bash not found: the Bash clause of C05 was not run')
        return
    ver = subprocess.run([bash, '-c', 'echo ${BASH_VERSINFO[0]}.${BASH_VERSINFO[1]}'], capture_output=True, text=True).stdout.strip()
    if not ver.startswith('5.2'):
        chk.note(f'bash {ver} is not 5.2: the Bash clause of C05 was not run')
        return
    combos = [(0, []), (G.G, ['globstar']), (G.E, ['extglob']), (G.D, ['dotglob']), (G.G | G.E, ['globstar', 'extglob']), (G.G | G.D, ['globstar', 'dotglob']), (G.G | G.E | G.D, ['globstar', 'extglob', 'dotglob'])]
    n = 0
    for tname in ('basic', 'nested') + (('case',) if tier != 'quick' else ()):
        spec = trees.NAMED[tname]
        with trees.Tree(spec) as t:
            for fl, opts in combos:
                for p in BASH_PATTERNS:
                    if ('(' in p) and not (fl & G.E):
                        continue          # without extglob a parenthesis is a shell syntax error, not a pattern
                    if '**' in p and not (fl & G.G):
                        continue          # without globstar Bash reads ** as *, wcmatch as two stars: both mean * - skipped to keep the oracle simple
                    cmd = [bash, '-O', 'nullglob'] + [x for o in opts for x in ('-O', o)] + ['-c', f'printf "%s\\0" {p}']
                    r = subprocess.run(cmd, cwd=t.root, capture_output=True)
                    # a word without a match stays as typed only when it has no pattern character (then it is not an expansion at all): keep what exists
                    want = sorted({x.decode().rstrip('/') for x in r.stdout.split(b'\0') if x and os.path.lexists(os.path.join(t.root, x.decode()))})
                    got = sorted({x.rstrip('/') for x in G.glob(p, flags=fl | G.U, root_dir=t.root)})
                    n += 1
                    chk.case(key=('bash', tname, p, fl), nontrivial=bool(want))
                    if got != want:
                        sig = dict(obligation='C05.bounded.glob==bash-5.2', tree=tname, pattern=p, fl='|'.join(opts) or '-', kind='bash', witness=sorted(set(got) ^ set(want))[0])
                        chk.violation(sig, f'tree {tname}, pattern {p!r}, shell options {opts}: glob returns {got}, Bash 5.2 expands to {want}',
                                      f"import sys, subprocess; sys.path.insert(0, {REPO!r}); sys.path.insert(0, '/verif')\nfrom wcmatch import glob\nfrom vlib.harness import trees\n"
                                      f"with trees.Tree(trees.NAMED[{tname!r}]) as t:\n    print(sorted(glob.glob({p!r}, flags={fl} | glob.U, root_dir=t.root)))\n"
                                      f"    print(subprocess.run({cmd!r}, cwd=t.root, capture_output=True).stdout.split(b'\\0'))\nsys.exit(1)\n")
    chk.bounds['c05_bash_cases'] = n
    chk.assume('Bash 5.2 (installed: /bin/bash) is the oracle of the Bash clause on a fixed list of negation-free patterns; results are compared as sets, trailing separators ignored')
