"""C05 bounded part: set(glob(p, f)) == spec_walk(tree, p, f) on generated trees (stand-in for walker completeness)."""
import random

from vlib import patsets
from vlib.common import REPO
from vlib.par import pmap
from vlib.spec import pat as P
from vlib.harness import trees, globrun

G = globrun.G
L = patsets.L

FLAGSETS = {'X|GL': G.X | G.GL, 'G': G.G, 'G|D': G.G | G.D, 'G|E': G.G | G.E, 'E': G.E, 'G|SD': G.G | G.SD, 'G|D|SD': G.G | G.D | G.SD, 'X|G|E': G.X | G.G | G.E,
            'G|L': G.G | G.L, 'GL|E': G.GL | G.E, 'G|I': G.G | G.I, 'G|K': G.G | G.K, '0': 0, 'G|E|D|SD|Z': G.G | G.E | G.D | G.SD | G.Z, 'X|GL|L': G.X | G.GL | G.L}


def extra_patterns():
    mk = patsets.mkpath
    a, star, q = (L('a'),), (('star',),), (('q',),)
    dot, dd = (L('.'),), (L('.'), L('.'))
    gs = (('gs',),)
    return [mk([dot, star]), mk([dd, star]), mk([(L('d'),), dd, star]), mk([(L('d'),), dot, a]), mk([star, dd, a]), mk([gs, dot]), mk([(L('d'),), gs]),
            mk([(L('l'), L('d')), star]), mk([(L('l'), L('d')), gs]), mk([gs, (L('l'), L('f'))]), mk([(L('d'),), (L('u'), L('p')), star]), mk([gs, (L('x'),)]), mk([gs, (L('t'),)]),
            mk([(L('S'), L('u'), L('b')), star]), mk([(L('s'), L('u'), L('b')), (('star',), L('.'), L('t'), L('x'), L('t'))]), mk([gs, star], trail=True),
            mk([(L('.'), ('star',)),]), mk([(L('.'), ('star',)), star]), mk([gs, (L('.'), ('star',))]), mk([(L('a'),), (L('r'),), gs]), mk([(L('a'),), (L('l'), L('r')), star]),
            mk([(L('s'), L('u'), L('b')), star, (L('q'),)]), mk([(L('s'), L('u'), L('b')), (L('d'),), (L('q'),)]), mk([(L('S'), L('u'), L('b')), (L('d'),), star]), mk([(L('S'), L('u'), L('b')), (L('D'),), (L('q'),)]),
            mk([(L('x'), ('esc', '\\'), L('y'))]), mk([(star[0], ('esc', '\\'), star[0])]), mk([(L('q'), ('esc', '\\')), star]), mk([(L('x'), ('esc', '\\')), (L('y'),)]), mk([(L('a'), ('esc', '*'), L('b'))]),
            mk([(('ext', '?', ((L('a'),),)), ('star',))]), mk([star, (('ext', '@', ((L('a'),), (L('e'),))),), star]),
            # a pattern that is exactly one literal name: a dangling / looping link named as written is an existing path (lexists)
            # `.` / `..` written with an escape are still the literal segments `.` / `..`
            mk([(L('d'),), (L('e'),), (('esc', '.'), ('esc', '.')), star]), mk([(L('d'),), (('esc', '.'),), a]), mk([(L('d'),), (L('.'), ('esc', '.')), star]), mk([gs, (('esc', '.'), L('.')), (L('d'),)]),
            mk([(L('l'), L('o'), L('o'), L('p'))]), mk([(L('l'), star[0])]), mk([(L('m'), q[0])]), mk([(L('d'),), (L('l'), star[0])]), mk([(L('l'), L('o'), L('o'), L('p'))], trail=True),
            mk([(L('d'), L('a'), L('n'), L('g'))]), mk([(L('l'), L('f'))]), mk([(L('l'), L('d'))]), mk([(L('l'), L('h'))]), mk([(L('f'),)]), mk([(L('n'), L('o'), L('n'), L('e'))])]


def run(chk, tier, seed):
    pats = patsets.path_patterns(tier)
    pats = [p for p in pats if not (p and p[0][0] == 'sep')] + extra_patterns()
    if tier == 'quick':
        pats = pats[::3] + extra_patterns()
    fsets = ['G', 'G|D', 'G|E', 'G|SD', 'X|G|E', 'G|L', 'GL|E', 'G|I', '0', 'X|GL'] if tier == 'quick' else list(FLAGSETS)
    specs = dict(trees.NAMED)
    rnd = random.Random(seed * 31 + 5)
    for i in range(3 if tier == 'quick' else 40):
        specs[f'random{i}'] = trees.random_spec(rnd, 7)
    items = []
    for tname, spec in specs.items():
        cases = [(p, FLAGSETS[fs]) for fs in fsets for p in pats]
        # split per tree into chunks so that all cores are used
        k = 400
        for i in range(0, len(cases), k):
            items.append((tname, spec, cases[i:i + k]))
    results = pmap(globrun.glob_vs_spec, items, chunk=1)
    n = 0
    for res in results:
        for r in res:
            n += 1
            if 'error' in r:
                chk.broke(f'glob harness crashed on {r["tree"]} {r["pattern"]!r} {r["fl"]}: {r["error"]}')
                continue
            if r.get('timeout'):
                chk.violation(dict(obligation='C05.bounded.glob_terminates', tree=r['tree'], pattern=r['pattern'], fl=r['fl']),
                              f'glob({r["pattern"]!r}, flags={r["fl"]}) on tree {r["tree"]} did not finish within {globrun.CASE_SECONDS}s', replay(r, specs))
                continue
            chk.case(key=(r['tree'], r['pattern'], r['flags']), nontrivial=r['n'] > 0 or bool(r['missing']))
            for kind in ('extra', 'missing'):
                if r[kind]:
                    sig = dict(obligation='C05.bounded.glob==spec_walk', tree=r['tree'], pattern=r['pattern'], fl=r['fl'], kind=kind, witness=r[kind][0], paths=r[kind][:6])
                    what = (f'glob({r["pattern"]!r}, flags={r["fl"]}) on tree {r["tree"]}: ' +
                            (f'returns {r[kind][:6]} which the pattern does not denote' if kind == 'extra' else f'misses {r[kind][:6]} which exist and match'))
                    chk.violation(sig, what, replay(r, specs))
    from checks import fixed_clauses
    fixed_clauses.newline_names(chk, 'C05')
    fixed_clauses.bash_clause(chk, tier)
    chk.rule = ('bounded stand-in for walker correctness: every (tree, path pattern, flag set) case compares set(glob()) (trailing separators ignored) with an '
                'independent segment-by-segment walk of the real tree using the C02/C03 segment denotations (must <= result <= may); trees: 5 hand-made '
                '(basic, links incl. dangling/cyclic/hidden, nested same names, case variants, deep symlinks) + seeded random ones of <= 7 entries; '
                'FOLLOW / *** never on cyclic trees; non-trivial = the result set is non-empty or something is missing')
    chk.bounds.update(dict(c05_trees=len(specs), c05_patterns=len(pats), c05_flagsets=fsets, c05_cases=n))
    chk.sample(dict(tree='links', pattern='**/x', flags='GLOBSTAR'))
    chk.assume('os.listdir / isdir / islink / lexists tell the truth about an unchanging tree (spec walk and glob see the same tree)')


def replay(r, specs):
    return (f"import sys, os; sys.path.insert(0, {REPO!r}); sys.path.insert(0, '/verif')\nfrom wcmatch import glob\nfrom vlib.harness import trees\n"
            f"spec = {specs[r['tree']]!r}\nwith trees.Tree(spec) as t:\n    print(sorted(glob.glob({r['pattern']!r}, flags={r['flags']} | glob.U, root_dir=t.root)))\n"
            f"# expected per spec walk: extra={r.get('extra')} missing={r.get('missing')}\nsys.exit(1)\n")
