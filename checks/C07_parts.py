"""C07 bounded/L part: (a) WcSplit.split against the specification splitter on exhaustive short strings; (b) list-level language:
Lang of the whole call (union of positives minus union of negatives, from translate) == the boolean combination of the single
pattern denotations, for lists with |, {a,b}, !/- prefixes and exclude=; order / repetition independence."""
import itertools
import random

from vlib import langcheck as LC, lang, patsets, relang as R
from vlib.common import REPO
from vlib.par import pmap
from vlib.spec import pat as P, den as D, splitspec

F, G, W = LC.F, LC.G, LC.W
L = patsets.L
ALPHA = 'a|\\[]()@!/-^'


def split_chunk(args):
    first, length, ext, pathname = args[:4]
    win = len(args) > 4 and args[4]
    from wcmatch import _wcparse
    flags = (_wcparse.EXTMATCH if ext else 0) | (_wcparse.PATHNAME if pathname else 0) | _wcparse.SPLIT | (_wcparse.FORCEWIN if win else _wcparse.FORCEUNIX)
    bad = []
    n = wf = 0
    for tail in itertools.product(ALPHA, repeat=length - 1):
        p = first + ''.join(tail)
        n += 1
        try:
            got = list(_wcparse.WcSplit(p, flags).split())
        except Exception as e:
            bad.append((p, 'raises', f'{type(e).__name__}: {e}'))
            continue
        if '|'.join(got) != p:
            bad.append((p, 'lossy', str(got)))
            continue
        try:
            want = splitspec.split(p, ext, pathname, win)
        except splitspec.Malformed:
            continue
        wf += 1
        if got != want:
            bad.append((p, 'pieces', f'{got} vs spec {want}'))
    return n, wf, bad[:20]


class _Union:
    def __init__(self, pos, neg):
        self.pos, self.neg = pos, neg
        self.maxc = min([a.maxc for a in pos + neg] or [R.UMAX])

    def start(self):
        return (tuple(a.start() for a in self.pos), tuple(a.start() for a in self.neg))

    def step(self, t, c):
        return (tuple(a.step(s, c) for a, s in zip(self.pos, t[0])), tuple(a.step(s, c) for a, s in zip(self.neg, t[1])))

    def accepts(self, t):
        return any(a.accepts(s) for a, s in zip(self.pos, t[0])) and not any(a.accepts(s) for a, s in zip(self.neg, t[1]))

    def bounds(self, acc):
        for a in self.pos + self.neg:
            a.bounds(acc)


def list_item(item):
    """item = (incs, excs_inline, excs_kw, flags, kind, form, known[, route]); form: 'list' | 'listrev' (exclusions first) | 'split' | 'brace';
    route: 'compile' (the regexes the matchers execute) | 'translate' (the regexes translate() returns)"""
    incs, exi, exk, flags, kind, form, known = item[:7]
    route = item[7] if len(item) > 7 else 'compile'
    try:
        api = F if kind == 'fnmatch' else G
        minus = bool(flags & W.MINUSNEGATE)
        neg = '-' if minus else '!'
        texts = [P.render(p) for p in incs] + [neg + P.render(p) for p in exi]
        if form == 'listrev':
            texts = texts[len(incs):] + texts[:len(incs)]
        if form == 'split':
            pats, fl = '|'.join(texts), flags | W.SPLIT
        elif form == 'brace':
            pats, fl = '{' + ','.join(texts) + '}' if len(texts) > 1 else texts[0], flags | W.BRACE
        else:
            pats, fl = texts, flags
        kw = dict(flags=fl)
        if exk:
            kw['exclude'] = [P.render(p) for p in exk]
        # the regexes the matcher itself executes (translate()'s are language-equal by C08)
        if route == 'translate':
            pos, ng = api.translate(pats, **kw)
        else:
            pos, ng = W.compile_pattern(pats, api._flag_transform(fl), exclude=kw.get('exclude'))
        rec = lang._Rec(known)
        path = kind == 'glob'
        m = LC.mode_from_flags(flags, path)
        md = LC.mode_from_flags(flags | W.DOTMATCH, path)

        def den(p, mode, which):
            return D.den_path(p, mode, which)[0] if path else D.den_name(p, mode, which)
        negate_on = bool(flags & W.NEGATE) and not exk      # exclude= clears NEGATE: inline prefixes are then literal text
        if exi and not negate_on:
            return 'skipped', []
        excl = list(exi) + list(exk)
        inc_must = [den(p, m, 'must') for p in incs]
        inc_may = [den(p, m, 'may') for p in incs]
        if not incs and excl:
            if flags & W.NEGATEALL and not exk or (exk and False):
                allm = D.Mode(path=path, dot=m.dot, ext=m.ext, icase=m.icase, globstar=True)
                star = ((('gs',),) if path else (('star',),))
                inc_must = [den(star, allm, 'must')]
                inc_may = [den(star, allm, 'may')]
        exc_must = [den(p, md, 'must') for p in excl]
        exc_may = [den(p, md, 'may') for p in excl]
        must = R.s_diff(R.s_alt(*inc_must), R.s_alt(*exc_may)) if inc_must else R.S0
        may = R.s_diff(R.s_alt(*inc_may), R.s_alt(*exc_must)) if inc_may else R.S0
        if flags & W.NODIR and pos:
            ds = D.dir_syntax(m)
            must, may = R.s_diff(must, ds), R.s_diff(may, ds)
        dom = D.dom_relative(m) if path else D.dom_nonempty(m)
        impl = _Union([R.Impl(x) for x in pos], [R.Impl(x) for x in ng])
        sig = dict(pattern=str(pats), exclude=str(kw.get('exclude')), flags=fl, fl=LC.flagnames(fl), mode=kind, form=form, route=route)

        def native(w):
            return (F.fnmatch if kind == 'fnmatch' else G.globmatch)(w, pats, **kw)
        call = 'fnmatch.fnmatch' if kind == 'fnmatch' else 'glob.globmatch'
        extra = f", exclude={kw['exclude']!r}" if exk else ''
        ob = 'C07.lang.list==boolean_combination_of_single_patterns' + ('(translate)' if route == 'translate' else '')
        st = lang.decide(rec, ob, impl, R.Spec(must, m.maxc), R.Spec(may, m.maxc), R.Spec(dom, m.maxc), sig,
                         native=native, expect_fmt=LC.replay_fn(call, pats, fl, extra))
        return st, rec.ops
    except R.Unsupported as e:
        return 'open', [('leave_open', ('C07.lang.list', f'regex outside the engine subset: {e}'))]
    except (R.StateLimit, TimeoutError) as e:
        return 'open', [('leave_open', ('C07.lang.list', f'engine limit {e}'))]
    except ValueError:
        return 'skipped', []
    except Exception:
        import traceback
        return 'broken', [('broke', (f'{item[:5]}: ' + traceback.format_exc()[-1200:],))]


def run(chk, tier, seed):
    # (a) splitter
    length = 5 if tier == 'quick' else 7
    jobs = [(c, n, ext, pn) for n in range(1, length + 1) for c in ALPHA for ext in (True, False) for pn in (False, True)]
    # the Windows rules: an escaped backslash ends a bracket expression only in path mode (fix: WcSplit and WcParse agree)
    jobs += [(c, n, ext, pn, True) for n in range(1, length + 1) for c in ALPHA for ext in (True, False) for pn in (False, True)]
    total = wf = 0
    for n, w, bad in pmap(split_chunk, jobs, chunk=1):
        total += n
        wf += w
        for p, kind, detail in bad:
            chk.violation(dict(obligation='C07.bounded.split.' + kind, pattern=p, witness=p),
                          f'WcSplit({p!r}).split(): {kind}: {detail}',
                          f"import sys; sys.path.insert(0, {REPO!r})\nfrom wcmatch import _wcparse\nprint(list(_wcparse.WcSplit({p!r}, _wcparse.EXTMATCH | _wcparse.SPLIT).split()))\nsys.exit(1)\n")
    chk.case(key='split', n=total)
    for i in range(min(wf, 2000)):
        chk.nontrivial.add(('split-wf', i))
    # (b) list-level languages
    star, q = ('star',), ('q',)
    singles = [(L('a'),), (star,), (L('a'), star), (star, L('.'), L('b')), (L('.'), star), (q, L('b')), (('ext', '@', ((L('a'),), (L('b'), star))),), (('br', False, (('ch', 'a'), ('ch', '.'))), star)]
    psingles = [patsets.mkpath([(L('a'),)]), patsets.mkpath([(star,)]), patsets.mkpath([(('gs',),), (L('a'),)]), patsets.mkpath([(L('d'),), (star,)]), patsets.mkpath([(L('.'), star)]),
                patsets.mkpath([(star,)], trail=True), patsets.mkpath([(('gs',),)])]
    rnd = random.Random(seed * 101 + 7)
    items = []
    flagsets = [W.NEGATE, W.NEGATE | W.MINUSNEGATE, W.NEGATE | W.NEGATEALL, W.NEGATE | W.DOTMATCH, 0, W.NEGATE | W.NEGATEALL | W.MINUSNEGATE]
    for kind, pool, base in (('fnmatch', singles, W.EXTMATCH | W.FORCEUNIX), ('glob', psingles, W.EXTMATCH | W.GLOBSTAR | W.FORCEUNIX)):
        combos = []
        for ni in (0, 1, 2, 3):
            for ne in (0, 1, 2):
                if ni + ne == 0:
                    continue
                for _ in range(6 if tier == 'quick' else 40):
                    combos.append((tuple(rnd.choice(pool) for _ in range(ni)), tuple(rnd.choice(pool) for _ in range(ne))))
        for incs, excs in combos:
            for fl in flagsets:
                f = base | fl | (W.NODIR if kind == 'glob' and rnd.random() < 0.15 else 0)
                items.append((incs, excs, (), f, kind, 'list', chk.known))
                if excs:
                    items.append((incs, (), excs, f, kind, 'list', chk.known))
                if rnd.random() < 0.5:
                    items.append((incs, excs, (), f, kind, 'split', chk.known))
                if rnd.random() < 0.3 and not any(',' in P.render(p) for p in incs + excs):
                    items.append((incs, excs, (), f, kind, 'brace', chk.known))
                if excs and rnd.random() < 0.5:
                    items.append((incs, excs, (), f, kind, rnd.choice(('list', 'listrev', 'split')), chk.known, 'translate'))
                if len(incs) + len(excs) > 1 and rnd.random() < 0.4:
                    pi = list(incs) + list(incs[:1])
                    rnd.shuffle(pi)
                    items.append((tuple(pi), tuple(reversed(excs)), (), f, kind, 'list', chk.known))
        # the same text as an inclusion and as an inline exclusion, in both orders, through both routes
        for p in pool[:5]:
            for fl in (W.NEGATE, W.NEGATE | W.NEGATEALL, W.NEGATE | W.MINUSNEGATE):
                for form in ('list', 'listrev', 'split'):
                    for route in ('compile', 'translate'):
                        items.append(((p,), (p,), (), base | fl, kind, form, chk.known, route))
                        items.append(((p, pool[0]), (p,), (), base | fl, kind, form, chk.known, route))
    res = pmap(LC._with_budget(list_item) if False else list_item, items)
    counts = {}
    for (st, ops), it in zip(res, items):
        counts[st] = counts.get(st, 0) + 1
        if st == 'skipped':
            continue
        lang.apply_ops(chk, ops)
        if st in ('proved', 'known', 'violation'):
            chk.case(key=('list', str(it[:6])))
    end_to_end(chk, tier, seed)
    from checks import fixed_clauses
    fixed_clauses.split_then_tilde(chk)
    chk.rule = (f'(a) every string of length <= {length} over the alphabet {ALPHA!r} x EXTMATCH on/off x PATHNAME on/off through WcSplit.split: never raises, never loses text, and for '
                'strings whose brackets/groups are all terminated the pieces equal those of the specification splitter; (b) seeded lists of 0-3 inclusion and 0-2 exclusion '
                'patterns (inline !/- and exclude=, as a list, joined by | under SPLIT, as a brace set under BRACE, permuted/repeated) x {NEGATE, MINUSNEGATE, NEGATEALL, DOTMATCH, NODIR} '
                'x {fnmatch, glob}: the language of the whole call is compared for ALL names with the boolean combination of the single-pattern denotations (exclusions with DOTMATCH forced)'
                '; (c) the real calls fnmatch/filter/globmatch/globfilter/compile().match on concrete names with 1-3 inclusions and 0-3 exclusions (exclude= and inline) against '
                'any(single inclusion calls) and not any(single exclusion calls with DOTMATCH)')
    chk.bounds.update(dict(c07_split_strings=total, c07_split_wellformed=wf, c07_list_items=len(items), c07_outcomes=counts))
    chk.sample(dict(patterns=['a*', '!*.b'], flags='NEGATE|EXTMATCH', form='split: "a*|!*.b"'))
    chk.assume('BRACE expansion itself is bracex (assumed = Bash)')


def end_to_end(chk, tier, seed):
    """(c) the matcher itself (the loop over inclusion / exclusion regexes in _Match.match, WcRegexp.filter, compiled objects): a call with a list of
    patterns and several exclusions answers as the boolean combination of single-pattern calls that have no exclusion at all."""
    from wcmatch import fnmatch as F, glob as G
    rnd = random.Random(seed * 7919 + 70)
    fpool = ['a*', '*.py', '.*', '*b', '?', 'a?c', '*.txt', '[ab]*', '*', 'abc']
    fnames = ['a', 'b', 'abc', 'a.py', '.a.py', 'b.txt', 'ab', '.x', 'abc.txt', 'c', 'a.b']
    gpool = ['*', 'd/*', '**/a', '**/*.txt', 'a*', '**/.*', 'd/**', '*/b']
    gnames = ['a', 'd/a', 'd/b', 'x/y/a', 'a.txt', 'd/a.txt', '.h', 'd/.h', 'ab', 'd/e/b']
    n = bad = 0
    for api, pool, names, base in ((F, fpool, fnames, F.U), (G, gpool, gnames, G.U | G.G)):
        one = api.fnmatch if api is F else api.globmatch
        flt = api.filter if api is F else api.globfilter
        combos = [(tuple(rnd.sample(pool, ni)), tuple(rnd.sample(pool, ne))) for ni in (1, 2, 3) for ne in (0, 1, 2, 3) for _ in range(3 if tier == 'quick' else 25)]
        for incs, excs in combos:
            for fl in (0, api.D):
                want = {x for x in names if any(one(x, i, flags=base | fl) for i in incs) and not any(one(x, e, flags=base | fl | api.D) for e in excs)}
                forms = [('exclude=', list(incs), dict(flags=base | fl, exclude=list(excs)) if excs else dict(flags=base | fl)),
                         ('inline', list(incs) + ['!' + e for e in excs], dict(flags=base | fl | api.N)),
                         ('inline-first', ['!' + e for e in excs] + list(incs), dict(flags=base | fl | api.N))]
                for form, pats, kw in forms:
                    got = {x for x in names if one(x, pats, **kw)}
                    gotf = set(flt(names, pats, **kw))
                    gotc = {x for x in names if api.compile(pats, **kw).match(x)}
                    n += 1
                    for how, g in (('match', got), ('filter', gotf), ('compiled', gotc)):
                        if g != want:
                            bad += 1
                            w = sorted(g ^ want)[0]
                            chk.violation(dict(obligation='C07.bounded.call_is_the_boolean_combination_of_single_pattern_calls', api=api.__name__, how=how, form=form, patterns=str(pats), exclude=str(kw.get('exclude')), witness=w),
                                          f'{api.__name__} {how} {form}: patterns {pats!r} {kw!r}: name {w!r} answered {w in g}, single-pattern calls say {w in want}',
                                          f"import sys; sys.path.insert(0, {REPO!r})\nfrom wcmatch import fnmatch, glob\napi = {'fnmatch' if api is F else 'glob'}\n"
                                          f"print({'api.fnmatch' if api is F else 'api.globmatch'}({w!r}, {pats!r}, **{kw!r}))\nsys.exit(1)\n")
                    chk.case(key=('e2e', api.__name__, str(pats), str(kw)))
    chk.bounds['c07_end_to_end_calls'] = n
