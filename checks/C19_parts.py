"""C19: frame scan obligations (finite, complete) + a bounded history/thread cross-check of the frame argument."""
import time

from vlib import framescan


def run(chk, tier, seed):
    t0 = time.time()
    for name, ok, detail in framescan.scan():
        full = 'C19:' + name
        if ok:
            chk.obligation(full, 'proved', 'frame-scan', 0.0, function='ast scan', detail='no offending site')
        else:
            chk.obligation(full, 'refuted', 'frame-scan', 0.0, function='ast scan', detail=detail)
            chk.violation(dict(obligation=full, site=detail), f'frame obligation {full} fails: {detail}',
                          f'# frame obligation {full}\n# offending site(s): {detail}\n', no_input=True)
    chk.assume('functools.lru_cache and the re module cache are transparent and thread-safe (assumed)')
    chk.assume('threads are not scheduled: the thread clause rests on the frame argument (no shared mutable state) plus GIL atomicity of attribute access')
    from checks import c19_history
    c19_history.run(chk, tier, seed)
