"""C18 - (glue obligations only so far; bounded parts are added below as they are built)"""
from vlib.common import Check


def main(tier, seed):
    chk = Check('C18', tier, seed, level='other', technique='sidecar contracts discharged by own VC generator + z3')
    from vlib import glue
    glue.run(chk, 'C18')
    try:
        from checks import C18_parts as parts
    except ImportError:
        parts = None
    if parts is not None:
        parts.run(chk, tier, seed)
    return chk.finish(explanation='contract obligations on the real function bodies (pyvc + z3); bounded parts listed in rule/bounds when present',
                      trusted_base=['vlib/pyvc.py', 'z3'])
