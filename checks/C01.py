"""C01 - file-name matching follows the documented wildcard language.

P  (unbounded, pyvc/finite):  call-chain obligations of fnmatch -> _wcparse.compile -> _compile -> WcRegexp.match ->
   _Match.match (see contracts/), finite lemmas on the POSIX tables and the regex fragment templates.
L  (bounded in the pattern, exact in the name): Lang(fnmatch.translate(p, f)) == Den_fn(p, f) on non-empty names not
   starting with `.` (all names under DOTMATCH), decided by relang for every pattern of the enumerated grammar.
"""
import itertools
import random
import sys
import time

from vlib import relang as R
from vlib.common import Check, REPO
from vlib import langcheck as LC
from vlib.spec import pat as P

F = LC.F


def finite_lemmas(chk):
    """Finite objects are checked completely (a proof by exhaustive decision): POSIX tables and fragment templates."""
    from wcmatch import posix, _wcparse as W
    t0 = time.time()
    for table, is_bytes, maxc in ((posix.unicode_posix_properties, False, R.UMAX), (posix.ascii_posix_properties, True, 255)):
        tname = 'ascii_posix_properties' if is_bytes else 'unicode_posix_properties'
        for name in sorted(P.POSIX):
            for neg in (False, True):
                key = ('^' if neg else '') + name
                ob = f'C01.finite.posix.{tname}[{key}]'
                t1 = time.time()
                if key not in table:
                    chk.violation(dict(obligation=ob), f'{tname} has no entry {key!r}', None, no_input=True)
                    chk.obligation(ob, 'refuted', 'finite')
                    continue
                body = table[key]
                rx = '[' + body + ']'
                rxb = rx.encode('latin-1') if is_bytes else rx
                want = R.clip(R.norm(P.POSIX[name]), maxc)
                if neg:
                    want = R.compl(want, maxc)
                try:
                    r = R.equal(R.Impl(rxb), R.Spec(R.s_cls(want), maxc))
                except R.Unsupported as e:
                    chk.undecide(ob, e)
                    chk.obligation(ob, 'undecided', 'finite')
                    continue
                if r is None:
                    chk.obligation(ob, 'proved', 'finite', time.time() - t1, function=f'posix.{tname}', detail=repr(body))
                else:
                    w = R.to_str(r[0], is_bytes)
                    pat = ('[[:%s:]]' if not neg else '[![:%s:]]') % name
                    pt = pat.encode() if is_bytes else pat
                    replay = (f"import sys; sys.path.insert(0, {REPO!r})\nfrom wcmatch import fnmatch\n"
                              f"got = fnmatch.fnmatch({w!r}, {pt!r}, flags=fnmatch.D)\nprint(got); sys.exit(0 if got == {r[2]!r} else 1)\n")
                    chk.violation(dict(obligation=ob, witness=w), f'{tname}[{key!r}] = {body!r} is not the C-locale class: '
                                  f'character {w!r} in table: {r[1]}, in POSIX {name}{" complement" if neg else ""}: {r[2]}', replay)
                    chk.obligation(ob, 'refuted', 'finite', time.time() - t1)
    # fragment templates with a fresh letter standing for an arbitrary sub-language
    # the body is an alternation of texts of different lengths, so a misplaced quantifier cannot hide (`(?:x|yz?)` is not `(?:x|yz)?`)
    BODY = 'x|yz'
    X = R.s_alt(R.s_chr('x'), R.s_str('yz'))
    ANY = R.s_cls(((0, R.UMAX),))
    lemmas = [
        ('_QMARK', '(?s:' + W._QMARK + ')', ANY),
        ('_STAR', '(?s:' + W._STAR + ')', R.s_star(ANY)),
        ('_NEED_CHAR+_STAR', '(?s:' + W._NEED_CHAR + W._STAR + ')', R.s_plus(ANY)),
        ('_NO_DOT+_STAR', '(?s:' + W._NO_DOT + W._STAR + ')', R.s_opt(R.s_cat(R.s_cls(R.compl(((46, 46),), R.UMAX)), R.s_star(ANY)))),
        ('_QMARK_GROUP', W._QMARK_GROUP.format(BODY), R.s_opt(X)),
        ('_STAR_GROUP', W._STAR_GROUP.format(BODY), R.s_star(X)),
        ('_PLUS_GROUP', W._PLUS_GROUP.format(BODY), R.s_plus(X)),
        ('_GROUP', W._GROUP.format(BODY), X),
        ('_QMARK_CAPTURE_GROUP', W._QMARK_CAPTURE_GROUP.format(BODY), R.s_opt(X)),
        ('_STAR_CAPTURE_GROUP', W._STAR_CAPTURE_GROUP.format(BODY), R.s_star(X)),
        ('_PLUS_CAPTURE_GROUP', W._PLUS_CAPTURE_GROUP.format(BODY), R.s_plus(X)),
        ('_CAPTURE_GROUP', W._CAPTURE_GROUP.format(BODY), X),
        ('_EXCLA_GROUP', '(?s:' + W._EXCLA_GROUP.format(BODY) + r'\Z' + W._EXCLA_GROUP_CLOSE.format(W._STAR) + ')',
         R.s_diff(R.s_star(ANY), X)),
    ]
    for name, rx, want in lemmas:
        ob = f'C01.finite.template.{name}'
        t1 = time.time()
        try:
            r = R.equal(R.Impl(rx), R.Spec(want))
        except R.Unsupported as e:
            chk.undecide(ob, e)
            chk.obligation(ob, 'undecided', 'finite')
            continue
        if r is None:
            chk.obligation(ob, 'proved', 'finite', time.time() - t1, function='_wcparse.' + name.split('+')[0], detail=rx)
        else:
            w = R.to_str(r[0])
            chk.violation(dict(obligation=ob, witness=w), f'fragment template {name} = {rx!r} does not denote its intended language: '
                          f'{w!r} template: {r[1]} intended: {r[2]}', None, no_input=True)
            chk.obligation(ob, 'refuted', 'finite', time.time() - t1)
    chk.assume('finite lemmas: decided by relang over the whole alphabet (0..0x10FFFF / 0..255), complete')
    return time.time() - t0


FLAGSETS = {
    'E': F.E | F.U, 'E|D': F.E | F.D | F.U, 'E|I': F.E | F.I | F.U, 'E|D|C|I': F.E | F.D | F.C | F.I | F.U,
    '0': F.U, 'D': F.D | F.U, 'E|W': F.E | F.W, 'E|D|W|C': F.E | F.D | F.W | F.C, 'E|default-platform': F.E,
}


def patterns_quick():
    A = P.atoms('ab.')
    inner = [('lit', 'a'), ('lit', 'b'), ('lit', '.'), ('star',), ('q',), ('br', False, (('ch', 'a'), ('ch', '.')))]
    groups = P.ext_groups(inner, '?*+@', 2, 1)
    nested = [('ext', k, ((g,),)) for k in '?*+@' for g in groups[::7]]
    negs = P.ext_groups([('lit', 'a'), ('star',), ('q',), ('lit', '.')], '!', 2, 2)
    pats = list(P.enum_names(A, 2))
    pats += [(g,) for g in groups] + [(g, x) for g in groups[::3] for x in A[:5]] + [(x, g) for g in groups[::3] for x in A[:5]]
    pats += [(g,) for g in nested] + [(('lit', 'a'), g) for g in nested[::2]]
    pats += [(n,) for n in negs] + [(n, ('lit', 'a')) for n in negs[::3]] + [(n, ('lit', '.'), ('lit', 'b')) for n in negs[::5]]
    pats += [(('lit', 'a'), n) for n in negs[::4]]
    return pats


ESCAPED_SPELLINGS = [(r'[a-\z-9]', '[a-z-9]'), (r'[\a-\c-\e]', '[a-c-e]'), (r'[!a-\z-9]', '[!a-z-9]'), (r'x[0-\9-a]', 'x[0-9-a]'), (r'[a-\z]', '[a-z]'), (r'[\a-z]', '[a-z]'),
                     (r'[a-\c-]', '[a-c-]'), (r'[a-\cx-\z-]', '[a-cx-z-]'), (r'[a-\z-9]*', '[a-z-9]*'), (r'[\!a]', '[a!]'), (r'[a\]b]', '[]ab]'),
                     # `[:name:]` with a name that is not one of the fourteen POSIX classes is ordinary bracket text: the bracket ends at the first `]`
                     ('[[:foo:]]', '[[:fo]]'), ('[![:foo:]]', '[![:fo]]'), ('[a[:foo:]b]', '[a[:fo]b]'), ('[[:ALPHA:]]', '[[:ALPH]]'), ('[[:alphas:]]', '[[:alphs]]'),
                     ('x[[:fo:]]*', 'x[[:fo]]*'), ('@([[:foo:]]|q)', '@([[:fo]]|q)'),
                     # a hyphen as the END of a range (`+--`), then a literal hyphen, then further members: nothing after it is swallowed
                     ('[+---*]', '[+,*-]'), ('[+---*z]', '[+,*z-]'), ('x[+---*]y', 'x[+,*-]y'), ('[!+---*]', '[!+,*-]'), ('[0-9---*]', '[0-9*-]')]


def escaped_spelling_lemmas(chk):
    """An escaped member of a bracket expression denotes the character itself - also as the END of a range (a hyphen directly behind
    the range is then literal, exactly as behind an unescaped end).  Each pair is decided exactly (all names)."""
    from wcmatch import _wcparse as W, fnmatch as F
    agg = dict(proved=0, refuted=0)
    for esc, plain in ESCAPED_SPELLINGS:
        for fl, nm in ((F.U, 'unix'), (F.U | F.D | F.E, 'unix|D|E'), (F.W | F.D, 'win|D')):
            for is_bytes in (False, True):
                p1, p2 = (esc.encode(), plain.encode()) if is_bytes else (esc, plain)
                try:
                    a = W.compile_pattern(p1, F._flag_transform(fl))[0][0]
                    b = W.compile_pattern(p2, F._flag_transform(fl))[0][0]
                    r = R.equal(R.Impl(a), R.Impl(b))
                except (R.Unsupported, R.StateLimit) as e:
                    chk.leave_open('C01.lang.escaped_bracket_members_and_range_ends', str(e))
                    continue
                chk.case(key=('escaped-spelling', esc, nm, is_bytes))
                if r is None:
                    agg['proved'] += 1
                else:
                    agg['refuted'] += 1
                    w = R.to_str(r[0], is_bytes)
                    chk.violation(dict(obligation='C01.lang.escaped_bracket_members_and_range_ends', pattern=esc, flags=fl, fl=nm, witness=w, mode='escaped-spelling', bytes=is_bytes),
                                  f'C01.lang.escaped_bracket_members_and_range_ends: {esc!r} and {plain!r} differ on {w!r} under {nm}',
                                  f"import sys; sys.path.insert(0, {REPO!r})\nfrom wcmatch import fnmatch\nprint(fnmatch.fnmatch({w!r}, {p1!r}, flags={fl}), fnmatch.fnmatch({w!r}, {p2!r}, flags={fl}))\nsys.exit(1)\n")
    chk.obligation('C01:C01.lang.escaped_bracket_members_and_range_ends', 'refuted' if agg['refuted'] else 'proved', 'relang', 0.0, detail=f"{agg['proved']} proved, {agg['refuted']} refuted")


def main(tier, seed):
    chk = Check('C01', tier, seed, level='other', technique='contracts + exact regular-language decision per pattern')
    known = chk.known
    finite_lemmas(chk)
    escaped_spelling_lemmas(chk)
    from vlib import glue
    glue.run(chk, 'C01')
    items = []
    from vlib import patsets
    pats = patsets.name_patterns(tier)
    fsets = ['E', 'E|D', 'E|I', '0', 'E|W'] if tier == 'quick' else list(FLAGSETS)
    for fs in fsets:
        fl = FLAGSETS[fs]
        for p in pats:
            items.append(('C01', 'C01.lang.fnmatch', p, fl, False, 'visible', known))
    # bytes twins on a subset
    for p in pats[:: (7 if tier == 'quick' else 2)]:
        for fs in ('E', 'E|D'):
            items.append(('C01', 'C01.lang.fnmatch', p, FLAGSETS[fs], True, 'visible', known))
    # seeded random deeper patterns
    g = P.Gen(seed * 7919 + 1)
    nrand = 600 if tier == 'quick' else 20000
    for i in range(nrand):
        p = g.name_pattern(max_tokens=6 if tier == 'quick' else 9, depth=2 if tier == 'quick' else 3)
        fl = FLAGSETS[random.Random(seed + i).choice(sorted(FLAGSETS))]
        items.append(('C01', 'C01.lang.fnmatch', p, fl, False, 'visible', known))
    counts, secs = LC.run_items(chk, LC.fn_item, items)
    chk.rule = ('patterns: every sequence of <=2 (thorough: <=3) tokens from literals a b ., \\c, *, ?, six bracket forms; every '
                'extended group ?*+@ with 1-2 alternatives of 0-1 tokens alone / before / after a token; nested groups; !(list) with '
                '1-2 alternatives of 0-2 tokens alone, followed by literal text, after a literal; seeded random patterns to depth '
                '2-3; x flag sets; a case is one (pattern, flags, str|bytes) obligation decided for ALL names; distinct by that key; '
                'all are non-trivial (each decides an infinite set of names)')
    chk.bounds = dict(enumerated_patterns=len(pats), random_patterns=nrand, flagsets=fsets, worker_seconds=round(secs, 1), outcome_counts=counts)
    for it in items[:: max(1, len(items) // 6)][:6]:
        chk.sample(dict(pattern=P.render(it[2]), flags=it[3], bytes=it[4], domain=it[5]))
    chk.assume('relang implements CPython re semantics for the emitted subset (cross-checked against re on every witness and in selftest)')
    chk.assume('the pattern space is bounded (see bounds); each obligation quantifies over all names exactly')
    chk.assume('Den_fn (vlib/spec/den.py) is the reading of the C01/C03 statements; patterns outside the fragment the statement defines (nested negation, !() before non-literal text) are skipped')
    return chk.finish(
        explanation=('finite lemmas (POSIX tables, fragment templates) and call-chain obligations are discharged for all inputs; the '
                     'compiler postcondition Lang(translate(p,f)) == Den_fn(p,f) is a bounded stand-in: bounded in the pattern, exact over all names '
                     '(relang decision procedure). obligations/discharged count both kinds separately in obligations_by_backend.'),
        trusted_base=['vlib/relang.py', 'vlib/spec/den.py', 'vlib/pyvc.py', 're._parser', 'z3'])
