"""C15 bounded part: every abort point k = 0..n in the sequence of hook invocations of a run, kill between yields, hooks raising
at every validate position, repeated runs; on generated trees (replay / cross-check of the environment model of the contract)."""
from vlib.common import REPO
from vlib.par import pmap
from vlib.harness import trees, walkrun

WM = walkrun.WM
FILES = {'a.txt': 'f', 'b.txt': 'f', 'c.skip': 'f', 'd': 'd', 'd/e.txt': 'f', 'd/f.skip': 'f', 'd/g': 'd', 'd/g/h.txt': 'f', 'z': 'd', 'z/y.txt': 'f', '.hid': 'd', '.hid/i.txt': 'f', 'n.py': 'f'}
ONEDIR = {'d': 'd', 'a.txt': 'f', 'b.txt': 'f'}


def run(chk, tier, seed):
    specs = {'files': FILES, 'onedir': ONEDIR, 'basic': trees.BASIC}
    cases = [('*.txt|*.skip', WM.RV, None, None), ('*.txt|*.skip', WM.RV, 'S', 'E'), ('*', WM.RV | WM.HD, None, 'E'), ('*.txt', 0, 'S', None), ('', WM.RV, None, None),
             ('*.txt|*.skip|*.py', WM.RV | WM.HD, 'S', None)]
    if tier == 'quick':
        cases = cases[:4]
    # falsy values that are not None must be passed through like any other value
    cases += [('*.txt|*.skip', WM.RV, ('RAW', 0), ('RAW', '')), ('*.txt', WM.RV, ('RAW', ()), ('RAW', False))]
    items = [(tn, sp, [c]) for tn, sp in specs.items() for c in cases]
    n = 0
    for res in pmap(walkrun.kill_points, items, chunk=1):
        for r in res:
            if 'error' in r:
                chk.broke(f'C15 harness crashed: {r["tree"]} {r["pattern"]!r}: {r["error"]}')
                continue
            n += r['hooks'] + 1
            chk.case(key=(r['tree'], r['pattern'], r['flags'], r['skip_value']), nontrivial=r['hooks'] > 2, n=r['hooks'] + 1)
            for kind, w in r['bad']:
                chk.violation(dict(obligation='C15.bounded.' + kind, tree=r['tree'], pattern=r['pattern'], fl=r['fl'], witness=w),
                              f'WcMatch({r["pattern"]!r}, flags={r["fl"]}) on tree {r["tree"]}: {kind}: {w}',
                              f"import sys; sys.path.insert(0, {REPO!r}); sys.path.insert(0, '/verif')\nfrom vlib.harness import trees, walkrun\n"
                              f"print(walkrun.kill_points(({r['tree']!r}, {specs[r['tree']]!r}, [({r['pattern']!r}, {r['flags']}, {r['skip_value']!r}, None)])))\nsys.exit(1)\n")
    from checks import fixed_clauses
    fixed_clauses.pending_iterators(chk)
    chk.rule = ('bounded stand-in / replay of the abort-protocol contract: for each (tree, pattern, flags) a recording subclass kills at every hook invocation k = 0..n, between every two '
                'yielded results and before the start; checks: prefix of the uninterrupted result, nothing processed beyond the entry being processed, aborted until reset(), complete '
                'result after reset(), identical repeated runs, on_reset once per run, skipped counter restarted, each file routed to exactly one of on_match/on_skip, on_error exactly '
                'for the raising entry (hooks raising at every validate position); evaluations = abort points')
    chk.bounds.update(dict(c15_trees=len(specs), c15_configs=len(cases), c15_abort_points=n))
    chk.sample(dict(tree='onedir', pattern='*.txt', kill_at='on_validate_directory(d)'))
    chk.assume('threads are not scheduled: the asynchronous-kill clause rests on the havoc model of the contract (any poll may observe a kill) plus GIL atomicity')
