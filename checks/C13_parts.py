"""C13 bounded part: multi-pattern glob = de-duplicated union minus exclusions; NOUNIQUE = concatenation."""
import itertools
import random

from vlib.common import REPO
from vlib.par import pmap
from vlib.harness import trees, globrun

G = globrun.G
PATS = ['*', '*.txt', 'd/*', '**/a', 'a', 'd/**', '**', 'Sub/*.txt', 'Sub/A*', 'sub/*', '{a,b.txt}', 'a|d/a', '.*', '**/*.txt', 'd/e/*', '*/', 'c/**', '[ab]*', 'D/*', 'd/a', 'SUB/*']
EXCL = [(), ('*.txt',), ('d/**',), ('a', '**/e/'), ('.*',), ('*',), ('**/',)]
FLAGSETS = {'G': G.G, 'G|Q': G.G | G.Q, 'G|I': G.G | G.I, 'G|I|Q': G.G | G.I | G.Q, 'G|B|S': G.G | G.B | G.S, 'G|O': G.G | G.O, 'G|SD|D': G.G | G.SD | G.D,
            'G|D': G.G | G.D, 'G|I|C': G.G | G.I | G.C, 'G|B|S|Q': G.G | G.B | G.S | G.Q}


def run(chk, tier, seed):
    rnd = random.Random(seed * 29 + 8)
    lists = [(p,) for p in PATS[:10]] + list(itertools.combinations(PATS[:12], 2))
    for _ in range(60 if tier == 'quick' else 600):
        lists.append(tuple(rnd.choice(PATS) for _ in range(rnd.randint(2, 4))))
    fsets = ['G', 'G|Q', 'G|I', 'G|B|S', 'G|SD|D', 'G|I|C'] if tier == 'quick' else list(FLAGSETS)
    specs = {k: trees.NAMED[k] for k in (('basic', 'case') if tier == 'quick' else ('basic', 'case', 'nested', 'links'))}
    cases = []
    for fs in fsets:
        for pl in lists:
            for ex in (EXCL if tier != 'quick' else [(), rnd.choice(EXCL[1:]), rnd.choice(EXCL[1:])]):
                cases.append((pl, ex, FLAGSETS[fs], False))
                if ex and not any('|' in e or '{' in e for e in ex):
                    cases.append((pl, ex, FLAGSETS[fs], True))
    items = []
    for tname, spec in specs.items():
        for i in range(0, len(cases), 80):
            items.append((tname, spec, cases[i:i + 80]))
    n = 0
    for res in pmap(globrun.multi_pattern, items, chunk=1):
        for r in res:
            if 'error' in r:
                chk.broke(f'C13 harness crashed: {r["tree"]} {r["pattern"]} {r["fl"]}: {r["error"]}')
                continue
            n += 1
            chk.case(key=(r['tree'], r['pattern'], r['exclude'], r['flags'], r['inline']), nontrivial=r['n'] > 0)
            for kind, w in r['bad']:
                chk.violation(dict(obligation='C13.bounded.' + kind, tree=r['tree'], pattern=r['pattern'], exclude=r['exclude'], fl=r['fl'], inline=r['inline'], witness=w),
                              f'glob({r["pattern"]}, exclude={r["exclude"]}{" (inline with NEGATE)" if r["inline"] else ""}, flags={r["fl"]}) on tree {r["tree"]}: {kind}: {w}',
                              replay(r, specs))
    tilde_clause(chk)
    from checks import fixed_clauses
    fixed_clauses.newline_names(chk, 'C13')
    chk.rule = ('bounded stand-in: lists of 1-4 overlapping / identical / case-variant / BRACE- and SPLIT-produced patterns with 0-2 exclusions (exclude= and inline !p) on '
                'trees with case variants; the result is compared with the per-pattern results: set equality with the union minus paths matched by an exclusion (tested with a '
                'trailing separator for directories, DOTGLOB forced); no path twice under the case rule in force; NOUNIQUE = exact concatenation')
    chk.bounds.update(dict(c13_trees=len(specs), c13_lists=len(lists), c13_flagsets=fsets, c13_cases=n))
    chk.sample(dict(tree='case', patterns=['Sub/*.txt', 'Sub/A*'], flags='GLOBSTAR|IGNORECASE'))


def replay(r, specs):
    return (f"import sys, os; sys.path.insert(0, {REPO!r}); sys.path.insert(0, '/verif')\nfrom wcmatch import glob\nfrom vlib.harness import trees\n"
            f"spec = {specs[r['tree']]!r}\nwith trees.Tree(spec) as t:\n    print(glob.glob(list({r['pattern']}), flags={r['flags']} | glob.U, root_dir=t.root, exclude=list({r['exclude']}) or None))\n"
            f"# reported: {r.get('bad')!r}\nsys.exit(1)\n")


def tilde_clause(chk):
    """GLOBTILDE: an exclusion written `!~/...` is still an exclusion after the tilde is expanded (HOME points at the tree); the expectation for the
    exclusion is what the same text returns as an INCLUSION pattern on its own (with DOTGLOB), so nothing about negation handling is shared."""
    import os
    spec = trees.NAMED['basic']
    old_home = os.environ.get('HOME')
    n = 0
    try:
        with trees.Tree(spec) as t:
            os.environ['HOME'] = t.root
            for incs, excs in ((['~/*'], ['~/a']), (['~/d/*', '~/*.txt'], ['~/d/a']), (['~/**'], ['~/d/**', '~/*.txt']), (['~/d/*'], ['~/nonexistent']), (['~/**/a'], ['~/d/*'])):
                for fl in (G.G | G.T | G.N, G.G | G.T | G.N | G.D, G.G | G.T | G.N | G.M):
                    neg = '-' if fl & G.M else '!'
                    res = G.glob(incs + [neg + e for e in excs], flags=fl | G.U)
                    resk = G.glob(incs, exclude=excs, flags=(fl & ~G.N & ~G.M) | G.U)
                    union = {x for p in incs for x in G.glob(p, flags=(fl & ~G.N & ~G.M) | G.U)}
                    gone = {x.rstrip('/') for e in excs for x in G.glob(e, flags=((fl & ~G.N & ~G.M) | G.U | G.D))}
                    want = {x for x in union if x.rstrip('/') not in gone}
                    n += 1
                    chk.case(key=('tilde', str(incs), str(excs), fl), nontrivial=bool(want))
                    for how, got in (('inline', set(res)), ('exclude=', set(resk))):
                        if got != want:
                            rel = lambda xs: sorted(x.replace(t.root, '~') for x in xs)[:5]          # noqa: E731
                            chk.violation(dict(obligation='C13.bounded.GLOBTILDE-exclusion-is-still-an-exclusion', pattern=str(incs), exclude=str(excs), fl=globrun.LC.flagnames(fl), how=how),
                                          f'glob({incs} minus {excs} [{how}], {globrun.LC.flagnames(fl)}) with HOME=<tree basic>: extra={rel(got - want)} missing={rel(want - got)}',
                                          f"import sys, os; sys.path.insert(0, {REPO!r}); sys.path.insert(0, '/verif')\nfrom wcmatch import glob\nfrom vlib.harness import trees\n"
                                          f"with trees.Tree({spec!r}) as t:\n    os.environ['HOME'] = t.root\n    print(glob.glob({incs + [neg + e for e in excs]!r}, flags={fl} | glob.U))\nsys.exit(1)\n")
    finally:
        if old_home is None:
            os.environ.pop('HOME', None)
        else:
            os.environ['HOME'] = old_home
    chk.bounds['c13_tilde_cases'] = n
