"""C02 - path matching respects separators, segments, globstar and MATCHBASE.

P: glob._flag_transform, WcParse.__init__ flag-derived fields, NODIR routing (contracts/), finite lemma on RE_NO_DIR.
L: Lang(glob.translate(p, f)) vs Den_path(p, f) (must/may interval) for every multi-segment pattern of the enumerated
   grammar, all paths whose segments do not begin with `.` unless DOTGLOB.
"""
import random
import time

from vlib import relang as R
from vlib.common import Check
from vlib import langcheck as LC, patsets
from vlib.spec import pat as P, den as D

G = LC.G

FLAGSETS = {
    'G': G.G, 'G|D': G.G | G.D, 'G|E': G.G | G.E, 'E': G.E, 'GL|E': G.GL | G.E, 'X|G|E': G.X | G.G | G.E,
    'G|E|D': G.G | G.E | G.D, 'O|G|E': G.O | G.G | G.E, 'X|E': G.X | G.E, '0': 0, 'X|GL|D|E': G.X | G.GL | G.D | G.E,
}


def nodir_lemmas(chk):
    """Finite: the NODIR exclusion regexes denote exactly the syntactic directory paths (statement C02/C12)."""
    from wcmatch import _wcparse as W
    for name, objs, win in (('RE_NO_DIR', W.RE_NO_DIR, False), ('RE_WIN_NO_DIR', W.RE_WIN_NO_DIR, True),
                            ('_NO_NIX_DIR', W._NO_NIX_DIR, False), ('_NO_WIN_DIR', W._NO_WIN_DIR, True)):
        for idx, obj in enumerate(objs):
            is_bytes = idx == 1
            m = D.Mode(path=True, win=win, is_bytes=is_bytes)
            ob = f'C02.finite.{name}[{"bytes" if is_bytes else "str"}]'
            want = R.Spec(D.dir_syntax(m), m.maxc)
            sig = dict(pattern=name, flags=0, fl='|NODIR|', mode='constant', bytes=is_bytes)
            from vlib import lang
            lang.decide(chk, ob, obj, want, want, R.Spec(D.dom_nonempty(m), m.maxc), sig, is_bytes=is_bytes)


SEP_RUNS = [('a//b', 'a/b'), ('a///b', 'a/b'), ('a////b', 'a/b'), ('*//*', '*/*'), ('**//b', '**/b'), ('a//**//c', 'a/**/c'), ('a//', 'a/'), ('a/b//', 'a/b/'),
            ('?//[ab]///c', '?/[ab]/c'), ('a//@(b|c)', 'a/@(b|c)'), ('a\\///b', 'a/b')]


def separator_run_lemmas(chk):
    """C02: runs of separators in the pattern count as one - the regex of a pattern with a run denotes the language of the pattern with
    single separators, under the Unix and under the Windows rules (decided exactly, all paths)."""
    from wcmatch import _wcparse as W
    agg = dict(proved=0, refuted=0)
    for run, single in SEP_RUNS:
        for fl, nm in ((G.G | G.U, 'unix'), (G.G | G.E | G.D | G.U, 'unix|E|D'), (G.G | G.W, 'win'), (G.G | G.E | G.W | G.C, 'win|E|C')):
            for is_bytes in (False, True):
                p1, p2 = (run.encode(), single.encode()) if is_bytes else (run, single)
                try:
                    a = W.compile_pattern(p1, G._flag_transform(fl))[0][0]
                    b = W.compile_pattern(p2, G._flag_transform(fl))[0][0]
                    r = R.equal(R.Impl(a), R.Impl(b))
                except (R.Unsupported, R.StateLimit) as e:
                    chk.leave_open('C02.lang.separator_runs_count_as_one', str(e))
                    continue
                if r is None:
                    agg['proved'] += 1
                    chk.case(key=('seprun', run, nm, is_bytes))
                else:
                    agg['refuted'] += 1
                    w = R.to_str(r[0], is_bytes)
                    chk.violation(dict(obligation='C02.lang.separator_runs_count_as_one', pattern=run, flags=fl, fl=nm, witness=w, mode='seprun', bytes=is_bytes),
                                  f'C02.lang.separator_runs_count_as_one: {run!r} and {single!r} differ on {w!r} under {nm}',
                                  f"import sys; sys.path.insert(0, {LC.REPO!r})\nfrom wcmatch import glob\nprint(glob.globmatch({w!r}, {p1!r}, flags={fl}), glob.globmatch({w!r}, {p2!r}, flags={fl}))\nsys.exit(1)\n")
    chk.obligation('C02:C02.lang.separator_runs_count_as_one', 'refuted' if agg['refuted'] else 'proved', 'relang', 0.0, detail=f"{agg['proved']} proved, {agg['refuted']} refuted")


def main(tier, seed):
    chk = Check('C02', tier, seed, level='other', technique='contracts + exact regular-language decision per pattern')
    from vlib import glue
    glue.run(chk, 'C02')
    nodir_lemmas(chk)
    separator_run_lemmas(chk)
    pats = patsets.path_patterns(tier)
    fsets = ['G', 'G|D', 'G|E', 'E', 'GL|E', 'X|G|E', 'O|G|E', 'X|E'] if tier == 'quick' else list(FLAGSETS)
    items = []
    for fs in fsets:
        for p in pats:
            items.append(('C02', 'C02.lang.glob', p, FLAGSETS[fs] | G.U, False, 'visible', chk.known, 0))
    g = P.Gen(seed * 104729 + 2, path=True)
    nrand = 500 if tier == 'quick' else 20000
    for i in range(nrand):
        p = g.path_pattern(max_segs=3 if tier == 'quick' else 5, max_tokens=3, depth=1)
        fl = FLAGSETS[random.Random(seed + i).choice(sorted(FLAGSETS))]
        items.append(('C02', 'C02.lang.glob', p, fl | G.U, False, 'visible', chk.known, 0))
    for p in pats[::9]:
        items.append(('C02', 'C02.lang.glob', p, G.G | G.E | G.U, True, 'visible', chk.known, 0))
    counts, secs = LC.run_items(chk, LC.path_item, items)
    chk.rule = ('path patterns of 1-3 (thorough 4) segments from 23 segment forms (literal, *, ?, .a, **, ***, a*, *a, brackets, ?() *() @() !() +(), '
                '., .., escapes), leading / trailing / doubled separators, seeded random deeper ones; x flag sets; one case = one (pattern, flags) '
                'obligation decided for ALL paths; domain: relative paths (any path for absolute patterns) without hidden segments unless DOTGLOB')
    chk.bounds = dict(enumerated_patterns=len(pats), random_patterns=nrand, flagsets=fsets, worker_seconds=round(secs, 1), outcome_counts=counts)
    for it in items[:: max(1, len(items) // 6)][:6]:
        chk.sample(dict(pattern=P.render(it[2]), flags=it[3]))
    chk.assume('relang implements CPython re semantics for the emitted subset (cross-checked on every witness)')
    chk.assume('pattern space bounded; each obligation quantifies over all paths exactly')
    chk.assume('Den_path is an interval: segment patterns that can match empty, absolute paths against relative patterns and `/` inside brackets/groups are outside the must-part (statement silent)')
    return chk.finish(
        explanation=('glue obligations and finite lemmas discharged for all inputs; the compiler postcondition must <= Lang(translate(p,f)) <= may is a '
                     'bounded stand-in (bounded in the pattern, exact over all paths).'),
        trusted_base=['vlib/relang.py', 'vlib/spec/den.py', 'vlib/pyvc.py', 're._parser', 'z3'])
