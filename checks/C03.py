"""C03 - hidden names and the special directories are never matched by wildcards.

P: exclusion routes force DOTMATCH, Glob.__init__ negate_flags / NODOTDIR, _is_hidden, _glob_dir guards (contracts/).
L: the same per-pattern obligations as C01/C02 on the complementary domain (names / paths with a segment starting
   with `.`): for patterns with no written `.` at a segment start this is an exact emptiness check.
"""
import random

from vlib.common import Check
from vlib import langcheck as LC, patsets
from vlib.spec import pat as P

G, F = LC.G, LC.F

FN_FLAGS = {'E': F.E | F.U, '0': F.U, 'E|I': F.E | F.I | F.U}
PATH_FLAGS = {'G|E': G.G | G.E, 'E': G.E, 'X|G|E': G.X | G.G | G.E, 'G|E|D': G.G | G.E | G.D, 'Z|G|E|D': G.Z | G.G | G.E | G.D,
              'Z|G|E': G.Z | G.G | G.E, 'GL|E': G.GL | G.E, 'X|E': G.X | G.E}


def main(tier, seed):
    chk = Check('C03', tier, seed, level='other', technique='contracts + exact regular-language decision per pattern (hidden-name domain)')
    from vlib import glue
    glue.run(chk, 'C03')
    items = []
    npats = patsets.name_patterns(tier)
    for fs, fl in FN_FLAGS.items():
        for p in npats:
            items.append(('C03', 'C03.lang.fnmatch', p, fl, False, 'hidden', chk.known))
    c1, s1 = LC.run_items(chk, LC.fn_item, items)
    fixed_nodotdir(chk)
    fixed_dotglob_inner_dot(chk)
    ppats = patsets.path_patterns(tier)
    pitems = []
    for fs, fl in PATH_FLAGS.items():
        for p in ppats:
            pitems.append(('C03', 'C03.lang.glob', p, fl | G.U, False, 'hidden', chk.known, 0))
        # pathlib match: the implicit multi-level prefix (_EXTMATCHBASE)
    for p in ppats[::2]:
        pitems.append(('C03', 'C03.lang.extmatchbase', p, G.G | G.E | G.U, False, 'hidden', chk.known, LC.W._EXTMATCHBASE))
    g = P.Gen(seed * 15485863 + 3, path=True)
    nrand = 400 if tier == 'quick' else 15000
    for i in range(nrand):
        p = g.path_pattern(max_segs=3, max_tokens=3, depth=1)
        fl = PATH_FLAGS[random.Random(seed + i).choice(sorted(PATH_FLAGS))]
        pitems.append(('C03', 'C03.lang.glob', p, fl | G.U, False, 'hidden', chk.known, 0))
    c2, s2 = LC.run_items(chk, LC.path_item, pitems)
    chk.rule = ('name patterns and path patterns as in C01/C02 x flag sets with/without DOTGLOB, NODOTDIR, GLOBSTAR, MATCHBASE, EXTGLOB and the pathlib '
                'match prefix; one case = one (pattern, flags) obligation decided for ALL names/paths that have a segment starting with `.`')
    chk.bounds = dict(name_patterns=len(npats), path_patterns=len(ppats), random_patterns=nrand, fn_flagsets=list(FN_FLAGS), path_flagsets=list(PATH_FLAGS),
                      worker_seconds=round(s1 + s2, 1), outcome_counts=dict(fnmatch=c1, glob=c2))
    for it in (items[::max(1, len(items) // 3)][:3] + pitems[::max(1, len(pitems) // 3)][:3]):
        chk.sample(dict(pattern=P.render(it[2]), flags=it[3]))
    chk.assume('relang implements CPython re semantics for the emitted subset (cross-checked on every witness)')
    chk.assume('pattern space bounded; each obligation quantifies over all hidden names/paths exactly')
    chk.assume('glob()/WcMatch results on real trees with dot files are covered by the tree harness of C05/C14, not here')
    return chk.finish(
        explanation=('glue obligations discharged for all inputs; per-pattern obligation on the hidden domain: must <= Lang(impl) <= may where must grants a '
                     'leading dot only to a written `.` with nothing empty-able before it and may to any written `.`; bounded in the pattern, exact in the name.'),
        trusted_base=['vlib/relang.py', 'vlib/spec/den.py', 'vlib/pyvc.py', 're._parser', 'z3'])


def fixed_nodotdir(chk):
    """A fixed family that HOLDS on the pinned tree and lies inside the signature of a known finding (group + dot), so it is stated as its own
    obligation: under NODOTDIR (and under DOTGLOB) a dot at the start of an alternative that is followed by a wildcard or a second dot never
    matches the directories `.` / `..`; the literal alternatives `.` and `..` themselves are the known finding and are not part of this family."""
    from vlib.common import REPO
    G = LC.G
    pats = ['@(.*)', '@(a|.*)', '+(.?)', '@(..*)', '?(.*)b', '*(.?|a)', 'd/@(.*)', '@(.*)/a', '@(.[.a])']
    n = 0
    for fl, nm in ((G.E | G.Z, 'EXTGLOB|NODOTDIR'), (G.E | G.Z | G.D, 'EXTGLOB|NODOTDIR|DOTGLOB')):      # (without NODOTDIR a pattern starting with a written dot may match them)
        for p in pats:
            for name in ('.', '..', './', '../'):
                for cand in ((name,) if '/' not in p else (name,)):
                    target = cand if '/' not in p.strip('/') or p.startswith('@') and p.endswith(')') else None
                    full = {'d/@(.*)': 'd/' + name, '@(.*)/a': name.rstrip('/') + '/a'}.get(p, name)
                    n += 1
                    chk.case(key=('nodotdir-group', p, nm, full))
                    if G.globmatch(full, p, flags=fl | G.U):
                        chk.violation(dict(obligation='C03.fixed.dot_followed_by_a_wildcard_inside_a_group_never_matches_the_dot_directories', pattern=p, fl=nm, witness=full),
                                      f'globmatch({full!r}, {p!r}, {nm}) is True: a wildcard construct matched the directory {name!r}',
                                      f"import sys; sys.path.insert(0, {REPO!r})\nfrom wcmatch import glob\ngot = glob.globmatch({full!r}, {p!r}, flags={fl | G.U})\nprint(got)\nsys.exit(1 if got else 0)\n")
    chk.bounds['c03_fixed_nodotdir_cases'] = n


def fixed_dotglob_inner_dot(chk):
    """A second fixed family inside the signature of the same known finding (group + dot under DOTGLOB) that HOLDS on the pinned tree: a dot
    written INSIDE an alternative, behind another token, does not lift the guard - even with DOTGLOB no wildcard construct matches a segment
    that is exactly `.` or `..` (`!(*.txt)`, `@(*.a)`, `+(a.|b)`)."""
    from vlib.common import REPO
    G = LC.G
    pats = ['!(*.txt)', '!(a.b)', '!(*.a|b)', '!(?.x)', 'd/!(*.txt)', '!(*.txt)/a', '@(*.a|b)', '!(a|b.c)', '!(x)!(*.y)']
    n = 0
    for fl, nm in ((G.E | G.D, 'EXTGLOB|DOTGLOB'), (G.E | G.D | G.G, 'EXTGLOB|DOTGLOB|GLOBSTAR')):
        for p in pats:
            for name in ('.', '..', './', '../'):
                full = {'d/!(*.txt)': 'd/' + name, '!(*.txt)/a': name.rstrip('/') + '/a'}.get(p, name)
                n += 1
                chk.case(key=('dotglob-inner-dot', p, nm, full))
                if G.globmatch(full, p, flags=fl | G.U):
                    chk.violation(dict(obligation='C03.fixed.dot_inside_an_alternative_does_not_lift_the_dot_directory_guard', pattern=p, fl=nm, witness=full),
                                  f'globmatch({full!r}, {p!r}, {nm}) is True: a wildcard construct matched the directory {name!r}',
                                  f"import sys; sys.path.insert(0, {REPO!r})\nfrom wcmatch import glob\ngot = glob.globmatch({full!r}, {p!r}, flags={fl | G.U})\nprint(got)\nsys.exit(1 if got else 0)\n")
    # a third fixed family (wave 6): a written leading dot inside a group of an EARLIER segment says nothing about a later segment - `!(b)`, `*`, `@(*)`
    # there still refuse `.` and `..` (the parser's "a dot was written" state must not survive the group it was set in)
    later = [('@(.a|x)/!(b)', 'x/'), ('+(.a|x)/!(b)', 'x/'), ('?(.a)x/!(b)', 'x/'), ('*(.)x/!(b)', 'x/'), ('@(.a|x)/!(b)/c', 'x/'), ('@(.a|x)/@(*)', 'x/'), ('@(.a|x)y/!(b|c)', 'xy/'), ('@(.a)/!(b)', '.a/')]
    for fl, nm in ((G.E | G.D, 'EXTGLOB|DOTGLOB'), (G.E | G.D | G.G, 'EXTGLOB|DOTGLOB|GLOBSTAR')):
        for p, prefix in later:
            for name in ('.', '..'):
                full = prefix + name + ('/c' if p.endswith('/c') else '')
                n += 1
                chk.case(key=('dot-state-across-groups', p, nm, full))
                if G.globmatch(full, p, flags=fl | G.U):
                    chk.violation(dict(obligation='C03.fixed.a_dot_written_in_an_earlier_group_does_not_lift_the_guard_of_a_later_segment', pattern=p, fl=nm, witness=full),
                                  f'globmatch({full!r}, {p!r}, {nm}) is True: a wildcard construct matched the directory {name!r}',
                                  f"import sys; sys.path.insert(0, {REPO!r})\nfrom wcmatch import glob\ngot = glob.globmatch({full!r}, {p!r}, flags={fl | G.U})\nprint(got)\nsys.exit(1 if got else 0)\n")
    # a fourth fixed family (wave 7): an exclusive bracket whose ranges are all reversed matches any character - but, like every wildcard, not a leading dot
    # and never the segments `.` / `..`
    F = LC.F
    for p, name, fl, nm, api in (('[!z-a]*', '.hidden', 0, '0', 'g'), ('[^9-0]*', '.hidden', 0, '0', 'g'), ('[!z-a]hidden', '.hidden', 0, '0', 'f'), ('[!z-a]*', '.hidden', 0, '0', 'f'),
                                 ('@([!z-a]*)', '.hidden', G.E, 'EXTGLOB', 'g'), ('*/[!z-a]*', 'a/.b', 0, '0', 'g'), ('[!z-a]', '.', G.D, 'DOTGLOB', 'g'), ('[!z-a][!z-a]', '..', G.D, 'DOTGLOB', 'g'),
                                 ('a/[!z-a]', 'a/.', G.D, 'DOTGLOB', 'g'), ('[!z-a]b', 'a/.b', G.X, 'MATCHBASE', 'g'), ('[!z-a]', '.', 0, '0', 'g')):
        n += 1
        chk.case(key=('reversed-exclusive-bracket', p, nm, name, api))
        got = G.globmatch(name, p, flags=fl | G.U) if api == 'g' else F.fnmatch(name, p, flags=fl | F.U)
        if got:
            chk.violation(dict(obligation='C03.fixed.an_exclusive_bracket_of_reversed_ranges_is_a_wildcard_like_any_other_(no_leading_dot,_no_dot_directories)', pattern=p, fl=nm, witness=name),
                          f'{"globmatch" if api == "g" else "fnmatch"}({name!r}, {p!r}, {nm}) is True',
                          f"import sys; sys.path.insert(0, {REPO!r})\nfrom wcmatch import glob, fnmatch\ngot = {'glob.globmatch' if api == 'g' else 'fnmatch.fnmatch'}({name!r}, {p!r}, flags={fl} | glob.U)\nprint(got)\nsys.exit(1 if got else 0)\n")
    chk.bounds['c03_fixed_dotglob_inner_dot_cases'] = n
