"""C08 language part: for every pattern of the C01/C02 sets (definable or not) and every flag set the regexes returned by
translate() compile, denote exactly the language of the regex the matcher executes (all names, no domain restriction), and
carry one capturing group per extended group."""
import random

from vlib import langcheck as LC, patsets
from vlib.spec import pat as P

F, G = LC.F, LC.G


def run(chk, tier, seed):
    items = []
    npats = patsets.name_patterns(tier)
    ppats = patsets.path_patterns(tier)
    fn_flags = [F.E, F.E | F.D, F.E | F.I, 0, F.E | F.W, F.E | F.N, F.E | F.N | F.M | F.A] if tier == 'quick' else [F.E, F.E | F.D, F.E | F.I, 0, F.D, F.E | F.W, F.E | F.C | F.I, F.E | F.N, F.E | F.N | F.M, F.E | F.N | F.A, F.E | F.R]
    gl_flags = [G.G | G.E, G.E, G.G | G.E | G.D, G.X | G.G | G.E, G.GL | G.E, G.G | G.E | G.O, G.G | G.E | G.Z, G.G | G.E | G.N | G.A, G.G | G.E | G.W]
    for fl in fn_flags:
        for p in npats[:: (2 if tier == 'quick' else 1)]:
            items.append(('C08', 'C08.lang.translate==compile', p, fl | F.U if not fl & F.W else fl, False, 'fnmatch', chk.known))
    for fl in gl_flags:
        for p in ppats[:: (2 if tier == 'quick' else 1)]:
            items.append(('C08', 'C08.lang.translate==compile', p, fl | G.U if not fl & G.W else fl, False, 'glob', chk.known))
    g = P.Gen(seed * 65537 + 8, path=True)
    for i in range(400 if tier == 'quick' else 20000):
        r = random.Random(seed + i)
        if r.random() < 0.5:
            items.append(('C08', 'C08.lang.translate==compile', g.name_pattern(7, 2), r.choice(fn_flags) | F.U, r.random() < 0.2, 'fnmatch', chk.known))
        else:
            items.append(('C08', 'C08.lang.translate==compile', g.path_pattern(3, 3, 1), r.choice(gl_flags) | G.U, r.random() < 0.2, 'glob', chk.known))
    counts, secs = LC.run_items(chk, LC.translate_item, items)
    chk.rule = ('one case = one (pattern, flags, str|bytes, fnmatch|glob): every regex of translate() compiles, is language-equal (ALL names) to the regex compile_pattern() builds for '
                'the same call, and has as many capturing groups as the pattern has extended groups (nested ones included); patterns from the C01/C02 sets plus seeded random ones')
    chk.bounds.update(dict(c08_items=len(items), c08_outcomes=counts, worker_seconds=round(secs, 1)))
    chk.sample(dict(pattern='!(a|?(b))c', flags='EXTMATCH', groups=2))
    chk.assume('group i opening where the i-th extended group opens follows from regex syntax (groups are numbered by their opening parenthesis) once the count is right; '
               'the text captured by a group is not compared name by name')
