"""C08 language part: for every pattern of the C01/C02 sets (definable or not) and every flag set the regexes returned by
translate() compile, denote exactly the language of the regex the matcher executes (all names, no domain restriction), and
carry one capturing group per extended group."""
import random

from vlib import langcheck as LC, patsets
from vlib.spec import pat as P

F, G = LC.F, LC.G


def run(chk, tier, seed):
    items = []
    npats = patsets.name_patterns(tier)
    ppats = patsets.path_patterns(tier)
    fn_flags = [F.E, F.E | F.D, F.E | F.I, 0, F.E | F.W, F.E | F.N, F.E | F.N | F.M | F.A] if tier == 'quick' else [F.E, F.E | F.D, F.E | F.I, 0, F.D, F.E | F.W, F.E | F.C | F.I, F.E | F.N, F.E | F.N | F.M, F.E | F.N | F.A, F.E | F.R]
    gl_flags = [G.G | G.E, G.E, G.G | G.E | G.D, G.X | G.G | G.E, G.GL | G.E, G.G | G.E | G.O, G.G | G.E | G.Z, G.G | G.E | G.N | G.A, G.G | G.E | G.W, G.G | G.E | G.P]
    for fl in fn_flags:
        for p in npats[:: (2 if tier == 'quick' else 1)]:
            items.append(('C08', 'C08.lang.translate==compile', p, fl | F.U if not fl & F.W else fl, False, 'fnmatch', chk.known))
    for fl in gl_flags:
        for p in ppats[:: (2 if tier == 'quick' else 1)]:
            items.append(('C08', 'C08.lang.translate==compile', p, fl | G.U if not fl & G.W else fl, False, 'glob', chk.known))
    g = P.Gen(seed * 65537 + 8, path=True)
    for i in range(400 if tier == 'quick' else 20000):
        r = random.Random(seed + i)
        if r.random() < 0.5:
            items.append(('C08', 'C08.lang.translate==compile', g.name_pattern(7, 2), r.choice(fn_flags) | F.U, r.random() < 0.2, 'fnmatch', chk.known))
        else:
            items.append(('C08', 'C08.lang.translate==compile', g.path_pattern(3, 3, 1), r.choice(gl_flags) | G.U, r.random() < 0.2, 'glob', chk.known))
    counts, secs = LC.run_items(chk, LC.translate_item, items)
    empty_exclude_clause(chk)
    nodir_twins(chk)
    chk.rule = ('one case = one (pattern, flags, str|bytes, fnmatch|glob): every regex of translate() compiles, is language-equal (ALL names) to the regex compile_pattern() builds for '
                'the same call, and has as many capturing groups as the pattern has extended groups (nested ones included); patterns from the C01/C02 sets plus seeded random ones')
    chk.bounds.update(dict(c08_items=len(items), c08_outcomes=counts, worker_seconds=round(secs, 1)))
    chk.sample(dict(pattern='!(a|?(b))c', flags='EXTMATCH', groups=2))
    chk.assume('group i opening where the i-th extended group opens follows from regex syntax (groups are numbered by their opening parenthesis) once the count is right; '
               'the text captured by a group is not compared name by name')


def empty_exclude_clause(chk):
    """translate and the matchers treat `exclude=` alike also when the list is EMPTY (given but empty still switches inline negation off)"""
    from vlib import relang as R
    from vlib.common import REPO
    W = LC.W
    n = 0
    for api, nm in ((F, 'fnmatch'), (G, 'glob')):
        # lists whose earlier member has a separator and whose later member has none: every pattern of a MATCHBASE call gets its own floating decision
        lists = [['src/*.c', '*.h'], ['!src/*.c', '!*.h', '*'], ['/a', 'b'], ['a/b', 'c', 'd/e', 'f']] if api is G else []
        for p in ['!a', 'a', '-a', '!*.txt', ['!a', 'b'], '*'] + lists:
            for fl in (api.N, api.N | api.M, api.N | api.A, api.N | api.E) + ((api.N | api.X, api.X | api.D) if api is G else ()):
                for ex in ([], '', (), ['b'], None, ['*.bak'], '*', ['.*', '?b'], ['**/*rc'] if api is G else ['[!a]*']):          # (wildcard exclusions: DOTMATCH is forced on both routes)
                    n += 1
                    chk.case(key=('empty-exclude', nm, str(p), fl, str(ex)))
                    try:
                        tp, tn = api.translate(p, flags=fl | api.U, exclude=ex)
                        cp, cn = W.compile_pattern(p, api._flag_transform(fl | api.U), exclude=ex)
                    except Exception as e:
                        chk.violation(dict(obligation='C08.bounded.translate==compile_with_exclude', pattern=str(p), exclude=str(ex)), f'{nm}: translate/compile({p!r}, exclude={ex!r}) raised {type(e).__name__}: {e}', None)
                        continue
                    bad = None
                    if (len(tp), len(tn)) != (len(cp), len(cn)):
                        bad = f'translate returns {len(tp)}+{len(tn)} regexes, the matcher uses {len(cp)}+{len(cn)}'
                    else:
                        for a, b in list(zip(tp, cp)) + list(zip(tn, cn)):
                            r = R.equal(R.Impl(a), R.Impl(b))
                            if r is not None:
                                bad = f'regex {a!r} vs {b.pattern!r} differ on {R.to_str(r[0])!r}'
                                break
                    if bad:
                        chk.violation(dict(obligation='C08.bounded.translate==compile_with_exclude', pattern=str(p), exclude=str(ex), fl=LC.flagnames(fl)),
                                      f'{nm}.translate({p!r}, flags={LC.flagnames(fl)}, exclude={ex!r}): {bad}',
                                      f"import sys; sys.path.insert(0, {REPO!r})\nfrom wcmatch import {nm}, _wcparse\nprint({nm}.translate({p!r}, flags={fl | api.U}, exclude={ex!r}))\n"
                                      f"print(_wcparse.compile_pattern({p!r}, {nm}._flag_transform({fl | api.U}), exclude={ex!r}))\nsys.exit(1)\n")
    chk.bounds.update(dict(c08_exclude_cases=n))


def nodir_twins(chk):
    """finite, exact: the NODIR exclusion regex text that translate() returns denotes the language of the compiled regex the matchers use (4 twins)"""
    from vlib import relang as R
    W = LC.W
    for tname, cname in (('_NO_NIX_DIR', 'RE_NO_DIR'), ('_NO_WIN_DIR', 'RE_WIN_NO_DIR')):
        for idx, kind in ((0, 'str'), (1, 'bytes')):
            ob = f'C08:finite.{tname}[{kind}]_is_the_text_of_{cname}[{kind}]'
            try:
                r = R.equal(R.Impl(getattr(W, tname)[idx]), R.Impl(getattr(W, cname)[idx]))
            except Exception as e:
                chk.leave_open(ob, e)
                continue
            chk.obligation(ob, 'proved' if r is None else 'refuted', 'finite', 0.0, function='_wcparse.' + tname)
            if r is not None:
                w = R.to_str(r[0], idx == 1)
                chk.violation(dict(obligation=ob, witness=w), f'_wcparse.{tname}[{idx}] (what translate returns for NODIR) and _wcparse.{cname}[{idx}] (what the matchers use) differ on {w!r}', None, no_input=True)
