"""C10 bounded part: every string is an acceptable pattern.  Exhaustive strings over focused alphabets (general, group-, bracket-,
escape-focused), seeded random longer ones and token mutations of valid patterns, as str and bytes, through translate / compile+match /
fnmatch / globmatch / the two splitters / glob on an empty directory / WcMatch construction.  Postcondition: only the documented
exceptions, every regex returned by translate compiles, no RecursionError at nesting <= 20."""
import itertools
import os
import random
import re
import tempfile

from vlib.common import REPO
from vlib.par import pmap

GENERAL = ['a', '.', '*', '?', '[', ']', '(', ')', '|', '!', '@', '\\', '/', '-', '#', '+']
GROUP = ['!(', '?(', '*(', '+(', '@(', ')', '|', 'a', '*', '/', '.']
BRACKET = ['[', ']', '!', '^', '-', ':', 'a', '\\', '/', '(', '?', '#', ')', '[:alpha:]', 'z']
ESCAPE = ['\\', 'x', 'u', 'U', 'N', '{', '}', '0', '7', '8', '/', '4', '1', 'a']
ALLOWED = ('PatternLimitException', 'SyntaxError', 'KeyError')


def run_one(p, flags_list, tmp):
    """returns list of (api, flags, exception text) for disallowed outcomes"""
    from wcmatch import fnmatch as F, glob as G, _wcparse as W, wcmatch as WM
    bad = []

    def attempt(api, fl, fn):
        try:
            return fn()
        except Exception as e:
            nm = type(e).__name__
            if nm in ALLOWED:
                return None
            if nm == 'ValueError' and 'relative path pattern' in str(e):
                return None
            bad.append((api, fl, f'{nm}: {str(e)[:120]}'))
            return None
    names = ['a', 'a.b', '.a', 'a/b', 'a(b)', '']
    for fl in flags_list:
        for variant in (p, p.encode('latin-1', 'replace')):
            nm = names if isinstance(variant, str) else [x.encode() for x in names]
            r = attempt('fnmatch.translate', fl, lambda: F.translate(variant, flags=fl & F.FLAG_MASK))
            for rx in (r[0] + r[1]) if r else []:
                try:
                    re.compile(rx)
                except re.error as e:
                    bad.append(('fnmatch.translate', fl, f'regex does not compile: {rx!r}: {e}'))
            r = attempt('glob.translate', fl, lambda: G.translate(variant, flags=fl & G.FLAG_MASK))
            for rx in (r[0] + r[1]) if r else []:
                try:
                    re.compile(rx)
                except re.error as e:
                    bad.append(('glob.translate', fl, f'regex does not compile: {rx!r}: {e}'))
            attempt('fnmatch.filter', fl, lambda: F.filter(nm, variant, flags=fl & F.FLAG_MASK))
            attempt('glob.globfilter', fl, lambda: G.globfilter(nm, variant, flags=fl & G.FLAG_MASK))
            attempt('fnmatch.is_magic', fl, lambda: F.is_magic(variant, flags=fl & F.FLAG_MASK))
            attempt('glob.is_magic', fl, lambda: G.is_magic(variant, flags=fl & G.FLAG_MASK))
            if fl is flags_list[0]:
                attempt('glob.escape', fl, lambda: (G.escape(variant), G.escape(variant, unix=False), G.escape(variant, unix=True), F.escape(variant)))      # escape takes no flags
            attempt('WcSplit.split', fl, lambda: list(W.WcSplit(variant, fl).split()))
            attempt('_GlobSplit.split', fl, lambda: G._GlobSplit(variant, G._flag_transform(fl & G.FLAG_MASK)).split())
        attempt('glob.glob', fl, lambda: G.glob(p, flags=fl & G.FLAG_MASK, root_dir=tmp))
        attempt('WcMatch', fl, lambda: WM.WcMatch(tmp, p, p, flags=(fl & WM.FLAG_MASK) | WM.RV).match())
    return bad


class _Slow(BaseException):
    pass


def _alarm(signum, frame):
    raise _Slow()


def chunk(args):
    import signal
    strings, flags_list = args
    tmp = tempfile.mkdtemp(prefix='c10-')
    out, slow = [], []
    old = signal.signal(signal.SIGALRM, _alarm)
    try:
        for p in strings:
            signal.alarm(2)
            try:
                for b in run_one(p, flags_list, tmp):
                    out.append((p,) + b)
            except _Slow:
                slow.append(p)          # exponential backtracking of `re` on nested repeats: not a crash, reported as open
            finally:
                signal.alarm(0)
            if len(out) > 200:
                break
    finally:
        signal.signal(signal.SIGALRM, old)
        os.rmdir(tmp)
    return len(strings), out, slow


def run(chk, tier, seed):
    from wcmatch import _wcparse as W
    rnd = random.Random(seed * 53 + 11)
    strings = []
    n_gen = 3 if tier == 'quick' else 4
    for n in range(1, n_gen + 1):
        strings += [''.join(t) for t in itertools.product(GENERAL, repeat=n)]
    cap = 3000 if tier == 'quick' else 20000
    for alpha, k in ((GROUP, 5 if tier == 'quick' else 6), (BRACKET, 5 if tier == 'quick' else 6)):
        for n in range(1, k + 1):
            prods = itertools.product(alpha, repeat=n)
            if len(alpha) ** n > cap:
                prods = (tuple(rnd.choice(alpha) for _ in range(n)) for _ in range(cap))
            strings += [''.join(t) for t in prods]
    esc = []
    for n in range(1, (5 if tier == 'quick' else 6) + 1):
        esc += [''.join(t) for t in itertools.product(ESCAPE, repeat=n)] if len(ESCAPE) ** n <= cap else [''.join(rnd.choice(ESCAPE) for _ in range(n)) for _ in range(cap)]
    esc += ['\\U00110000', '\\UFFFFFFFF', '\\U0010FFFF', '\\N{DIGIT ONE}', '\\N{NOPE}', '\\N{', '\\x4', '\\u123', '\\777', '\\400', '[\\N{DIGIT ONE}-\\x39]', '\\U0000004']
    valid = ['*.txt', 'a?c', '[a-c]*', '!(a|b)c', '+(a|!(b))', '**/*.py', '@(a|b)/[!x]*', '{a,b}/c', 'a|b|!c', '\\*x', '[[:alpha:]-z]', '*(a|*(b|c))d', '~user/*.c', 'a/**/b/', '[]a]', '[!]]', '[a\\]b]']
    for v in valid:
        for _ in range(20 if tier == 'quick' else 200):
            toks = re.findall(r'\\.|\[:\w+:\]|[?*+@!]\(|.', v)
            op = rnd.choice('dsx')
            i = rnd.randrange(len(toks))
            if op == 'd':
                del toks[i]
            elif op == 's' and len(toks) > 1:
                j = rnd.randrange(len(toks))
                toks[i], toks[j] = toks[j], toks[i]
            else:
                toks.insert(i, toks[i])
            strings.append(''.join(toks))
    for _ in range(300 if tier == 'quick' else 20000):
        strings.append(''.join(rnd.choice(GENERAL + ['{', '}', ',', '~', '\n', '[:digit:]']) for _ in range(rnd.randint(5, 40))))
    for d in (5, 10, 20):
        for k in '@?*+!':
            strings += [(k + '(') * d + 'a' + ')' * d, (k + '(') * d + 'a', 'a' + ')' * d, ('[' * d) + 'a' + (']' * d), (k + '(a|') * d + 'b' + ')' * d]
    # small-alphabet exhaustive families aimed at cooperating constructs (nested groups after a negation; comment marker in brackets)
    for toks, k in ((['!(', '?(', ')', 'a', '|'], 6), (['[', ']', '(?#)', '!', 'a', '-'], 5), (['*(', '+(', '@(', ')', '*', '/'], 5 if tier == 'quick' else 6)):
        for n in range(1, k + 1):
            strings += [''.join(t) for t in itertools.product(toks, repeat=n)]
    # brackets whose ranges are all reversed / out of reach (an exclusive one then means "anything"), alone and inside other constructs
    for rng in ('z-a', 'b-a', '9-0', 'z-a9-0', '\\\\-a', 'b-\\!'):
        for neg in ('!', '^', ''):
            b = '[' + neg + rng + ']'
            strings += [b, 'f' + b + 'le', b + b, '*(a|' + b + ')', '!(' + b + ')', b + '/' + b, '**/' + b, b + '*', '[' + neg + rng + 'a]', '[' + neg + 'a' + rng + ']']
    strings = list(dict.fromkeys(strings))
    base = [W.EXTMATCH | W.FORCEUNIX, W.EXTMATCH | W.GLOBSTAR | W.BRACE | W.SPLIT | W.NEGATE | W.FORCEUNIX, W.EXTMATCH | W.FORCEWIN | W.GLOBSTAR | W.DOTMATCH,
            W.NEGATE | W.MINUSNEGATE | W.NEGATEALL | W.EXTMATCH | W.MATCHBASE | W.NODOTDIR | W.GLOBSTARLONG | W.FORCEUNIX, W.FORCEUNIX | W.IGNORECASE | W.GLOBTILDE | W.NODIR]
    if tier == 'quick':
        base = base[:4]
    jobs = [(strings[i:i + 400], base) for i in range(0, len(strings), 400)]
    jobs += [(esc[i:i + 400], [f | W.RAWCHARS for f in base[:3]]) for i in range(0, len(esc), 400)]
    # Windows drive / UNC shapes under FORCEWIN with and without CASE
    unc = [''.join(t) for n in range(1, 5) for t in itertools.product(['/', '\\', '+', '(', '[', '?', 'c', ':', 'a', '.'], repeat=n)]
    unc += ['//?/c:/x', '//?/UNC/h/s/x', '//?/GLOBAL/c:/x', '//+/a/b', '//h(/s)/x', 'c:/[a', '//./c:/*', '\\\\h+\\s\\*']
    wf = [W.FORCEWIN | W.CASE | W.EXTMATCH, W.FORCEWIN | W.EXTMATCH | W.GLOBSTAR]
    jobs += [(unc[i:i + 400], wf) for i in range(0, len(unc), 400)]
    # user-directory expansion (GLOBTILDE): unknown and impossible user names are not errors
    # pattern sets that consist of exclusions only, with and without NODIR / NEGATEALL (no inclusion pattern to read anything from)
    excl = ['!a', '!*/z|!q', '-a', '!a|!b', '!', '!!a', '!(a)', '!*', '!**/', '-*/', '!a/']
    ef = [W.NEGATE | W.NODIR | W.FORCEUNIX, W.NEGATE | W.NODIR | W.SPLIT | W.EXTMATCH | W.FORCEUNIX, W.NEGATE | W.MINUSNEGATE | W.NODIR | W.FORCEWIN, W.NEGATE | W.NEGATEALL | W.NODIR | W.SPLIT | W.FORCEUNIX,
          W.NEGATE | W.NODIR | W.REALPATH | W.FORCEUNIX]
    jobs += [(excl, ef)]
    tilde = ['~', '~/x*', '~nosuchuser/x', '~\x00', '~\x00/x', '~root/\x00', '~a b', '~[', '~(', '~|~', '!~\x00', '~\\', '~/\x00']
    jobs += [(tilde, [W.GLOBTILDE | W.FORCEUNIX, W.GLOBTILDE | W.FORCEUNIX | W.REALPATH | W.NEGATE | W.SPLIT, W.GLOBTILDE | W.EXTMATCH])]
    total = 0
    nb = 0
    slow_all = []
    for n, bad, slow in pmap(chunk, jobs, chunk=1):
        total += n
        slow_all += slow
        for p, api, fl, what in bad:
            nb += 1
            chk.violation(dict(obligation='C10.bounded.only_documented_errors_and_compilable_regexes', pattern=p, api=api, fl=f'{fl:#x}', witness=what),
                          f'{api}({p!r}, flags={fl:#x}): {what}',
                          f"import sys, re; sys.path.insert(0, {REPO!r})\nfrom wcmatch import fnmatch, glob\np = {p!r}\nfor r in sum(glob.translate(p, flags={fl} & glob.FLAG_MASK), []) + sum(fnmatch.translate(p, flags={fl} & fnmatch.FLAG_MASK), []):\n"
                          f"    re.compile(r)\nprint(fnmatch.filter(['a', 'a.b'], p, flags={fl} & fnmatch.FLAG_MASK), glob.globfilter(['a/b'], p, flags={fl} & glob.FLAG_MASK))\n")
    for p in slow_all[:40]:
        chk.leave_open('C10.bounded.slow_pattern', f'{p!r}: more than 2 s for the API battery (regex backtracking on nested repeats; no exception)')
    chk.case(key='c10', n=total * len(base) * 2)
    for i in range(min(total, 5000)):
        chk.nontrivial.add(('c10', i))
    # malformed constructs degrade to their literal meaning: a pattern whose group opener is never closed means the same with and without EXTMATCH
    from wcmatch import fnmatch as _F, glob as _G
    unterminated = ['?(abc', '*(abc', '@(a', '+(a|b', '!(a', '?(a|b', '*(', 'x?(ab', '?(a[b', 'a/*(b', '*(a/b']
    cand = [''.join(t) for n in range(1, 5) for t in itertools.product('a(b|.', repeat=n)] + ['.(abc', 'x(abc', '.(a|b', 'a/.(b', 'a/x(b', 'x(ab', '.(a[b']
    nd = 0
    for p in unterminated:
        for api, nm, fls in ((_F, 'fnmatch', (0, _F.D)), (_G, 'glob', (0, _G.D, _G.G))):
            for base_fl in fls:
                nd += 1
                a = api.filter(cand, p, flags=base_fl | api.E | api.U) if api is _F else api.globfilter(cand, p, flags=base_fl | api.E | api.U)
                b = api.filter(cand, p, flags=base_fl | api.U) if api is _F else api.globfilter(cand, p, flags=base_fl | api.U)
                if a != b:
                    diff = sorted(set(a) ^ set(b))[:4]
                    chk.violation(dict(obligation='C10.bounded.unterminated_group_means_the_same_with_and_without_EXTMATCH', pattern=p, api=nm, witness=diff[0]),
                                  f'{nm}: the unterminated pattern {p!r} (flags {base_fl}) differs with / without EXTMATCH on {diff}',
                                  f"import sys; sys.path.insert(0, {REPO!r})\nfrom wcmatch import {nm} as m\nf = m.filter if hasattr(m, 'filter') else m.globfilter\nn = {diff!r}\n"
                                  f"a, b = f(n, {p!r}, flags={base_fl} | m.E | m.U), f(n, {p!r}, flags={base_fl} | m.U)\nprint(a, b)\nsys.exit(0 if a == b else 1)\n")
    chk.case(key='degrade', n=nd)
    chk.rule = (f'exhaustive strings over 4 focused alphabets (general 16 symbols to length {n_gen}; group tokens; bracket tokens; RAWCHARS escapes), token-level mutations of 17 valid patterns, '
                'seeded random strings of length 5-40, nesting depth 5/10/20; each string as str and bytes x 5 flag sets through fnmatch/glob translate, filter, both splitters, glob on an empty '
                'directory and WcMatch; allowed: PatternLimitException, SyntaxError, KeyError, ValueError("relative path pattern"); every translate regex must compile')
    chk.bounds.update(dict(c10_strings=total, c10_flagsets=len(base), c10_failures=nb))
    chk.sample(dict(pattern='!()?(!())', flags='EXTMATCH', apis='translate, filter, split, glob, WcMatch'))
