"""C17 - case and platform flags select a consistent matching mode.

P: bit-vector obligations on is_case_sensitive / get_case / is_unix_style / both _flag_transforms / pathlib
   _translate_flags and the statement-level lemmas over those contracts (contracts/flags.py) - complete for all flag words.
L: closure obligations per pattern (exact): insensitive mode is closed under ASCII case change of the name and equals
   the language of the case-swapped pattern; sensitive mode = exact spelling (Den); FORCEWIN: `/` and `\\` in the name
   interchangeable and Lang_win(p) == slashes^-1(Lang_unix(p, IGNORECASE)).
"""
from vlib.common import Check


def main(tier, seed):
    chk = Check('C17', tier, seed, level='other', technique='bit-vector contracts discharged by z3 + exact language closure checks per pattern')
    from vlib import glue
    glue.run(chk, 'C17')
    from checks import c17lang
    c17lang.run(chk, tier, seed)
    from checks import fixed_clauses
    fixed_clauses.case_of_literal_text(chk)
    fixed_clauses.windows_spelling_pairs(chk)
    fixed_clauses.windows_bytes_twins(chk)
    return chk.finish(
        explanation=('flag-algebra contracts and the statement-level lemmas are proved for all 2^64 flag words and both platforms; the language-level '
                     'closure clauses are exact per pattern and bounded in the pattern'),
        trusted_base=['vlib/pyvc.py', 'vlib/relang.py', 'z3'])
