"""C06 bounded part: directory listings are counted by wrapping os.scandir; termination on cyclic trees."""
import random

from vlib.common import REPO
from vlib.par import pmap
from vlib.harness import trees, globrun

G = globrun.G
PATS = ['**', '**/', '**/*', '**/x', 'd/**', '**/s/**', '**/s/**/y', 'ld/**', 'ld/*', 'd/up/*', '**/up/**', '***', '***/x', 'd/***', 'a/**', 'a/lr/*', '**/t', 'a/**/t', '**/r/**/t',
        'lh/**', '**/z', '.hd/**', '**/.*', 'x', 't', '**/lf2', '**/lt', 'a/r/up/**', '**/a', '**/d/**/e/**', '***/a/**/t', '***/d/**/y', '***/**/t', '**/d/***', '**/r/***', '**/s/***', '**/sib/***', '**/d/***/f']
FLAGSETS = {'G': G.G, 'G|D': G.G | G.D, 'X|G': G.X | G.G, 'GL': G.GL, 'G|L': G.G | G.L, 'GL|L': G.GL | G.L, 'X|GL|L': G.X | G.GL | G.L, 'X|GL': G.X | G.GL, 'G|SD': G.G | G.SD}
CYCLES = {'selfloop': {'a': 'd', 'a/b': 'd', 'a/b/up': ('l', '../..'), 'a/b/f': 'f', 'a/self': ('l', '.'), 'f': 'f'},
          'mutual': {'p': 'd', 'q': 'd', 'p/toq': ('l', '../q'), 'q/top': ('l', '../p'), 'p/f': 'f', 'q/g': 'f', '.h': 'd', '.h/toroot': ('l', '..')}}


def run(chk, tier, seed):
    specs = {'links': trees.LINKS, 'deep2': trees.DEEP2, 'acyclic': trees.ACYCLIC, 'relink': trees.RELINK, 'twin': trees.TWIN}
    specs.update(CYCLES)
    rnd = random.Random(seed * 7 + 3)
    for i in range(2 if tier == 'quick' else 30):
        specs[f'random{i}'] = trees.random_spec(rnd, 8)
    fsets = list(FLAGSETS)
    items = []
    for tname, spec in specs.items():
        cases = [(p, FLAGSETS[fs]) for fs in fsets for p in PATS]
        for i in range(0, len(cases), 40):
            items.append((tname, spec, cases[i:i + 40]))
    n = 0
    for res in pmap(globrun.symlink_discipline, items, chunk=1):
        for r in res:
            if 'error' in r:
                chk.broke(f'C06 harness crashed: {r["tree"]} {r["pattern"]!r} {r["fl"]}: {r["error"]}')
                continue
            n += 1
            chk.case(key=(r['tree'], r['pattern'], r['flags']), nontrivial=r['n'] > 0)
            for kind, w in r['bad']:
                chk.violation(dict(obligation='C06.bounded.' + kind, tree=r['tree'], pattern=r['pattern'], fl=r['fl'], witness=w),
                              f'{r["pattern"]!r} flags={r["fl"]} on tree {r["tree"]}: {kind}: {w}',
                              f"import sys; sys.path.insert(0, {REPO!r}); sys.path.insert(0, '/verif')\nfrom wcmatch import glob\nfrom vlib.harness import trees\n"
                              f"with trees.Tree({specs[r['tree']]!r}) as t:\n    print(glob.glob({r['pattern']!r}, flags={r['flags']} | glob.U, root_dir=t.root)[:20])\nsys.exit(1)\n")
    # globmatch(REALPATH) applies the same symlink rule to the path it is given (compared with glob on the link trees)
    from vlib.spec import pat as P
    star_pats = [p for p in globrun.small_patterns() if '**' in P.render(p)]
    from vlib import patsets as _ps
    _L, _gs, _gsl = _ps.L, (('gs',),), (('gsl',),)
    # a plain `**` before a `***` in one pattern: what the later segment may do (go through links) must not rub off on the earlier one
    star_pats += [_ps.mkpath([_gs, (_L(c),), _gsl]) for c in 'drs'] + [_ps.mkpath([_gs, (_L('d'),), _gsl, (_L('f'),)])]
    items2 = [(tn, specs[tn], [(p, f, None) for f in (G.G, G.G | G.D, G.GL | G.E, G.G | G.L, G.GL | G.X) for p in star_pats]) for tn in ('links', 'deep2', 'acyclic', 'relink', 'twin')]
    for res in pmap(globrun.globmatch_vs_glob, items2, chunk=1):
        for r in res:
            if r['kind'] == 'error':
                chk.broke(f'C06 globmatch harness crashed: {r["error"]}')
            elif r['kind'] == 'globfilter-differs-from-globmatch':
                chk.violation(dict(obligation='C06.bounded.globfilter(REALPATH)_applies_the_symlink_rule_like_globmatch', tree=r['tree'], pattern=r['pattern'], fl=r['fl'], witness=r['witness']),
                              f'tree {r["tree"]} pattern {r["pattern"]!r} flags {r["fl"]}|REALPATH: globfilter and globmatch disagree on {r["witness"]!r}',
                              f"import sys; sys.path.insert(0, {REPO!r}); sys.path.insert(0, '/verif')\nfrom wcmatch import glob\nfrom vlib.harness import trees\n"
                              f"with trees.Tree({specs[r['tree']]!r}) as t:\n    c = {r['witness']!r}\n    a = glob.globmatch(c, {r['pattern']!r}, flags={r['flags']} | glob.U | glob.P, root_dir=t.root)\n"
                              f"    b = glob.globfilter([c], {r['pattern']!r}, flags={r['flags']} | glob.U | glob.P, root_dir=t.root)\n    print(a, b)\n    sys.exit(0 if a == bool(b) else 1)\n")
            elif r['kind'] == 'compare':
                n += 1
                chk.case(key=('gm', r['tree'], r['pattern'], r['flags']), nontrivial=r['n'] > 0)
                for kind in ('only_glob', 'only_match'):
                    if r[kind]:
                        chk.violation(dict(obligation='C06.bounded.globmatch(REALPATH)_applies_the_same_symlink_rule_as_glob', tree=r['tree'], pattern=r['pattern'], fl=r['fl'], kind=kind,
                                           witness=r[kind][0], link_is_written=str(trees.link_is_written(specs[r['tree']], r[kind][0], r['pattern']))),
                                      f'tree {r["tree"]} pattern {r["pattern"]!r} flags {r["fl"]}: ' + (f'glob returns {r[kind][:4]}, globmatch(REALPATH) rejects' if kind == 'only_glob'
                                                                                                   else f'globmatch(REALPATH) accepts {r[kind][:4]}, glob does not return them'),
                                      f"import sys; sys.path.insert(0, {REPO!r}); sys.path.insert(0, '/verif')\nfrom wcmatch import glob\nfrom vlib.harness import trees\n"
                                      f"with trees.Tree({specs[r['tree']]!r}) as t:\n    print([(c, glob.globmatch(c, {r['pattern']!r}, flags={r['flags']} | glob.U | glob.P, root_dir=t.root)) for c in {r[kind][:4]!r}])\n"
                                      f"    print(glob.glob({r['pattern']!r}, flags={r['flags']} | glob.U, root_dir=t.root))\nsys.exit(1)\n")
    chk.rule = ('bounded stand-in: trees with symlinks to ancestors, siblings, files, hidden directories and nowhere (2 hand-made + 2 cyclic + seeded random); patterns with **/*** in '
                'any position x flag sets; os.scandir is wrapped: without FOLLOW/*** no directory may be listed through a symlink that the pattern does not write literally, the number '
                'of listings is bounded by the number of real directories, every case finishes within the alarm; WcMatch without SYMLINKS terminates and never walks through a link')
    chk.bounds.update(dict(c06_trees=len(specs), c06_patterns=len(PATS), c06_flagsets=fsets, c06_cases=n, alarm_seconds=globrun.CASE_SECONDS))
    chk.sample(dict(tree='selfloop', pattern='**/f', flags='GLOBSTAR'))
    chk.assume('termination is shown relative to a finite real directory tree (ranking: height of the non-symlink tree); FOLLOW/*** on cyclic trees are exempt by the statement')
