"""C17 language part: closure obligations, exact per pattern (relang product search with an inverse homomorphism)."""
import random

from vlib import langcheck as LC, lang, patsets, relang as R
from vlib.common import REPO
from vlib.par import pmap
from vlib.spec import pat as P

F, G, W = LC.F, LC.G, LC.W
L = patsets.L


def lower(c):
    return c + 32 if 65 <= c <= 90 else c


def slash(c):
    return 47 if c == 92 else c


def swap_tokens(tokens):
    out = []
    for t in tokens:
        if t[0] in ('lit', 'esc'):
            out.append((t[0], t[1].swapcase()))
        elif t[0] == 'br':
            items = []
            for it in t[2]:
                if it[0] == 'ch':
                    items.append(('ch', it[1].swapcase()))
                elif it[0] == 'rng' and it[1].isalpha() and it[2].isalpha() and it[1].islower() == it[2].islower():
                    items.append(('rng', it[1].swapcase(), it[2].swapcase()))
                else:
                    items.append(it)
            out.append(('br', t[1], tuple(items)))
        elif t[0] == 'ext':
            out.append(('ext', t[1], tuple(swap_tokens(a) for a in t[2])))
        else:
            out.append(t)
    return tuple(out)


def has_backslash(tokens):
    for t in tokens:
        if t[0] == 'esc':
            return True
        if t[0] == 'ext' and any(has_backslash(a) for a in t[2]):
            return True
    return False


def bracket_cover(tokens):
    """how a bracket expression of the pattern relates to the separators: 'literal-slash' (an unescaped / written inside), 'range' (a range or
    POSIX class that happens to contain / or \\ without writing them), 'none'"""
    out = 'none'
    for t in tokens:
        if t[0] == 'br':
            for it in t[2]:
                if it[0] == 'ch' and it[1] == '/':
                    return 'literal-slash'
                if it[0] == 'rng' and (ord(it[1]) <= 47 <= ord(it[2]) or ord(it[1]) <= 92 <= ord(it[2])):
                    out = 'range'
                if it[0] == 'posix' and it[1] in ('punct', 'graph', 'print'):
                    out = 'range'
            if t[1] and out == 'none':
                out = 'range'          # a negated bracket contains both separators unless it excludes them
        elif t[0] == 'ext':
            for a in t[2]:
                c = bracket_cover(a)
                if c == 'literal-slash':
                    return c
                if c != 'none':
                    out = c
    return out


def item(args):
    els, kind, is_bytes = args[:3]
    cover = args[3] if len(args) > 3 else (bracket_cover(els) if not isinstance(els, str) else 'none')
    api = F if kind == 'fnmatch' else G
    raw = isinstance(els, str)          # raw pattern text: only the obligations that do not need the token structure
    txt = els if raw else P.render(els)
    pt = txt.encode('latin-1') if is_bytes else txt
    base = (G.G | G.E) if kind == 'glob' else F.E
    out = []

    def rx(p, fl):
        r = api.translate(p, flags=fl)
        if len(r[0]) != 1 or r[1]:
            raise ValueError('not a single regex')
        return R.Impl(r[0][0])

    def cmp(name, a, b, replay_flags, note):
        r = R.product_search([a, b], lambda t: t[0] != t[1])
        if r is None:
            out.append(('proved', name, None))
        else:
            w = R.to_str(r[0], is_bytes)
            out.append(('refuted', name, dict(pattern=txt, mode=kind, bytes=is_bytes, witness=w, note=note, flags=replay_flags, bracket=cover)))
    try:
        ins = rx(pt, base | W.IGNORECASE | W.FORCEUNIX)
        cmp('C17.lang.insensitive_mode_closed_under_ASCII_case_of_the_name', ins, R.Mapped(ins, lower, range(65, 91)), base | W.IGNORECASE | W.FORCEUNIX, 'name vs lower(name)')
        if not raw:
            sw = P.render(swap_tokens(els))
            spt = sw.encode('latin-1') if is_bytes else sw
            cmp('C17.lang.insensitive_mode_unchanged_by_case_of_literal_pattern_text', ins, rx(spt, base | W.IGNORECASE | W.FORCEUNIX), base | W.IGNORECASE | W.FORCEUNIX, f'pattern vs {sw!r}')
        cmp('C17.lang.CASE_wins_over_IGNORECASE', rx(pt, base | W.IGNORECASE | W.CASE | W.FORCEUNIX), rx(pt, base | W.CASE | W.FORCEUNIX), base | W.IGNORECASE | W.CASE | W.FORCEUNIX, 'C|I vs C')
        cmp('C17.lang.FORCEWIN_plus_FORCEUNIX_cancel', rx(pt, base | W.FORCEWIN | W.FORCEUNIX), rx(pt, base), base | W.FORCEWIN | W.FORCEUNIX, 'W|U vs neither')
        win = rx(pt, base | W.FORCEWIN)
        cmp('C17.lang.FORCEWIN_slash_and_backslash_in_the_name_interchangeable', win, R.Mapped(win, slash, [92]), base | W.FORCEWIN, 'name vs name with \\\\ -> /')
        if raw:
            return out
        if not has_backslash(els):
            cmp('C17.lang.FORCEWIN_equals_unix_IGNORECASE_on_the_slash-normalised_name', win, R.Mapped(ins, slash, [92]), base | W.FORCEWIN, 'win(name) vs unix|I(name with \\\\ -> /)')
        winc = rx(pt, base | W.FORCEWIN | W.CASE)
        cmp('C17.lang.FORCEWIN_with_CASE_is_case_sensitive_(equals_unix_CASE_on_the_slash-normalised_name)', winc,
            R.Mapped(rx(pt, base | W.FORCEUNIX | W.CASE), slash, [92]), base | W.FORCEWIN | W.CASE, 'win|C vs unix|C') if not has_backslash(els) else None
    except (ValueError, R.Unsupported, R.StateLimit) as e:
        out.append(('open', 'C17.lang', str(e)))
    except Exception:
        import traceback
        out.append(('broken', 'C17.lang', traceback.format_exc()[-800:]))
    return out


def drive_item(args):
    """drive / UNC shapes and escaped backslashes under FORCEWIN (glob mode)"""
    s, is_bytes = args
    out = []
    from checks.C09_parts import literal_lang
    try:
        for fl, nm in ((G.W | G.G, 'FORCEWIN'), (G.W | G.G | G.C, 'FORCEWIN|CASE')):
            m = LC.mode_from_flags(fl, True, is_bytes)
            pt = s.encode('latin-1') if is_bytes else s
            r = G.translate(pt, flags=fl)
            impl = R.Impl(r[0][0])
            # the drive / UNC prefix is literal and case-insensitive even under CASE
            pre_end = s.rindex('/') + 1
            mi = LC.mode_from_flags(G.W | G.G, True, is_bytes)
            must = R.s_cat(literal_lang_prefix(s[:pre_end], mi, 'must'), literal_lang_prefix(s[pre_end:], m, 'must'), R.s_star(m.SEP))
            may = R.s_cat(literal_lang_prefix(s[:pre_end], mi, 'may'), literal_lang_prefix(s[pre_end:], m, 'may'), R.s_star(m.SEP))
            w = R.between(impl, R.Spec(must, m.maxc), R.Spec(may, m.maxc))
            name = 'C17.lang.drive_and_UNC_prefixes_match_only_literally_and_case-insensitively'
            if w is None:
                out.append(('proved', name, None))
            else:
                out.append(('refuted', name, dict(pattern=s, mode='glob', bytes=is_bytes, witness=R.to_str(w[0], is_bytes), note=f'{nm}: impl={w[1]} must={w[2]} may={w[3]}', flags=fl)))
    except (ValueError, IndexError, R.Unsupported, R.StateLimit) as e:
        out.append(('open', 'C17.lang.drive', f'{s!r}: {e}'))
    except Exception:
        import traceback
        out.append(('broken', 'C17.lang.drive', f'{s!r}: ' + traceback.format_exc()[-800:]))
    return out


def literal_lang_prefix(s, m, which):
    seps = '/\\'
    node = R.S1
    i, n = 0, len(s)
    while i < n:
        if s[i] in seps:
            j = i
            while j < n and s[j] in seps:
                j += 1
            node = R.s_cat(node, R.s_plus(m.SEP) if (which == 'may' and i > 0) else R.s_cat(*([m.SEP] * (j - i))))
            i = j
        else:
            node = R.s_cat(node, R.s_cls(m.fold([(ord(s[i]), ord(s[i]))])))
            i += 1
    return node


def run(chk, tier, seed):
    A = P.atoms('aB.', brackets=False) + [('br', False, (('ch', 'a'), ('ch', 'B'))), ('br', True, (('ch', 'A'),)), ('br', False, (('rng', 'a', 'c'),)), ('br', False, (('posix', 'upper'),)),
                                         ('br', False, (('rng', 'A', 'C'), ('ch', 'z')))]
    names = list(P.enum_names(A, 2)) + [(('ext', k, ((L('a'),), (L('B'), ('star',)))),) for k in '?*+@'] + [(('ext', '!', ((L('a'), L('B')),)),), (L('A'), ('ext', '+', ((('q',),),)), L('b'))]
    mk = patsets.mkpath
    paths = [mk([(L('a'),), (L('B'),)]), mk([(('star',),), (L('B'), ('star',))]), mk([(('gs',),), (L('A'),)]), mk([(L('a'),), (('gs',),)]), mk([(L('A'), L('b')), (('q',), L('c'))]),
             mk([(L('a'), ('q',), L('b'))]), mk([(L('a'), ('br', True, (('ch', 'x'),)), L('b'))]), mk([(L('a'), ('br', False, (('rng', 'a', 'z'),)), L('b'))]), mk([(L('a'),), (L('B'),)], trail=True),
             mk([(('ext', '@', ((L('a'),), (L('B'),))),), (('star',),)]), mk([(L('a'), ('esc', '\\'), L('b'))]), mk([(('star',), ('q',), L('A'))]), mk([(L('a'),), (L('B'),)], lead=True),
             # runs of separators in the pattern count as one under the Windows rules too (plain, tripled, after a globstar, trailing)
             mk([(L('a'),), (L('B'),)], dbl=True), mk([(('gs',),), (L('b'),)], dbl=True), mk([(L('a'),), (('star',),), (L('c'),)], dbl=True),
             (L('a'), ('sep',), ('sep',), ('sep',), L('b')), (L('a'), ('sep',), ('sep',), ('sep',), ('sep',), L('B')), (L('a'), ('sep',), ('sep',)), (('star',), ('sep',), ('sep',), ('star',))]
    items = [(p, 'fnmatch', False) for p in names] + [(p, 'glob', False) for p in paths] + [(p, 'fnmatch', True) for p in names[::5]] + [(p, 'glob', True) for p in paths[::3]]
    # raw texts: escaped backslashes inside bracket expressions (a separator under the Windows rules), mixed with case
    rawtexts = ['a[\\\\]b', 'a[xY\\\\]b', 'a[!\\\\]b', '[\\\\a]*', 'a[\\\\][\\\\]b', '?(a[\\\\])B', 'a\\\\b', 'a[/]b', 'a[!/]b',
                '@(a/b)', '+(a/|b)c', '!(a/b)', 'x?(/)y', '*(a|/b)']          # a separator written inside an extended group
    cov = lambda t: 'literal-slash' if '[/' in t or '[!/' in t else 'none'      # noqa: E731
    items += [(t, 'fnmatch', False, cov(t)) for t in rawtexts] + [(t, 'fnmatch', True, cov(t)) for t in rawtexts[:3]] + [(t, 'glob', False, cov(t)) for t in rawtexts]
    if tier != 'quick':
        g = P.Gen(seed + 170, alphabet='aAbB.c', path=True)
        items += [(g.name_pattern(5, 2), 'fnmatch', False) for _ in range(3000)] + [(g.path_pattern(3, 3, 1), 'glob', False) for _ in range(3000)]
    agg = {}
    for res in pmap(item, items):
        for st, name, info in res:
            a = agg.setdefault(name, dict(proved=0, refuted=0, open=0))
            if st == 'proved':
                a['proved'] += 1
                chk.case(key=(name, a['proved']))
            elif st == 'open':
                a['open'] += 1
                chk.leave_open(name, info)
            elif st == 'broken':
                chk.broke(info)
            else:
                a['refuted'] += 1
                report(chk, name, info)
    drives = ['c:/a', 'C:/aB', '//host/share/a', '//HOST/sh*re/a', '//?/UNC/host/share/a', '//?/unc/Host/Share/aB', '//?/c:/a', '//./c:/a', '//?/GLOBAL/c:/a', 'c:/', '//h/s/']
    for res in pmap(drive_item, [(d, False) for d in drives] + [(d, True) for d in drives[::3]]):
        for st, name, info in res:
            a = agg.setdefault(name, dict(proved=0, refuted=0, open=0))
            if st == 'proved':
                a['proved'] += 1
                chk.case(key=(name, a['proved']))
            elif st == 'open':
                a['open'] += 1
                chk.leave_open(name, info)
            elif st == 'broken':
                chk.broke(info)
            else:
                a['refuted'] += 1
                report(chk, name, info)
    # escaped backslash is a separator under FORCEWIN: `a\\\\b` == `a/b`
    for p1, p2 in (('a\\\\b', 'a/b'), ('*\\\\b*', '*/b*'), ('a\\\\**\\\\b', 'a/**/b'), ('a\\\\?', 'a/?'), ('[ab]\\\\*\\\\', '[ab]/*/')):
        for wfl in (G.W | G.G, G.W | G.G | G.X, G.W | G.G | G.E | G.D, G.W | G.X | G.C):      # (also under MATCHBASE: a pattern with a separator does not float)
            nm = 'C17.lang.FORCEWIN_escaped_backslash_in_the_pattern_is_a_separator'
            a = agg.setdefault(nm, dict(proved=0, refuted=0, open=0))
            r = R.equal(R.Impl(W.compile_pattern(p1, G._flag_transform(wfl))[0][0]), R.Impl(W.compile_pattern(p2, G._flag_transform(wfl))[0][0]))
            if r is None:
                a['proved'] += 1
                chk.case(key=(nm, p1, wfl))
            else:
                a['refuted'] += 1
                report(chk, nm, dict(pattern=p1, mode='glob', bytes=False, witness=R.to_str(r[0]), note=f'vs {p2!r}', flags=wfl))
    for name, a in agg.items():
        chk.obligation('C17:' + name, 'proved' if not a['refuted'] and a['proved'] else ('refuted' if a['refuted'] else 'undecided'), 'relang', 0.0,
                       detail=f"{a['proved']} patterns proved, {a['refuted']} refuted, {a['open']} open")
    chk.rule = ('closure obligations per pattern, each decided for ALL names by a product search with an inverse homomorphism (ASCII lower-casing / backslash->slash): patterns = all 1-2 token '
                'name patterns over a mixed-case alphabet with brackets, ranges, POSIX upper, groups; 13 path patterns incl. **, escaped backslash, leading/trailing separators; str and bytes; '
                '11 drive/UNC shapes (literal prefix, case-insensitive even under CASE)')
    chk.bounds.update(dict(c17_patterns=len(items), c17_drive_shapes=len(drives), c17_clauses=agg))
    chk.sample(dict(pattern='a[B-D]*', clause='insensitive mode closed under ASCII case of the name'))


def report(chk, name, info):
    api = 'fnmatch.fnmatch' if info['mode'] == 'fnmatch' else 'glob.globmatch'
    pt = info['pattern'].encode('latin-1') if info['bytes'] else info['pattern']
    w = info['witness']
    alt = (w.lower() if 'case' in name or 'CASE' in name else (w.replace(b'\\', b'/') if isinstance(w, bytes) else w.replace('\\', '/')))
    chk.violation(dict(obligation=name, pattern=info['pattern'], mode=info['mode'], witness=w, note=info['note'], bracket=info.get('bracket', 'none')),
                  f'{name}: pattern {info["pattern"]!r} ({info["mode"]}): witness name {w!r} ({info["note"]})',
                  f"import sys; sys.path.insert(0, {REPO!r})\nfrom wcmatch import fnmatch, glob\nprint({api}({w!r}, {pt!r}, flags={info['flags']}), {api}({alt!r}, {pt!r}, flags={info['flags']}))\nsys.exit(1)\n")
