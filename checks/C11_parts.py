"""C11 bounded part (stand-in / replay of the contract clauses on the real API): brace/split patterns with known
expansion counts around the limit, through every entry point; expansion work is measured by wrapping bracex.iexpand
(items pulled and the budget handed over)."""
import itertools
import os
import sys
import tempfile

from vlib.common import REPO


def brace(prefix, count, distinct=None):
    """pattern with `count` brace expansions of which `distinct` are distinct texts"""
    distinct = count if distinct is None else distinct
    if count == 1:
        return prefix
    items = [f'{prefix}{i}' for i in range(distinct)] + [f'{prefix}0'] * (count - distinct)
    return '{' + ','.join(items) + '}'


def run(chk, tier, seed):
    from wcmatch import fnmatch, glob, pathlib, wcmatch, _wcparse
    import bracex
    PLE = _wcparse.PatternLimitException
    pulls = {'n': 0, 'budgets': []}
    real_iexpand = bracex.iexpand

    def counting_iexpand(p, keep_escapes=False, limit=1000, **kw):
        pulls['budgets'].append(limit)
        for x in real_iexpand(p, keep_escapes=keep_escapes, limit=limit, **kw):
            pulls['n'] += 1
            yield x
    tmp = tempfile.mkdtemp(prefix='c11-')
    B = fnmatch.B
    apis = {
        'fnmatch.fnmatch': lambda p, e, L: fnmatch.fnmatch('x', p, flags=B, limit=L, exclude=e),
        'fnmatch.filter': lambda p, e, L: fnmatch.filter(['x'], p, flags=B, limit=L, exclude=e),
        'fnmatch.translate': lambda p, e, L: fnmatch.translate(p, flags=B, limit=L, exclude=e),
        'fnmatch.compile': lambda p, e, L: fnmatch.compile(p, flags=B, limit=L, exclude=e),
        'glob.globmatch': lambda p, e, L: glob.globmatch('x', p, flags=B, limit=L, exclude=e),
        'glob.globfilter': lambda p, e, L: glob.globfilter(['x'], p, flags=B, limit=L, exclude=e),
        'glob.translate': lambda p, e, L: glob.translate(p, flags=B, limit=L, exclude=e),
        'glob.compile': lambda p, e, L: glob.compile(p, flags=B, limit=L, exclude=e),
        'glob.glob': lambda p, e, L: glob.glob(p, flags=B, limit=L, exclude=e, root_dir=tmp),
        'glob.iglob': lambda p, e, L: list(glob.iglob(p, flags=B, limit=L, exclude=e, root_dir=tmp)),
        'pathlib.match': lambda p, e, L: pathlib.PurePath('x').match(p, flags=B, limit=L, exclude=e),
        'pathlib.globmatch': lambda p, e, L: pathlib.PurePath('x').globmatch(p, flags=B, limit=L, exclude=e),
        'pathlib.glob': lambda p, e, L: list(pathlib.Path(tmp).glob(p, flags=B, limit=L, exclude=e)),
        'pathlib.rglob': lambda p, e, L: list(pathlib.Path(tmp).rglob(p, flags=B, limit=L, exclude=e)),
    }
    limits = [1, 2, 3, 5] if tier == 'quick' else [1, 2, 3, 5, 32, 33]
    shapes = []          # (inclusion counts, exclusion counts)
    for L in limits:
        cand = sorted({1, 2, max(1, L - 1), L, L + 1})
        for ni in (1, 2, 3):
            for inc in itertools.product(cand, repeat=ni):
                if sum(inc) > 2 * L + 3:
                    continue
                for ne in (0, 1, 2):
                    for exc in itertools.product(sorted({1, L, L + 1}) if ne else [()], repeat=ne) if ne else [()]:
                        if sum(exc) > 2 * L + 2:
                            continue
                        shapes.append((L, inc, exc))
    if tier == 'quick':
        shapes = shapes[::3]
    try:
        bracex.iexpand = counting_iexpand
        for L, inc, exc in shapes:
            pats = [brace(f'i{k}_', c) for k, c in enumerate(inc)]
            excl = [brace(f'e{k}_', c) for k, c in enumerate(exc)] or None
            total = sum(inc) + sum(exc)
            for name, fn in apis.items():
                for lim in (L, 0):
                    pulls['n'] = 0
                    pulls['budgets'] = []
                    try:
                        fn(pats if len(pats) > 1 else pats[0], excl, lim)
                        raised = False
                    except PLE:
                        raised = True
                    except Exception as e:
                        chk.violation(dict(obligation='C11.bounded.only_PatternLimitException', api=name, patterns=pats, exclude=excl, limit=lim),
                                      f'{name}({pats}, exclude={excl}, limit={lim}) raised {type(e).__name__}: {e}', replay_src(name, pats, excl, lim, 'no exception other than PatternLimitException'))
                        continue
                    chk.case(key=(name, L, inc, exc, lim))
                    bad = None
                    if lim > 0 and total > lim and not raised:        # all expansions distinct here: D == T
                        bad = f'did not raise although {total} distinct expansions exceed limit {lim}'
                    elif (lim == 0 or total <= lim) and raised:
                        bad = f'raised although the total expansion count {total} is within limit {lim}' if lim else 'raised with limit=0 (disabled)'
                    elif lim > 0 and pulls['n'] > 2 * (lim + 1):
                        bad = f'{pulls["n"]} expansions generated for limit {lim} (more than about L+1 per list)'
                    elif lim > 0 and any(b < 1 for b in pulls['budgets']):
                        bad = f'bracex was handed a budget {pulls["budgets"]} (< 1 means unlimited) with limit {lim}'
                    if bad:
                        chk.violation(dict(obligation='C11.bounded.limit_clauses', api=name, patterns=pats, exclude=excl, limit=lim),
                                      f'{name}({pats}, exclude={excl}, limit={lim}): {bad}', replay_src(name, pats, excl, lim, bad))
        # fail-fast clause
        import time
        for name in ('fnmatch.fnmatch', 'glob.glob', 'glob.translate'):
            for pats, excl in ((['{1..3000000}'], None), (['a', '{1..3000000}'], None), (['a'], ['{1..3000000}']), (['a', 'b'], ['{1..3000000}'])):
                for lim in (2, 5):
                    pulls['n'] = 0
                    pulls['budgets'] = []
                    t0 = time.time()
                    try:
                        apis[name](pats, excl, lim)
                        raised = False
                    except PLE:
                        raised = True
                    dt = time.time() - t0
                    chk.case(key=(name, str(pats), str(excl), lim))
                    bad = None
                    if not raised:
                        bad = 'did not raise'
                    elif dt > 10.0 or pulls['n'] > 2 * (lim + 1) or any(b < 1 for b in pulls['budgets']):
                        bad = f'not fail-fast: {dt:.2f}s, {pulls["n"]} items pulled, budgets {pulls["budgets"]}'
                    if bad:
                        chk.violation(dict(obligation='C11.bounded.fail_fast', api=name, patterns=pats, exclude=excl, limit=lim),
                                      f'{name}({pats}, exclude={excl}, limit={lim}): {bad}', replay_src(name, pats, excl, lim, bad))
    finally:
        bracex.iexpand = real_iexpand
        os.rmdir(tmp)
    # plain LISTS of patterns with neither BRACE nor SPLIT in the flags: the number of patterns counts all the same
    plain = {
        'fnmatch.fnmatch': lambda p, e, L, F=0: fnmatch.fnmatch('x', p, flags=F, limit=L, exclude=e), 'fnmatch.filter': lambda p, e, L, F=0: fnmatch.filter(['x'], p, flags=F, limit=L, exclude=e),
        'fnmatch.translate': lambda p, e, L, F=0: fnmatch.translate(p, flags=F, limit=L, exclude=e), 'fnmatch.compile': lambda p, e, L, F=0: fnmatch.compile(p, flags=F, limit=L, exclude=e),
        'glob.globmatch': lambda p, e, L, F=0: glob.globmatch('x', p, flags=F, limit=L, exclude=e), 'glob.globfilter': lambda p, e, L, F=0: glob.globfilter(['x'], p, flags=F, limit=L, exclude=e),
        'glob.translate': lambda p, e, L, F=0: glob.translate(p, flags=F, limit=L, exclude=e), 'glob.compile': lambda p, e, L, F=0: glob.compile(p, flags=F, limit=L, exclude=e),
        'glob.glob': lambda p, e, L, F=0: glob.glob(p, flags=F, limit=L, exclude=e, root_dir=tmp3), 'pathlib.match': lambda p, e, L, F=0: pathlib.PurePath('x').match(p, flags=F, limit=L, exclude=e),
        'pathlib.globmatch': lambda p, e, L, F=0: pathlib.PurePath('x').globmatch(p, flags=F, limit=L, exclude=e), 'pathlib.full_match': lambda p, e, L, F=0: pathlib.PurePath('x').full_match(p, flags=F, limit=L, exclude=e),
        'pathlib.glob': lambda p, e, L, F=0: list(pathlib.Path(tmp3).glob(p, flags=F, limit=L, exclude=e)),
    }
    tmp3 = tempfile.mkdtemp(prefix='c11-')
    try:
        for name, fn in plain.items():
            for L in (3, 10):
                for ni, ne in ((L, 0), (L + 1, 0), (L - 1, 1), (L - 1, 2), (1, L), (1, L - 1)):
                    pats = [f'p{k}' for k in range(ni)]
                    excl = [f'e{k}' for k in range(ne)] or None
                    for F, fname in ((0, '0'), (fnmatch.E | fnmatch.N, 'EXTMATCH|NEGATE')):
                        if excl and F:
                            continue
                        try:
                            fn(pats, excl, L, F)
                            raised = False
                        except PLE:
                            raised = True
                        chk.case(key=('plain-list', name, L, ni, ne, fname))
                        if raised != (ni + ne > L):
                            chk.violation(dict(obligation='C11.bounded.plain_list_without_BRACE_or_SPLIT', api=name, patterns=pats, exclude=excl, limit=L, flags=fname),
                                          f'{name}({ni} patterns, exclude={ne} patterns, flags={fname}, limit={L}): raised={raised}, the limit demands {ni + ne > L}',
                                          f"import sys; sys.path.insert(0, {REPO!r})\nfrom wcmatch import fnmatch, glob, _wcparse\ntry:\n    "
                                          f"{'fnmatch.fnmatch' if name.startswith('fnmatch') else 'glob.globmatch'}('x', {pats!r}, flags={F}, limit={L}, exclude={excl!r}); print('no exception')\n"
                                          f"except _wcparse.PatternLimitException as e:\n    print('PatternLimitException', e)\nsys.exit(1)\n")
    finally:
        os.rmdir(tmp3)
    # SPLIT is lazy too: a pattern with far more `|` alternatives than the limit is not split to the end before the limit trips
    real_split = _wcparse.WcSplit.split
    pulled = {'n': 0}

    def counting_split(self):
        for piece in real_split(self):
            pulled['n'] += 1
            yield piece
    many = '|'.join('n%d' % k for k in range(20000))
    tmp4 = tempfile.mkdtemp(prefix='c11-')
    try:
        _wcparse.WcSplit.split = counting_split
        S = fnmatch.S
        for name, call in (('fnmatch.fnmatch', lambda L: fnmatch.fnmatch('x', many, flags=S, limit=L)), ('fnmatch.translate', lambda L: fnmatch.translate(many, flags=S, limit=L)),
                           ('glob.globmatch', lambda L: glob.globmatch('x', many, flags=S, limit=L)), ('glob.glob', lambda L: glob.glob(many, flags=S, limit=L, root_dir=tmp4)),
                           ('fnmatch.filter(exclude=)', lambda L: fnmatch.filter(['x'], 'x', flags=S, limit=L, exclude=many)), ('pathlib.match', lambda L: pathlib.PurePath('x').match(many, flags=S, limit=L)),
                           ('WcMatch', lambda L: wcmatch.WcMatch(tmp4, many, limit=L))):
            for L in (5, 50):
                pulled['n'] = 0
                try:
                    call(L)
                    raised = False
                except PLE:
                    raised = True
                chk.case(key=('split-work', name, L))
                if not raised or pulled['n'] > 2 * (L + 1):
                    chk.violation(dict(obligation='C11.bounded.split_work_is_bounded_by_the_limit', api=name, limit=L, pulled=pulled['n']),
                                  f'{name}(20000 `|` alternatives, SPLIT, limit={L}): raised={raised}, {pulled["n"]} pieces were produced by the splitter (more than about L+1)',
                                  f"import sys, time; sys.path.insert(0, {REPO!r})\nfrom wcmatch import fnmatch, _wcparse\nmany = '|'.join('n%d' % k for k in range(200000))\nt = time.time()\n"
                                  f"try:\n    fnmatch.fnmatch('x', many, flags=fnmatch.S, limit={L})\nexcept _wcparse.PatternLimitException:\n    pass\nprint('seconds', time.time() - t)\nsys.exit(1)\n")
    finally:
        _wcparse.WcSplit.split = real_split
        os.rmdir(tmp4)
    # WcMatch: file pattern only (its exclude is a separate compile), default limit
    pulls_w = []
    for L in limits:
        for c in (L, L + 1):
            p = brace('w', c)
            try:
                wcmatch.WcMatch('.', p, flags=wcmatch.B, limit=L)
                raised = False
            except PLE:
                raised = True
            chk.case(key=('WcMatch', L, c))
            if raised != (c > L):
                chk.violation(dict(obligation='C11.bounded.limit_clauses', api='WcMatch', patterns=p, limit=L),
                              f'WcMatch(".", {p!r}, limit={L}) raised={raised} with {c} expansions',
                              f"import sys; sys.path.insert(0, {REPO!r})\nfrom wcmatch import wcmatch, _wcparse\ntry:\n    wcmatch.WcMatch('.', {p!r}, flags=wcmatch.B, limit={L}); r = False\nexcept _wcparse.PatternLimitException:\n    r = True\nprint('raised', r); sys.exit(0 if r == {c > L} else 1)\n")
    for c, want in ((1000, False), (1001, True)):
        p = '{1..%d}' % c
        for name, call in (('WcMatch(default limit)', lambda: wcmatch.WcMatch('.', p, flags=wcmatch.B)), ('fnmatch.fnmatch(default limit)', lambda: fnmatch.fnmatch('x', p, flags=B)),
                           ('glob.translate(default limit)', lambda: glob.translate(p, flags=B)), ('pathlib.match(default limit)', lambda: pathlib.PurePath('x').match(p, flags=B))):
            try:
                call()
                raised = False
            except PLE:
                raised = True
            chk.case(key=(name, c))
            if raised != want:
                chk.violation(dict(obligation='C11.bounded.default_limit_1000', api=name, patterns=p),
                              f'{name} with {c} expansions: raised={raised}, the default limit 1000 demands {want}',
                              f"import sys; sys.path.insert(0, {REPO!r})\nfrom wcmatch import wcmatch, fnmatch, glob, pathlib, _wcparse\n# {name} on {p!r}: expected raised == {want}\nsys.exit(1)\n")
    # limit=0 disables the check - also well beyond the default of 1000 (a fallback to the default would hide below it)
    big = '{1..1500}'
    tmp2 = tempfile.mkdtemp(prefix='c11-')
    try:
        zero = [('fnmatch.fnmatch', lambda: fnmatch.fnmatch('x', big, flags=B, limit=0)), ('fnmatch.translate', lambda: fnmatch.translate(big, flags=B, limit=0)),
                ('fnmatch.filter(exclude=)', lambda: fnmatch.filter(['x'], 'x', flags=B, limit=0, exclude=big)), ('glob.globmatch', lambda: glob.globmatch('x', big, flags=B, limit=0)),
                ('glob.glob', lambda: glob.glob(big, flags=B, limit=0, root_dir=tmp2)), ('glob.glob(exclude=)', lambda: glob.glob('x', flags=B, limit=0, exclude=big, root_dir=tmp2)),
                ('pathlib.match', lambda: pathlib.PurePath('x').match(big, flags=B, limit=0)), ('pathlib.rglob', lambda: list(pathlib.Path(tmp2).rglob(big, flags=B, limit=0))),
                ('WcMatch(file pattern)', lambda: wcmatch.WcMatch(tmp2, big, flags=wcmatch.B, limit=0).match()),
                ('WcMatch(exclude pattern)', lambda: wcmatch.WcMatch(tmp2, '*', big, flags=wcmatch.B | wcmatch.RV, limit=0).match()),
                ('WcMatch(split)', lambda: wcmatch.WcMatch(tmp2, '|'.join('n%d' % k for k in range(1500)), limit=0).match())]
        for name, call in zero:
            chk.case(key=('limit0', name))
            try:
                call()
            except PLE as e:
                chk.violation(dict(obligation='C11.bounded.limit_0_disables_the_check', api=name, patterns=big),
                              f'{name} with 1500 expansions and limit=0 raised PatternLimitException ({e})',
                              f"import sys, tempfile; sys.path.insert(0, {REPO!r})\nfrom wcmatch import wcmatch, fnmatch, glob, pathlib, _wcparse\n# {name} on {big!r} with limit=0 must not raise\n"
                              f"try:\n    wcmatch.WcMatch(tempfile.mkdtemp(), {big!r}, flags=wcmatch.B, limit=0); fnmatch.translate({big!r}, flags=fnmatch.B, limit=0)\nexcept _wcparse.PatternLimitException as e:\n    print(e); sys.exit(1)\n")
    finally:
        os.rmdir(tmp2)
    chk.rule = ('bounded stand-in / replay for C11: 1-3 inclusion and 0-2 exclusion brace patterns with all-distinct expansion counts in {1,2,L-1,L,L+1}, L in '
                f'{limits}, limit in {{L,0}}, through 14 entry points + WcMatch; clauses (i) must raise, (ii) must not raise, (iv) limit=0, work bound via a counting '
                'wrapper around bracex.iexpand (items pulled, budgets handed over), fail-fast on {1..3000000}, default limit 1000; distinct = (api, L, counts, limit)')
    chk.bounds.update(dict(c11_shapes=len(shapes), c11_apis=len(apis) + 1, limits=limits))
    chk.sample(dict(api='fnmatch.fnmatch', patterns=['{i0_0,i0_1}', 'i1_'], exclude=['{e0_0,e0_1}'], limit=3))


def replay_src(name, pats, excl, lim, what):
    mod = name.split('.')[0]
    return (f"import sys, tempfile; sys.path.insert(0, {REPO!r})\nfrom wcmatch import fnmatch, glob, pathlib, _wcparse\n"
            f"# {name}: {what}\npats = {pats!r}; excl = {excl!r}; limit = {lim}\n"
            f"try:\n    r = fnmatch.fnmatch('x', pats, flags=fnmatch.B, limit=limit, exclude=excl) if {name!r}.startswith('fnmatch') else glob.translate(pats, flags=glob.B, limit=limit, exclude=excl)\n    print('no exception')\n"
            f"except _wcparse.PatternLimitException as e:\n    print('PatternLimitException', e)\n")
