"""C16 bounded part: pathlib methods against wcmatch.glob on generated trees."""
import random

from vlib.common import REPO
from vlib.par import pmap
from vlib.spec import pat as P
from vlib.harness import trees, globrun, walkrun

PL = walkrun.PL
FLAGSETS = {'0': 0, 'G': PL.G, 'G|D': PL.G | PL.D, 'G|E': PL.G | PL.E, 'G|L': PL.G | PL.L, 'GL|E': PL.GL | PL.E, 'G|O': PL.G | PL.O, 'G|SD|D': PL.G | PL.SD | PL.D,
            'G|Q': PL.G | PL.Q, 'G|E|N': PL.G | PL.E | PL.N, 'GL|L': PL.GL | PL.L}


def run(chk, tier, seed):
    pats = [P.render(p) for p in globrun.small_patterns()] + ['**/.*', '.*', '**/a', '**/d/**/a', '**/**/a', 'a', '*/a', './a', 'd/./a', '{a,d/a}', '*.txt|a', '?(a)', '?(a)/a', '*(a)/*', 'd/?(a)', '@(a|)', '+(a)',
                                                                 'e/**/a', 'a/**/a', 's/**/y', 's/**/y2', 's/**', 'e/**']          # a globstar segment that is not the first one, matched below the first level
    fsets = ['G', 'G|D', 'G|E', 'G|SD|D', 'G|Q', 'GL|E'] if tier == 'quick' else list(FLAGSETS)
    specs = {k: trees.NAMED[k] for k in (('basic', 'links') if tier == 'quick' else trees.NAMED)}
    rnd = random.Random(seed * 19 + 2)
    for i in range(1 if tier == 'quick' else 15):
        specs[f'random{i}'] = trees.random_spec(rnd, 7)
    items = []
    for tname, spec in specs.items():
        cases = [(p, FLAGSETS[fs]) for fs in fsets for p in pats]
        for i in range(0, len(cases), 30):
            items.append((tname, spec, cases[i:i + 30]))
    n = 0
    for res in pmap(walkrun.pathlib_views, items, chunk=1):
        for r in res:
            if 'error' in r:
                chk.broke(f'C16 harness crashed: {r["tree"]} {r["pattern"]!r} {r["fl"]}: {r["error"]}')
                continue
            n += 1
            chk.case(key=(r['tree'], r['pattern'], r['flags']), nontrivial=r['n'] > 0)
            for kind, w in r['bad']:
                chk.violation(dict(obligation='C16.bounded.' + kind, tree=r['tree'], pattern=r['pattern'], fl=r['fl'], witness=w, via_link=str(r.get('via_link', {}).get(w, ''))),
                              f'pathlib on tree {r["tree"]}, pattern {r["pattern"]!r}, flags {r["fl"]}: {kind}: {w}',
                              f"import sys, os; sys.path.insert(0, {REPO!r}); sys.path.insert(0, '/verif')\nfrom wcmatch import pathlib, glob\nfrom vlib.harness import trees\n"
                              f"with trees.Tree({specs[r['tree']]!r}) as t:\n    os.chdir(t.root)\n    print(sorted(str(x) for x in pathlib.Path('.').rglob({r['pattern']!r}, flags={r['flags']})))\n"
                              f"    print(sorted(str(x) for x in pathlib.Path('.').glob({r['pattern']!r}, flags={r['flags']})))\n    os.chdir('/')\nsys.exit(1)\n")
    # names ending in a backslash / backslash-dot are ordinary names for the concrete Posix class: Path.glob returns what glob.glob returns
    import tempfile
    import shutil
    import os
    from wcmatch import glob as GG
    tmpb = tempfile.mkdtemp(prefix='c16-')
    try:
        for f in ('x\\', 'x\\.', 'w\\', 'plain'):
            open(os.path.join(tmpb, f), 'w').close()
        for p, fl in (('x*', 0), ('*', 0), ('*', PL.O), ('**', PL.G)):
            got = sorted(str(x.relative_to(tmpb)) for x in PL.Path(tmpb).glob(p, flags=fl))
            want = sorted(GG.glob(p, flags=fl | GG.U, root_dir=tmpb))
            chk.case(key=('backslash-names', p, fl))
            if got != want or len(got) != len(set(got)):
                chk.violation(dict(obligation='C16.bounded.Path.glob-differs-from-glob.glob', tree='(backslash names)', pattern=p, fl=globrun.LC.flagnames(fl), witness=str(sorted(set(got) ^ set(want))[:1])),
                              f'Path.glob({p!r}) on files x\\, x\\., w\\, plain: {got}, glob.glob: {want}',
                              f"import sys, os, tempfile; sys.path.insert(0, {REPO!r})\nfrom wcmatch import pathlib\nd = tempfile.mkdtemp()\nfor f in ('x\\\\', 'x\\\\.'):\n    open(os.path.join(d, f), 'w').close()\n"
                              f"got = sorted(str(x) for x in pathlib.Path(d).glob('x*'))\nprint(got)\nsys.exit(0 if len(got) == 2 else 1)\n")
    finally:
        shutil.rmtree(tmpb, ignore_errors=True)
    from checks import fixed_clauses
    fixed_clauses.pathlib_uniqueness_and_history(chk)
    fixed_clauses.rglob_exclusions(chk)
    chk.rule = ('bounded stand-in: for every (tree, pattern, flags): list(Path.glob) == [root/x for x in glob.glob(root_dir=root, flags|_NOABSOLUTE|_PATHLIB)] for the root and a '
                'sub-directory; rglob == glob with the implicit recursive prefix; user FORCEWIN/FORCEUNIX ignored; no duplicates unless NOUNIQUE; q.match(p, REALPATH) <=> q in '
                'Path(".").rglob(p) for every entry of the tree plus everything rglob returned; globmatch/full_match == glob.globmatch(str [+sep]); Pure classes == FORCEUNIX/FORCEWIN; '
                'ValueError for absolute patterns and REALPATH on the foreign pure class')
    chk.bounds.update(dict(c16_trees=len(specs), c16_patterns=len(pats), c16_flagsets=fsets, c16_cases=n))
    chk.sample(dict(tree='basic', pattern='**/a', flags='GLOBSTAR'))
