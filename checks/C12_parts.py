"""C12 bounded part: well-formedness of every glob result and independence from how the root is given."""
import random

from vlib.common import REPO
from vlib.par import pmap
from vlib.spec import pat as P
from vlib.harness import trees, globrun

G = globrun.G
FLAGSETS = {'G': G.G, 'G|K': G.G | G.K, 'G|O': G.G | G.O, 'G|D': G.G | G.D, 'G|SD': G.G | G.SD, 'X|G': G.X | G.G, 'G|B|S': G.G | G.B | G.S, 'G|K|O': G.G | G.K | G.O,
            'G|E|N': G.G | G.E | G.N, 'G|L|K': G.G | G.L | G.K}


def run(chk, tier, seed):
    pats = [P.render(p) for p in globrun.small_patterns()]
    pats += ['$ROOT/*', '$ROOT/d/**', '$ROOT/**/a', '$ROOT/', 'd/../a', 'd//x', './d/', '../root/*', '{a,d/*}', 'a|d/*', '*|!a', '{d,ld}/', 'd/s/../x', '.', '..', './', 'd/./x', '$ROOT/d/../f',
             'd/*{,/}', '**/|**', '{d/*,d/*/}', '*{,/}', '*/|*', 'd/s/*/|d/s/*']          # one call visiting a directory with and without the directories-only filter
    fsets = ['G', 'G|K', 'G|O', 'G|SD', 'G|B|S', 'G|K|O'] if tier == 'quick' else list(FLAGSETS)
    specs = {k: trees.NAMED[k] for k in (('links', 'basic') if tier == 'quick' else trees.NAMED)}
    rnd = random.Random(seed * 13 + 6)
    for i in range(1 if tier == 'quick' else 20):
        specs[f'random{i}'] = trees.random_spec(rnd, 7)
    items = []
    for tname, spec in specs.items():
        cases = [(p, FLAGSETS[fs]) for fs in fsets for p in pats]
        for i in range(0, len(cases), 40):
            items.append((tname, spec, cases[i:i + 40]))
    n = 0
    for res in pmap(globrun.wellformed_and_roots, items, chunk=1):
        for r in res:
            if 'error' in r:
                chk.broke(f'C12 harness crashed: {r["tree"]} {r["pattern"]!r} {r["fl"]}: {r["error"]}')
                continue
            n += 1
            chk.case(key=(r['tree'], r['pattern'], r['flags']), nontrivial=r['n'] > 0)
            for kind, w in r['bad']:
                chk.violation(dict(obligation='C12.bounded.' + kind, tree=r['tree'], pattern=r['pattern'], fl=r['fl'], witness=w),
                              f'glob({r["pattern"]!r}, flags={r["fl"]}) on tree {r["tree"]}: {kind}: {w}', replay(r, specs))
    # names ending in a backslash (ordinary characters under the Unix rules): NODIR drops directories only, Glob uses the regexes of the rules in force
    import tempfile
    import shutil
    import os
    from wcmatch import _wcparse as W
    for fl, win in ((G.U, False), (G.W, True), (G.U | G.W, None)):
        for b in (False, True):
            g = G.Glob(b'x' if b else 'x', flags=fl)
            isw = bool(g.flags & G.W)
            chk.case(key=('glob-platform-regexes', fl, b))
            if g.re_no_dir is not (W.RE_WIN_NO_DIR if isw else W.RE_NO_DIR)[1 if b else 0] or g.re_pathlib_norm is not (G._RE_WIN_PATHLIB_DOT_NORM if isw else G._RE_PATHLIB_DOT_NORM)[1 if b else 0]:
                chk.violation(dict(obligation='C12.finite.Glob_uses_the_NODIR_and_dot-normalising_regexes_of_the_rules_in_force', tree='(none)', pattern='x', fl=globrun.LC.flagnames(fl), witness=str(b)),
                              f'Glob({"bytes" if b else "str"} pattern, {globrun.LC.flagnames(fl)}): re_no_dir / re_pathlib_norm are not the {"Windows" if isw else "Unix"} regexes',
                              f"import sys; sys.path.insert(0, {REPO!r})\nfrom wcmatch import glob, _wcparse\ng = glob.Glob('x', flags={fl})\nprint(g.re_no_dir.pattern)\nsys.exit(1)\n")
    tmpb = tempfile.mkdtemp(prefix='c12-')
    try:
        files = ['w\\', 'x\\.', 'x\\', 'plain', '.\\']
        for f in files:
            open(os.path.join(tmpb, f), 'w').close()
        os.mkdir(os.path.join(tmpb, 'dd'))
        os.mkdir(os.path.join(tmpb, 'e\\'))
        vis = sorted(f for f in files if not f.startswith('.'))
        for p, fl, want in (('*', 0, sorted(vis + ['dd', 'e\\'])), ('*', G.O, vis), ('x*', G.O, ['x\\', 'x\\.']), ('**', G.G | G.O, vis), ('*', G.O | G.D, sorted(files)), ('*/', 0, ['dd/', 'e\\/'])):
            for kw, enc in ((dict(root_dir=tmpb), False), (dict(root_dir=os.fsencode(tmpb)), True)):
                got = sorted(G.glob(p.encode() if enc else p, flags=fl | G.U, **kw))
                exp = [w.encode() for w in want] if enc else want
                chk.case(key=('backslash-names', p, fl, enc))
                if got != exp:
                    chk.violation(dict(obligation='C12.bounded.names_ending_in_a_backslash', tree='(backslash names)', pattern=p, fl=globrun.LC.flagnames(fl), witness=str(sorted(set(got) ^ set(exp))[:1])),
                                  f'glob({p!r}, {globrun.LC.flagnames(fl)}) on files {files} + directories dd, e\\: {got} instead of {exp}',
                                  f"import sys, os, tempfile; sys.path.insert(0, {REPO!r})\nfrom wcmatch import glob\nd = tempfile.mkdtemp()\nfor f in {files!r}:\n    open(os.path.join(d, f), 'w').close()\nos.mkdir(d + '/dd')\n"
                                  f"got = sorted(glob.glob({p!r}, flags={fl | G.U}, root_dir=d))\nprint(got)\nsys.exit(1)\n")
    finally:
        shutil.rmtree(tmpb, ignore_errors=True)
    # a root (or a literal prefix) that does not exist has no entries at all - not even the fake `.` and `..`
    import tempfile as _tf
    notdir = _tf.NamedTemporaryFile(prefix='wcv-notadir-')
    for p, fl in (('./.', G.G), ('.*', G.G | G.SD), ('.', G.G), ('*', G.G), ('**', G.G | G.D), ('*/.', G.G), ('..', G.G), ('.*/', G.SD),
                  ('./', G.G), ('../', G.G), ('./**', G.G), ('../**', G.G), ('./', G.K), ('.//', 0), ('./*', G.G), ('../.', 0), ('.|..', G.S), ('{./,../}', G.B)):
        for kw, where in ((dict(root_dir='/nonexistent-root-for-c12'), 'a root_dir that does not exist'), (dict(root_dir=b'/nonexistent-root-for-c12'), 'a bytes root_dir that does not exist'),
                          (dict(root_dir=notdir.name), 'a root_dir that is a regular file')):
            pt = p.encode() if isinstance(kw['root_dir'], bytes) else p
            got = G.glob(pt, flags=fl | G.U, **kw)
            chk.case(key=('nonexistent-root', p, fl, where))
            if got:
                chk.violation(dict(obligation='C12.bounded.does-not-exist', tree='(none)', pattern=p, fl=globrun.LC.flagnames(fl), witness=str(got[0])),
                              f'glob({pt!r}, {globrun.LC.flagnames(fl)}) with {where} returns {got}',
                              f"import sys; sys.path.insert(0, {REPO!r})\nfrom wcmatch import glob\ngot = glob.glob({pt!r}, flags={fl | G.U}, root_dir={kw['root_dir']!r})\nprint(got)\nsys.exit(1 if got else 0)\n")
    chk.rule = ('bounded stand-in: for each (tree, pattern, flags) every element of glob() is checked for lexists relative to the root, relative/absolute spelling, trailing '
                'separator <=> directory and (pattern ended with separator or MARK), never a directory under NODIR; iglob() == glob() as lists; equal result LISTS for '
                'root_dir as str / bytes / PathLike, dir_fd and chdir; non-trivial = non-empty result')
    chk.bounds.update(dict(c12_trees=len(specs), c12_patterns=len(pats), c12_flagsets=fsets, c12_cases=n))
    chk.sample(dict(tree='links', pattern='d/**', flags='GLOBSTAR|MARK'))
    chk.assume('the equivalence of root_dir / dir_fd / cwd is a property of the OS interface: bounded only')


def replay(r, specs):
    return (f"import sys, os; sys.path.insert(0, {REPO!r}); sys.path.insert(0, '/verif')\nfrom wcmatch import glob\nfrom vlib.harness import trees\n"
            f"spec = {specs[r['tree']]!r}\nwith trees.Tree(spec) as t:\n    pat = {r['pattern']!r}.replace('$ROOT', t.root)\n"
            f"    print(glob.glob(pat, flags={r['flags']} | glob.U, root_dir=t.root))\n# reported: {r.get('bad')!r}\nsys.exit(1)\n")
