"""C19 bounded part (replay / cross-check of the frame and cache contracts): the same calls give the same answers
  (a) in a fresh interpreter (one subprocess per call - nothing shared),
  (b) after seeded random sequences of the other calls in one process, including > 256 distinct patterns (more than a cache-full),
      the same text under different flags / as bytes, translate and compile interleaved,
  (c) when 8 threads run shuffled copies of the call list concurrently;
matcher objects: equal and hash-equal iff built from the same patterns and flags, unequal when built from different ones, immutable,
pickle / copy / deepcopy clones are equal to and behave as the original, reuse for many calls."""
import copy
import json
import os
import pickle
import random
import subprocess
import sys
import threading

from vlib.common import REPO

NAMES = ['a', 'a.txt', '.h', 'A', 'ab', 'd/a', 'd/.h', 'x/y/a.txt', 'b', 'a\n']


def calls():
    """(key, python expression evaluated with `fnmatch`, `glob`, `NAMES` in scope) - results must be JSON-serialisable"""
    out = []
    pats = ['*', 'a*', '*.txt', '[ab]', '!(a)', '@(a|b)*', '**/a', '?', 'A', '{a,b}', 'a|b', '!a', '.*', '**', '*/*']
    ff = ['0', 'fnmatch.E', 'fnmatch.I', 'fnmatch.D', 'fnmatch.E | fnmatch.N', 'fnmatch.B | fnmatch.S', 'fnmatch.C', 'fnmatch.N | fnmatch.A']
    gf = ['0', 'glob.G', 'glob.G | glob.E', 'glob.D | glob.G', 'glob.I', 'glob.G | glob.N | glob.A', 'glob.B | glob.S', 'glob.X | glob.G']
    for p in pats:
        for f in ff:
            out.append((f'fn.filter {p} {f}', f'fnmatch.filter(NAMES, {p!r}, flags={f})'))
        for f in gf:
            out.append((f'gl.filter {p} {f}', f'glob.globfilter(NAMES, {p!r}, flags={f})'))
        out.append((f'fn.translate {p}', f'[list(x) for x in fnmatch.translate({p!r}, flags=fnmatch.E | fnmatch.N)]'))
        out.append((f'gl.translate {p}', f'[list(x) for x in glob.translate({p!r}, flags=glob.G | glob.E)]'))
        out.append((f'fn.bytes {p}', f'[x.decode() for x in fnmatch.filter([n.encode() for n in NAMES], {p.encode()!r}, flags=fnmatch.E)]'))
        out.append((f'gl.compile {p}', f'[n for n in NAMES if glob.compile({p!r}, flags=glob.G | glob.E).match(n)]'))
    return out


PRELUDE = f"import sys, json; sys.path.insert(0, {REPO!r})\nfrom wcmatch import fnmatch, glob\nNAMES = {NAMES!r}\n"


def fresh_results(cs, chunk=12):
    """each call in its own interpreter"""
    res = {}
    procs = []
    for key, expr in cs:
        code = PRELUDE + f"print(json.dumps({expr}))\n"
        procs.append((key, subprocess.Popen([sys.executable, '-c', code], stdout=subprocess.PIPE, stderr=subprocess.PIPE, text=True)))
        if len(procs) >= chunk:
            for k, p in procs:
                o, e = p.communicate()
                res[k] = json.loads(o) if p.returncode == 0 else f'ERR {e[-200:]}'
            procs = []
    for k, p in procs:
        o, e = p.communicate()
        res[k] = json.loads(o) if p.returncode == 0 else f'ERR {e[-200:]}'
    return res


def run(chk, tier, seed):
    if REPO not in sys.path:
        sys.path.insert(0, REPO)
    from wcmatch import fnmatch, glob, _wcparse
    cs = calls()
    if tier == 'quick':
        cs = cs[::3]
    rnd = random.Random(seed * 97 + 19)
    want = fresh_results(cs, chunk=16)
    env = dict(fnmatch=fnmatch, glob=glob, NAMES=NAMES)
    bad_fresh = [k for k, v in want.items() if isinstance(v, str) and v.startswith('ERR')]
    for k in bad_fresh[:3]:
        chk.broke(f'C19 harness: fresh interpreter failed for {k}: {want[k]}')

    def one(key, expr):
        return json.loads(json.dumps(eval(expr, dict(env))))

    def report(kind, key, expr, got):
        chk.violation(dict(obligation='C19.bounded.' + kind, call=key, witness=key),
                      f'{kind}: {expr} -> {str(got)[:120]} but a fresh interpreter gives {str(want[key])[:120]}',
                      PRELUDE + f"print({expr})\nsys.exit(1)\n")
    n = 0
    # (b) sequences: shuffled whole list, with a cache flood (> 256 distinct patterns) in the middle, several rounds
    for rnd_i in range(2 if tier == 'quick' else 6):
        order = list(cs)
        rnd.shuffle(order)
        half = len(order) // 2
        for idx, (key, expr) in enumerate(order):
            if idx == half:
                for i in range(300):
                    fnmatch.fnmatch('x', f'flood{rnd_i}_{i}*')          # more than a cache-full of distinct patterns
            got = one(key, expr)
            n += 1
            if got != want[key]:
                report('answer-depends-on-call-history', key, expr, got)
    chk.case(key='history', n=n)
    # (c) threads
    errs = []

    def worker(tid):
        r = random.Random(seed * 1000 + tid)
        order = list(cs)
        r.shuffle(order)
        for key, expr in order:
            try:
                got = one(key, expr)
            except Exception as e:      # noqa
                errs.append((key, expr, f'{type(e).__name__}: {e}'))
                continue
            if got != want[key]:
                errs.append((key, expr, got))
    ths = [threading.Thread(target=worker, args=(t,)) for t in range(8)]
    for t in ths:
        t.start()
    for t in ths:
        t.join()
    chk.case(key='threads', n=8 * len(cs))
    for key, expr, got in errs[:5]:
        report('answer-differs-under-concurrent-threads', key, expr, got)
    # matcher objects
    m = 0
    combos = [(p, f) for p in ['*.txt', ['a*', '!ab'], '**/a', '@(a|b)'] for f in (glob.G | glob.E, glob.G | glob.E | glob.N, glob.G | glob.E | glob.D)]
    builders = [(f'{api.__name__}.compile({p!r}, flags={f & api.FLAG_MASK})', (lambda api=api, p=p, f=f: api.compile(p, flags=f & api.FLAG_MASK))) for api in (fnmatch, glob) for p, f in combos]
    builders += [(f"glob.compile({p!r}, flags={f}, exclude='b*')", (lambda p=p, f=f: glob.compile(p, flags=f, exclude='b*'))) for p, f in combos[:3]]
    builders += [("glob.compile('**/a', flags=glob.G | glob.P)", lambda: glob.compile('**/a', flags=glob.G | glob.P)),
                 ("fnmatch.compile(b'*.txt')", lambda: fnmatch.compile(b'*.txt')), ("fnmatch.compile('*.txt', flags=fnmatch.I)", lambda: fnmatch.compile('*.txt', flags=fnmatch.I))]
    objs = []
    for what, mk in builders:
        o, twin = mk(), mk()
        objs.append((what, o))
        m += 1
        names = [x.encode() for x in NAMES] if "b'" in what.split('(', 1)[1][:3] else NAMES
        real = 'glob.P' in what
        kw = dict(root_dir='/nonexistent-root-for-c19') if real else {}
        sig = dict(obligation='C19.bounded.matcher_objects', call=what, witness=what)
        if not (o == twin and hash(o) == hash(twin) and not (o != twin)):
            chk.violation(sig, f'{what}: two matchers built from the same patterns and flags are not equal / hash-equal', None)
        for clone, nm in ((pickle.loads(pickle.dumps(o)), 'pickle'), (copy.copy(o), 'copy'), (copy.deepcopy(o), 'deepcopy')):
            if not (clone == o and hash(clone) == hash(o)) or [clone.match(x, **kw) for x in names] != [o.match(x, **kw) for x in names] or clone.filter(names, **kw) != o.filter(names, **kw):
                chk.violation(dict(sig, kind=nm), f'{what}: the {nm} clone is not equal to / does not behave as the original', None)
        first = [o.match(x, **kw) for x in names]
        if any([o.match(x, **kw) for x in names] != first for _ in range(3)) or o.filter(names, **kw) != [x for x, ok in zip(names, first) if ok]:
            chk.violation(sig, f'{what}: reuse of one matcher gives different answers', None)
        for attr in ('_matcher', '_hash'):
            try:
                setattr(o, attr, None)
                chk.violation(sig, f'{what}: attribute {attr} of the matcher can be assigned (not immutable)', None)
            except AttributeError:
                pass
        for target in (copy.copy(o), copy.copy(getattr(o, '_matcher', None))):
            for attr in (('_matcher', '_hash') if target.__class__.__name__ == 'WcMatcher' else ('_include', '_exclude', '_follow', '_hash')):
                try:
                    delattr(target, attr)
                    chk.violation(sig, f'{what}: attribute {attr} of {target.__class__.__name__} can be deleted (not immutable)',
                                  PRELUDE + f"m = {what}\nobj = m if {target.__class__.__name__ == 'WcMatcher'} else m._matcher\ntry:\n    del obj.{attr}\nexcept AttributeError:\n    sys.exit(0)\nprint('deleted {attr}')\nsys.exit(1)\n")
                except AttributeError:
                    pass
        inner = getattr(o, '_matcher', None)
        for attr in ('_include', '_exclude', '_real', '_path', '_follow', '_hash'):
            try:
                setattr(inner, attr, None)
                chk.violation(sig, f'{what}: attribute {attr} of the inner WcRegexp can be assigned (not immutable)', None)
            except AttributeError:
                pass
    # != is the negation of == for every pair, in particular for matchers that differ in one constructor field only
    pairs = [(glob.compile('**/x', flags=glob.G | glob.P), glob.compile('**/x', flags=glob.G | glob.P | glob.L), 'FOLLOW'),
             (glob.compile('**/x', flags=glob.G), glob.compile('**/x', flags=glob.G | glob.P), 'REALPATH'),
             (glob.compile('*', flags=0), fnmatch.compile('*', flags=0), 'path mode'), (fnmatch.compile('a', exclude='b'), fnmatch.compile('a'), 'exclude'),
             (fnmatch.compile('a'), fnmatch.compile('a'), 'nothing')]
    for o1, o2, what2 in pairs:
        m += 1
        same = what2 == 'nothing'
        if (o1 == o2) != same or (o1 != o2) != (not same) or (same and hash(o1) != hash(o2)):
            chk.violation(dict(obligation='C19.bounded.matcher_objects', call=f'pair differing in {what2}', witness=what2),
                          f'matchers differing in {what2}: == gives {o1 == o2}, != gives {o1 != o2} (expected == {same}, != {not same})', None)
    strs = [(w, o) for w, o in objs if "b'" not in w and 'glob.P' not in w]
    for i, (w1, o1) in enumerate(strs):
        for w2, o2 in strs[i + 1:]:
            m += 1
            if o1 == o2 and [o1.match(x) for x in NAMES] != [o2.match(x) for x in NAMES]:
                chk.violation(dict(obligation='C19.bounded.matcher_objects', call=f'{w1} vs {w2}', witness=''), f'matchers that accept different names compare equal: {w1} vs {w2}', None)
    chk.case(key='matchers', n=m)
    # matchers built in OTHER interpreters (different hash seeds) and sent over by pickle are equal / hash-equal to the ones built here
    specs = ["fnmatch.compile(['a*', 'b*', '*.txt', 'c?', '[de]*'], flags=fnmatch.E)", "glob.compile('{a,b,c,d,e,f}*/**', flags=glob.G | glob.B)", "fnmatch.compile('p|q|r|s|t|u', flags=fnmatch.S)",
             "glob.compile(['**/a', '*.txt', 'd/*'], flags=glob.G | glob.N, exclude=['x*', 'y*', 'z*', '*.bak'])", "fnmatch.compile(['!a*', '!b*', '!c*', 'z*'], flags=fnmatch.N)"]
    code = PRELUDE + "import pickle, binascii\nprint(json.dumps([binascii.hexlify(pickle.dumps(m)).decode() for m in (" + ', '.join(specs) + ",)]))\n"
    import binascii
    local = [eval(sp, dict(env)) for sp in specs]
    for hs in ('1', '2', '3', '4', '5', '6'):
        p = subprocess.run([sys.executable, '-c', code], capture_output=True, text=True, env=dict(os.environ, PYTHONHASHSEED=hs))
        if p.returncode != 0:
            chk.broke(f'C19 harness: interpreter with PYTHONHASHSEED={hs} failed: {p.stderr[-300:]}')
            continue
        for sp, mine, blob in zip(specs, local, json.loads(p.stdout)):
            other = pickle.loads(binascii.unhexlify(blob))
            m += 1
            if not (other == mine and hash(other) == hash(mine) and not (other != mine)):
                chk.violation(dict(obligation='C19.bounded.matcher_built_in_another_interpreter_is_equal', call=sp, witness=sp),
                              f'{sp}: the matcher built under PYTHONHASHSEED={hs} and unpickled here is not equal / hash-equal to the one built here',
                              PRELUDE + f"import subprocess, pickle, binascii, os\nsrc = {PRELUDE!r} + 'import pickle, binascii\\nprint(binascii.hexlify(pickle.dumps({sp})).decode())'\n"
                              f"outs = [subprocess.run([sys.executable, '-c', src], capture_output=True, text=True, env=dict(os.environ, PYTHONHASHSEED=h)).stdout.strip() for h in '123456']\n"
                              f"ms = [pickle.loads(binascii.unhexlify(o)) for o in outs]\nprint([x == ms[0] for x in ms])\nsys.exit(0 if all(x == ms[0] and hash(x) == hash(ms[0]) for x in ms) else 1)\n")
    chk.case(key='matchers-across-interpreters', n=m)
    # the process state later calls depend on is left as it was: no file descriptor stays open after glob / iglob (also with dir_fd, also when abandoned early)
    import tempfile
    import shutil
    tmp = tempfile.mkdtemp(prefix='c19-')
    try:
        for d in ('a/b/c', 'a/d', 'e/f', '.h/x'):
            os.makedirs(os.path.join(tmp, d))
        open(os.path.join(tmp, 'a/b/c/t.txt'), 'w').close()
        nfd = lambda: len(os.listdir('/proc/self/fd'))          # noqa: E731
        dfd = os.open(tmp, os.O_RDONLY | os.O_DIRECTORY)
        try:
            for what, call in (("glob('**', dir_fd)", lambda: glob.glob('**', flags=glob.G, dir_fd=dfd)), ("glob('**/*.txt', root_dir)", lambda: glob.glob('**/*.txt', flags=glob.G, root_dir=tmp)),
                               ("glob(b'**', dir_fd)", lambda: glob.glob(b'**', flags=glob.G | glob.D, dir_fd=dfd)), ("glob('a/*/c/*', dir_fd)", lambda: glob.glob('a/*/c/*', dir_fd=dfd)),
                               ("globfilter(REALPATH, dir_fd)", lambda: glob.globfilter(['a/b', 'a/b/c/t.txt', 'zz'], '**', flags=glob.G | glob.P, dir_fd=dfd)),
                               ("iglob abandoned after one item", lambda: next(glob.iglob('**', flags=glob.G, dir_fd=dfd)))):
                first = call()
                before = nfd()
                for _ in range(5):
                    again = call()
                import gc
                gc.collect()
                after = nfd()
                m += 1
                if after != before or again != first:
                    chk.violation(dict(obligation='C19.bounded.no_file_descriptor_left_open', call=what, witness=what),
                                  f'{what}: {after - before} descriptors stayed open after 5 calls (same result: {again == first})',
                                  PRELUDE + "import os, tempfile\nd = tempfile.mkdtemp()\nos.makedirs(d + '/a/b/c')\nfd = os.open(d, os.O_RDONLY)\nn0 = len(os.listdir('/proc/self/fd'))\n"
                                  "for _ in range(5):\n    glob.glob('**', flags=glob.G, dir_fd=fd)\nn1 = len(os.listdir('/proc/self/fd'))\nprint(n0, n1)\nsys.exit(0 if n0 == n1 else 1)\n")
        finally:
            os.close(dfd)
    finally:
        shutil.rmtree(tmp, ignore_errors=True)
    chk.case(key='descriptors', n=m)
    chk.rule = ('bounded cross-check of the frame / cache contracts: every call of a fixed list (15 patterns x 8 flag sets x {fnmatch, glob} filter, translate, bytes, compile+match; '
                'quick: every third) is evaluated once per fresh interpreter and compared with its value inside seeded shuffled sequences of all the calls with a 300-pattern cache flood, '
                'and inside 8 concurrently running threads; matcher objects: equality / hash / immutability / pickle-copy-deepcopy clones / reuse')
    chk.bounds.update(dict(c19_calls=len(cs), c19_sequence_evaluations=n, c19_threads=8, c19_matchers=len(objs)))
    chk.sample(dict(call=cs[0][1]))
    chk.assume('threads are scheduled by CPython as they come: the concurrent clause is sampled, not explored (the frame contracts - no module-level mutable state besides the lru_cache - carry it)')
