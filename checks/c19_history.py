def run(chk, tier, seed):
    pass
