"""C20 bounded part: util.norm_pattern against the independent decoder on exhaustive strings over an escape alphabet (str and bytes,
RAWCHARS on/off, Windows normalisation on/off); end-to-end: Lang(translate(p, RAWCHARS)) == Lang(translate(decode(p)))."""
import itertools
import random

from vlib import langcheck as LC, relang as R
from vlib.common import REPO
from vlib.par import pmap
from vlib.spec import rawchars

F, G, W = LC.F, LC.G, LC.W
ALPHA = ['\\', 'x', 'u', 'U', 'N', '{', '}', '0', '1', '7', '8', 'a', 'n', '/', '[', '*', 'A', 't']


def outcome(fn):
    try:
        return ('ok', fn())
    except (SyntaxError, KeyError) as e:
        return ('exc', type(e).__name__)
    except Exception as e:
        return ('exc', type(e).__name__ + ':' + str(e)[:60])


SLASH_IN_NAME_ESCAPE = __import__('re').compile(r'\\N\{[^}]*\\[/\\]')


def chunk(args):
    first, length = args
    from wcmatch import util
    bad = []
    n = 0
    for tail in itertools.product(ALPHA, repeat=length - 1):
        p = first + ''.join(tail)
        for raw in (True, False):
            for norm in (False, True):
                for is_bytes in (False, True):
                    if is_bytes and any(ord(ch) > 255 for ch in p):
                        continue          # no bytes spelling of this text
                    if norm and not raw and SLASH_IN_NAME_ESCAPE.search(p):
                        # slash normalisation (Windows rules) inside an undecoded `\N{...}`: the C20 statement only says the sequence is not
                        # decoded; whether the separator spelling inside it is normalised is not its business (the code leaves it alone)
                        continue
                    n += 1
                    want = outcome(lambda: rawchars.decode(p, raw, norm, is_bytes))
                    if is_bytes:
                        got = outcome(lambda: util.norm_pattern(p.encode('latin-1'), norm, raw).decode('latin-1'))
                    else:
                        got = outcome(lambda: util.norm_pattern(p, norm, raw))
                    if got != want:
                        bad.append((p, raw, norm, is_bytes, str(got)[:80], str(want)[:80]))
                        if len(bad) > 30:
                            return n, bad
    return n, bad


def e2e(item):
    p, fl, kind = item
    api = F if kind == 'fnmatch' else G
    try:
        try:
            dec = rawchars.decode(p, True, False)
        except (SyntaxError, KeyError) as e:
            try:
                api.translate(p, flags=fl | W.RAWCHARS)
                return ('violation', p, fl, kind, f'decoder raises {type(e).__name__}, translate(RAWCHARS) does not')
            except (SyntaxError, KeyError):
                return ('ok',)
        a = api.translate(p, flags=fl | W.RAWCHARS)
        b = api.translate(dec, flags=fl)
        if [len(x) for x in a] != [len(x) for x in b]:
            return ('violation', p, fl, kind, f'{len(a[0])}+{len(a[1])} regexes with RAWCHARS, {len(b[0])}+{len(b[1])} for the decoded pattern {dec!r}')
        for x, y in zip(a[0] + a[1], b[0] + b[1]):
            r = R.equal(R.Impl(x), R.Impl(y))
            if r is not None:
                return ('violation', p, fl, kind, f'name {R.to_str(r[0])!r}: RAWCHARS pattern {"matches" if r[1] else "rejects"}, decoded pattern {dec!r} {"matches" if r[2] else "rejects"}')
        # the matcher's own regexes (compile path) must agree as well
        cp, cn = W.compile_pattern(p, api._flag_transform(fl | W.RAWCHARS))
        if [len(cp), len(cn)] != [len(x) for x in b]:
            return ('violation', p, fl, kind, f'matcher: {len(cp)}+{len(cn)} regexes with RAWCHARS, {len(b[0])}+{len(b[1])} for the decoded pattern {dec!r}')
        for x, y in zip(cp + cn, b[0] + b[1]):
            r = R.equal(R.Impl(x), R.Impl(y))
            if r is not None:
                return ('violation', p, fl, kind, f'matcher, name {R.to_str(r[0])!r}: RAWCHARS pattern {"matches" if r[1] else "rejects"}, decoded pattern {dec!r} {"matches" if r[2] else "rejects"}')
        return ('ok',)
    except (R.Unsupported, R.StateLimit) as e:
        return ('open', p, fl, kind, str(e))
    except Exception as e:
        return ('violation', p, fl, kind, f'{type(e).__name__}: {e}')


def run(chk, tier, seed):
    length = 4 if tier == 'quick' else 6
    jobs = [(c, n) for n in range(1, length + 1) for c in ALPHA]
    extra = ['\\U0001F600', '\\U00110000', '\\UFFFFFFFF', '\\u00e9x', '\\N{DIGIT ONE}', '\\N{LATIN SMALL LETTER A}*', '\\N{NOPE}', '\\N{', '\\x41\\x2a', '\\101\\52', '\\0', '\\400', '\\777a',
             '\\x5b\\x61\\x5d', '\\x7ba,b\\x7d', 'a\\x7cb', '\\x21(a)', '\\\\x41', '\\\\\\x41', 'a\\/b', '\\/\\x2f', '[\\x61-\\x63]', '\\x2a\\x2a/a', '\\8', '\\xg1', '\\u12', '\\U1234567', '\\N{HYPHEN-MINUS}', '\\N{NO-BREAK SPACE}x', 'a\\N{CJK UNIFIED IDEOGRAPH-4E00}', '\\N{LATIN SMALL LETTER A}-\\N{LATIN SMALL LETTER C}',
             # digits that are not ASCII are not hex / octal digits: the escape is incomplete (Arabic-Indic 4 and 1, fullwidth 4 and 1)
             '\\x\u0664\u0661', '\\x4\u0661', '\\u\u0660\u0660\u0664\u0661', '\\u004\u0661', '\\U0000004\u0661', '\\x\uff14\uff11', '\\\u0661\u0660\u0661', 'a\\x\u0664\u0661*']
    total = 0
    for n, bad in pmap(chunk, jobs + [(e, 1) for e in extra], chunk=1):
        total += n
        for p, raw, norm, is_bytes, got, want in bad:
            chk.violation(dict(obligation='C20.bounded.norm_pattern==decoder', pattern=p, raw=raw, normalize=norm, bytes=is_bytes, witness=p),
                          f'norm_pattern({p!r}{" as bytes" if is_bytes else ""}, normalize={norm}, raw={raw}) -> {got}, the statement demands {want}',
                          f"import sys; sys.path.insert(0, {REPO!r})\nfrom wcmatch import util, fnmatch\np = {p!r}\n" + ("p = p.encode('latin-1')\n" if is_bytes else '') +
                          f"print(repr(util.norm_pattern(p, {norm}, {raw})))\nsys.exit(1)\n")
    chk.case(key='c20-norm', n=total)
    for i in range(min(total, 3000)):
        chk.nontrivial.add(('c20', i))
    # end to end
    rnd = random.Random(seed * 3 + 20)
    pats = list(extra)
    for _ in range(300 if tier == 'quick' else 5000):
        pats.append(''.join(rnd.choice(['\\x2a', '\\x3f', '\\x5b', '\\x5d', '\\x61', 'a', 'b', '*', '\\101', '\\52', '\\x7c', '\\x21', '\\x28', '\\x29', '\\x2e', '.', '\\\\', '\\n', '\\t', '\\x7b', '\\x2c', '\\x7d', '/', '\\x2f',
                                        '\\u0062', '\\U00000063', '\\N{DIGIT ONE}', '\\*', '\\a'])
                            for _ in range(rnd.randint(1, 6))))
    items = []
    for p in dict.fromkeys(pats):
        for fl, kind in ((F.E | F.U, 'fnmatch'), (F.E | F.S | F.B | F.N | F.U, 'fnmatch'), (G.G | G.E | G.U, 'glob'), (G.G | G.E | G.B | G.S | G.U, 'glob'), (F.E | F.W, 'fnmatch')):
            items.append((p, fl, kind))
    n2 = 0
    for r in pmap(e2e, items):
        if r[0] == 'ok':
            n2 += 1
            chk.case(key=('e2e', n2))
        elif r[0] == 'open':
            chk.leave_open('C20.lang.rawchars', f'{r[1]!r}: {r[4]}')
        else:
            _, p, fl, kind, what = r
            chk.violation(dict(obligation='C20.lang.translate(p,RAWCHARS)==translate(decode(p))', pattern=p, fl=LC.flagnames(fl), mode=kind, witness=what),
                          f'{kind}: pattern {p!r} flags {LC.flagnames(fl)}|RAWCHARS: {what}',
                          f"import sys; sys.path.insert(0, {REPO!r})\nfrom wcmatch import fnmatch, glob\nprint({kind}.translate({p!r}, flags={fl} | {kind}.R))\nsys.exit(1)\n")
    total += fs_clause(chk)
    chk.rule = (f'every string of length <= {length} over the 18-symbol escape alphabet (\\\\ x u U N {{ }} 0 1 7 8 a n / [ * A t) plus hand-picked longer escapes, x RAWCHARS on/off x Windows '
                'normalisation on/off x str/bytes: util.norm_pattern must equal the independent decoder (same result or same exception class); end-to-end: for seeded patterns built from '
                'escapes that decode to metacharacters, the regexes of translate(p, RAWCHARS) are language-equal (ALL names) to those of translate(decode(p))')
    chk.bounds.update(dict(c20_norm_cases=total, c20_e2e_patterns=len(items)))
    chk.sample(dict(pattern='\\x7ba,b\\x7d', decoded='{a,b}', flags='BRACE|RAWCHARS'))


def fs_clause(chk):
    """the file-system walker and the directory walker see RAWCHARS too: glob(p, RAWCHARS) == glob(decode(p)) on a real tree, str and bytes"""
    import os
    from vlib.harness import trees
    from wcmatch import wcmatch as WM
    spec = {'A1': 'f', 'a1': 'f', 'x41': 'f', 'b*': 'f', 'bc': 'f', 'd': 'd', 'd/A2': 'f', 'd/x41': 'f', 'n\n': 'f'}
    pats = ['\\x41*', '\\101*', '\\u0041*', '[\\x41-\\x42]1', 'b\\x2a', 'b\\\\x2a', 'd/\\x41*', '**/\\x41*', '\\x2a', 'n\\n', '{\\x41,\\x61}1', '\\N{LATIN CAPITAL LETTER A}*']
    n = 0
    with trees.Tree(spec) as t:
        for p in pats:
            try:
                dec = rawchars.decode(p, True, False)
            except (SyntaxError, KeyError):
                continue
            for fl in (G.G | G.B, G.G | G.B | G.D):
                n += 1
                chk.case(key=('fs-rawchars', p, fl))
                a = sorted(G.glob(p, flags=fl | G.R | G.U, root_dir=t.root))
                b = sorted(G.glob(dec, flags=fl | G.U, root_dir=t.root))
                ab = sorted(G.glob(p.encode('latin-1'), flags=fl | G.R | G.U, root_dir=os.fsencode(t.root))) if all(ord(c) < 256 for c in p) and '\\u' not in p and '\\N' not in p else None
                ok = a == b and (ab is None or ab == [os.fsencode(x) for x in b])
                if not ok:
                    chk.violation(dict(obligation='C20.bounded.glob(p,RAWCHARS)==glob(decode(p))', pattern=p, fl=LC.flagnames(fl), witness=p),
                                  f'glob({p!r}, RAWCHARS) -> {a[:5]} (bytes: {ab[:5] if ab else ab}) but glob({dec!r}) -> {b[:5]}',
                                  f"import sys; sys.path.insert(0, {REPO!r}); sys.path.insert(0, '/verif')\nfrom wcmatch import glob\nfrom vlib.harness import trees\n"
                                  f"with trees.Tree({spec!r}) as t:\n    a = sorted(glob.glob({p!r}, flags={fl} | glob.R | glob.U, root_dir=t.root))\n    b = sorted(glob.glob({dec!r}, flags={fl} | glob.U, root_dir=t.root))\n"
                                  f"    print(a, b)\n    sys.exit(0 if a == b else 1)\n")
        # WcMatch file patterns
        for p, dec in (('\\x41*', 'A*'), ('b\\x2a', 'b*'), ('\\x2a1', '*1')):
            n += 1
            chk.case(key=('wcmatch-rawchars', p))
            a = sorted(WM.WcMatch(t.root, p, flags=WM.RV | WM.R).match())
            b = sorted(WM.WcMatch(t.root, dec, flags=WM.RV).match())
            if a != b:
                chk.violation(dict(obligation='C20.bounded.WcMatch(p,RAWCHARS)==WcMatch(decode(p))', pattern=p, witness=p), f'WcMatch({p!r}, RAWCHARS) -> {len(a)} files, WcMatch({dec!r}) -> {len(b)}', None)
    return n
