"""C18: bytes and str behave identically - finite twin-constant lemmas, per-pattern language equality on Latin-1, API-level comparisons."""
import random
import re

from vlib import langcheck as LC, patsets, relang as R
from vlib.common import REPO
from vlib.spec import pat as P

F, G, W = LC.F, LC.G, LC.W
L = patsets.L


def twin_constants(chk):
    """every paired (str, bytes) constant: bytes twin == str twin encoded, same flags (finite, complete)"""
    import wcmatch._wcparse as wp
    import wcmatch._wcmatch as wm
    import wcmatch.glob as gl
    from wcmatch import posix, util
    pairs = []
    for mod in (wp, wm, gl):
        for name, val in vars(mod).items():
            if isinstance(val, tuple) and len(val) == 2:
                a, b = val
                if isinstance(a, re.Pattern) and isinstance(b, re.Pattern):
                    pairs.append((f'{mod.__name__}.{name}', a.pattern, b.pattern, a.flags & ~re.U, b.flags & ~re.U))
                elif isinstance(a, str) and isinstance(b, bytes):
                    pairs.append((f'{mod.__name__}.{name}', a, b, 0, 0))
                elif isinstance(a, frozenset) and isinstance(b, frozenset) and all(isinstance(x, str) for x in a):
                    pairs.append((f'{mod.__name__}.{name}', ''.join(sorted(a)), bytes(sorted(b)), 0, 0))
    for name, sa, sb, fa, fb in pairs:
        ob = f'C18:twin.{name}'
        ok = isinstance(sb, bytes) and sa.encode('latin-1') == sb and fa == fb
        chk.obligation(ob, 'proved' if ok else 'refuted', 'finite', 0.0, function=name, detail=repr(sa)[:80])
        if not ok:
            chk.violation(dict(obligation=ob), f'paired constant {name}: bytes twin {sb!r} (flags {fb}) is not the encoded str twin {sa!r} (flags {fa})', None, no_input=True)
    for key in sorted(posix.unicode_posix_properties):
        ob = f'C18:twin.posix[{key}]'
        try:
            u = R.Impl('[' + posix.unicode_posix_properties[key] + ']')
            b = R.Impl(('[' + posix.ascii_posix_properties[key] + ']').encode('latin-1'))
            r = R.equal(b, u, maxc=255)
        except Exception as e:
            chk.leave_open(ob, e)
            continue
        chk.obligation(ob, 'proved' if r is None else 'refuted', 'finite', 0.0, function='posix tables')
        if r is not None:
            chk.violation(dict(obligation=ob, witness=bytes(r[0])), f'ascii_posix_properties[{key!r}] is not unicode_posix_properties[{key!r}] restricted to 0..255 (byte {bytes(r[0])!r})', None, no_input=True)
    # RE_BNORM is RE_NORM minus the u/U/N alternatives (same group structure otherwise)
    ob = 'C18:twin.util.RE_BNORM==RE_NORM_minus_uUN'
    import re as _re
    want = _re.sub(r'U\[[^\]]*\]\{8\}\|u\[[^\]]*\]\{4\}\|', '', util.RE_NORM.pattern).replace("    (\\\\N\\{[^}]*?\\})|\n", '').replace('[^NUux]', '[^x]').replace('[NUux]', '[x]')
    ok = util.RE_BNORM.pattern == want.encode('latin-1')
    chk.obligation(ob, 'proved' if ok else 'refuted', 'finite', 0.0, function='util.RE_BNORM')
    if not ok:
        chk.violation(dict(obligation=ob), f'RE_BNORM is not RE_NORM minus the \\u \\U \\N alternatives: {util.RE_BNORM.pattern!r}', None, no_input=True)


def api_level(chk, tier):
    """f(x) vs f(encode(x)) for the public functions; mixed types raise TypeError"""
    import os
    from vlib.harness import trees
    from wcmatch import wcmatch as WM
    enc = lambda x: x.encode('latin-1') if isinstance(x, str) else [y.encode('latin-1') for y in x]      # noqa: E731
    pats = ['*.txt', 'a?c', '[a-c]*', '!(a)', '{a,b}*', 'a|b*', '\\x41*', '[[:alpha:]]x', '**/a', 'd/*', '!*.txt', ['!x'], ['!*.txt', '!a'], ['*', '!a'], '[z-a]', '[!z-a]']
    names = ['a', 'abc', 'b.txt', 'A', 'x', 'd/a', '.h', 'a\n', '\xe9', 'z']
    flagsets = [0, F.E, F.E | F.N, F.E | F.N | F.A, F.B, F.S, F.R, F.I, F.D | F.E, F.N | F.A | F.M]
    n = 0
    for fl in flagsets:
        for p in pats:
            for api_name, fs, fb in (('fnmatch.filter', lambda: F.filter(names, p, flags=fl), lambda: F.filter(enc(names), enc(p), flags=fl)),
                                     ('glob.globfilter', lambda: G.globfilter(names, p, flags=fl & G.FLAG_MASK), lambda: G.globfilter(enc(names), enc(p), flags=fl & G.FLAG_MASK)),
                                     ('fnmatch.translate', lambda: F.translate(p, flags=fl), lambda: F.translate(enc(p), flags=fl)),
                                     ('fnmatch.is_magic', lambda: F.is_magic(p if isinstance(p, str) else p[0], flags=fl), lambda: F.is_magic(enc(p if isinstance(p, str) else p[0]), flags=fl))):
                def run1(f):
                    try:
                        return ('ok', f())
                    except Exception as e:
                        return ('exc', type(e).__name__)
                a, b = run1(fs), run1(fb)
                n += 1
                chk.case(key=(api_name, str(p), fl))
                same = a[0] == b[0] and (a[1] == b[1] if a[0] == 'exc' else _same(a[1], b[1], api_name))
                if not same:
                    chk.violation(dict(obligation='C18.bounded.str_vs_bytes_api', api=api_name, pattern=str(p), flags=fl),
                                  f'{api_name}(pattern={p!r}, flags={fl}): str gives {str(a)[:120]}, bytes gives {str(b)[:120]}',
                                  f"import sys; sys.path.insert(0, {REPO!r})\nfrom wcmatch import fnmatch, glob\n# {api_name} pattern={p!r} flags={fl}\nsys.exit(1)\n")
    for s in ['a*b', 'a[b', '~x', 'c:/x*', '//h/s/*', 'a\\b', '-a!b', '{a}|b']:
        for esc, kw in ((F.escape, {}), (G.escape, {}), (G.escape, dict(unix=False)), (G.escape, dict(unix=True))):
            n += 1
            chk.case(key=('escape', s, str(kw)))
            if esc(s, **kw).encode('latin-1') != esc(s.encode('latin-1'), **kw):
                chk.violation(dict(obligation='C18.bounded.escape_bytes', pattern=s), f'escape({s!r}, {kw}) differs between str and bytes', None)
    # mixed types raise TypeError
    import tempfile
    tdir = tempfile.mkdtemp(prefix='wcv-c18-')
    open(os.path.join(tdir, 'a.txt'), 'w').close()
    mixed = [
        ("fnmatch.fnmatch('a', b'a')", lambda: F.fnmatch('a', b'a')), ("fnmatch.fnmatch(b'a', 'a')", lambda: F.fnmatch(b'a', 'a')), ("glob.globmatch('a', b'a')", lambda: G.globmatch('a', b'a')),
        ("glob.glob('a', root_dir=b'.')", lambda: G.glob('a', root_dir=b'.')), ("glob.glob(b'a', root_dir='.')", lambda: G.glob(b'a', root_dir='.')),
        ("glob.globmatch('a', b'a', flags=glob.P)", lambda: G.globmatch('a', b'a', flags=G.P)), ("glob.globmatch(b'a', b'a', flags=glob.P, root_dir='.')", lambda: G.globmatch(b'a', b'a', flags=G.P, root_dir='.')),
        ("fnmatch.filter(['a'], b'a')", lambda: F.filter(['a'], b'a')), ("glob.globmatch(b'a', b'a', flags=glob.P, root_dir='')", lambda: G.globmatch(b'a', b'a', flags=G.P, root_dir='')),
        ("glob.globmatch('a', 'a', flags=glob.P, root_dir=b'')", lambda: G.globmatch('a', 'a', flags=G.P, root_dir=b'')),
        ("glob.globfilter([b'a'], b'a', flags=glob.P, root_dir='')", lambda: G.globfilter([b'a'], b'a', flags=G.P, root_dir='')),
        ("glob.compile(b'a', flags=glob.P).match(b'a', root_dir='')", lambda: G.compile(b'a', flags=G.P).match(b'a', root_dir='')),
        ("glob.glob('a', root_dir=b'')", lambda: G.glob('a', root_dir=b'')), ("glob.glob(b'a', root_dir='')", lambda: G.glob(b'a', root_dir='')),
        # the directory walker: a str root with a bytes pattern (or the reverse) must not silently return an answer
        ("wcmatch.WcMatch(TMP, b'*.txt').match()", lambda: WM.WcMatch(tdir, b'*.txt').match()), ("wcmatch.WcMatch(os.fsencode(TMP), '*.txt').match()", lambda: WM.WcMatch(os.fsencode(tdir), '*.txt').match()),
        ("wcmatch.WcMatch(TMP, '*.txt', b'x', flags=wcmatch.RV).match()", lambda: WM.WcMatch(tdir, '*.txt', b'x', flags=WM.RV).match()),
        # empty names of the wrong type
        ("fnmatch.fnmatch(b'', '*')", lambda: F.fnmatch(b'', '*')), ("glob.globmatch('', b'*')", lambda: G.globmatch('', b'*')), ("fnmatch.filter([b''], '*')", lambda: F.filter([b''], '*')),
    ]
    try:
        for what, call in mixed:
            n += 1
            chk.case(key=('mixed', what))
            try:
                r = call()
                chk.violation(dict(obligation='C18.bounded.mixed_types_raise_TypeError', call=what, witness=what), f'the mixed str/bytes call {what} returned {r!r} instead of raising TypeError',
                              f"import sys, os, tempfile; sys.path.insert(0, {REPO!r})\nfrom wcmatch import fnmatch, glob, wcmatch\nTMP = tempfile.mkdtemp()\nopen(os.path.join(TMP, 'a.txt'), 'w').close()\n"
                              f"try:\n    print({what})\nexcept TypeError as e:\n    print('TypeError', e); sys.exit(0)\nsys.exit(1)\n")
            except TypeError:
                pass
    finally:
        os.remove(os.path.join(tdir, 'a.txt'))
        os.rmdir(tdir)
    # RAWCHARS in bytes patterns: every byte value written as an octal or hex escape denotes exactly that byte; ASCII ones agree with str
    allb = [bytes([v]) for v in range(256)]
    for v in range(256):
        for form, pt in (('octal', b'\\%03o' % v), ('hex', b'\\x%02x' % v), ('octal-in-bracket', b'[\\%03o]' % v)):
            n += 1
            chk.case(key=('rawbyte', form, v))
            try:
                got = F.filter(allb, pt, flags=F.R | F.C | F.D)
            except Exception as e:
                got = f'{type(e).__name__}: {e}'
            # a decoded metacharacter acts as one (C20): those values are not expected to denote themselves
            meta = bytes([v]) in (b'!^\\]-[:' if form == 'octal-in-bracket' else b'*?[]\\!|()-^')
            if got != [bytes([v])] and not meta:
                chk.violation(dict(obligation='C18.bounded.RAWCHARS_byte_escape_denotes_that_byte', pattern=pt.decode('latin-1'), form=form),
                              f'fnmatch.filter(all 256 single bytes, {pt!r}, RAWCHARS|CASE|DOTMATCH) -> {got if isinstance(got, str) else got[:4]} instead of [{bytes([v])!r}]',
                              f"import sys; sys.path.insert(0, {REPO!r})\nfrom wcmatch import fnmatch\ngot = fnmatch.filter([bytes([v]) for v in range(256)], {pt!r}, flags=fnmatch.R | fnmatch.C | fnmatch.D)\nprint(got)\nsys.exit(0 if got == [{bytes([v])!r}] else 1)\n")
    # bytes >= 0x80 in DIRECTORY and file names: Latin-1 code units, matched per byte (brackets, ranges, POSIX classes, ?)
    import tempfile
    import shutil
    tmpd = tempfile.mkdtemp(prefix='c18-').encode()
    try:
        names = [b'\xe9d/f.txt', b'\xf5d/f.txt', b'zd/f.txt', b'\xe0d/\xe9.txt', b'ad/g']
        for nm in names:
            os.makedirs(os.path.join(tmpd, os.path.dirname(nm)), exist_ok=True)
            open(os.path.join(tmpd, nm), 'w').close()
        import re as _re
        for pt, rx in ((b'\xe9d/*', b'\xe9d/[^/]+'), (b'[\xe0-\xef]d/*', b'[\xe0-\xef]d/[^/]+'), (b'[!\xe9z]d/*', b'[^\xe9z/]d/[^/]+'), (b'?d/f.txt', b'[^/]d/f\\.txt'),
                       (b'\xe0d/\xe9*', b'\xe0d/\xe9[^/]*'), (b'*d/[\xe0-\xff].txt', b'[^/]*d/[\xe0-\xff]\\.txt'), (b'**/\xe9*', b'(.*/)?\xe9[^/]*'), (b'[[:alpha:]\xf5]d/f*', b'[a-zA-Z\xf5]d/f[^/]*'),
                       (b'{\xe9,\xf5}d/*', b'[\xe9\xf5]d/[^/]+'), (b'\xe9d/', b'\xe9d/')):
            n += 1
            chk.case(key=('tree-nonascii', pt))
            every = [d + b'/' for d in (b'\xe9d', b'\xf5d', b'zd', b'\xe0d', b'ad')] + names + [b'\xe9d', b'\xf5d', b'zd', b'\xe0d', b'ad']
            want = sorted(x for x in every if _re.fullmatch(rx, x, _re.S) and (x.endswith(b'/') == pt.endswith(b'/')))
            try:
                got = sorted(G.glob(pt, flags=G.G | G.B | G.U, root_dir=tmpd))
            except Exception as e:
                got = f'{type(e).__name__}: {e}'
            if got != want:
                chk.violation(dict(obligation='C18.bounded.glob_non_ASCII_bytes_are_Latin-1_code_units', pattern=pt.decode('latin-1'), witness=pt.decode('latin-1')),
                              f'glob({pt!r}, GLOBSTAR|BRACE) on a tree with the names {names}: {got} instead of {want}',
                              f"import sys, os, tempfile; sys.path.insert(0, {REPO!r})\nfrom wcmatch import glob\nd = tempfile.mkdtemp().encode()\nfor nm in {names!r}:\n    os.makedirs(os.path.join(d, os.path.dirname(nm)), exist_ok=True); open(os.path.join(d, nm), 'w').close()\n"
                              f"got = sorted(glob.glob({pt!r}, flags=glob.G | glob.B | glob.U, root_dir=d))\nprint(got)\nsys.exit(0 if got == {want!r} else 1)\n")
    finally:
        shutil.rmtree(tmpd, ignore_errors=True)
    # glob / WcMatch on trees with str vs bytes roots: same paths in the same order
    for tname in ('basic', 'links') if tier == 'quick' else trees.NAMED:
        with trees.Tree(trees.NAMED[tname]) as t:
            for p in ['*', '**', '**/a', 'd/*', '*.txt', '.*', '**/*.txt', '{a,d/*}', ['*', '!a'], ['!a']]:
                for fl in (G.G, G.G | G.D, G.G | G.B | G.N | G.A, G.G | G.K):
                    n += 1
                    chk.case(key=('tree-glob', tname, str(p), fl))
                    a = G.glob(p, flags=fl, root_dir=t.root)
                    b = G.glob(enc(p), flags=fl, root_dir=os.fsencode(t.root))
                    if [os.fsencode(x) for x in a] != b:
                        chk.violation(dict(obligation='C18.bounded.glob_bytes_root', tree=tname, pattern=str(p), flags=fl), f'glob({p!r}) on {tname}: str {a[:5]} vs bytes {b[:5]}', None)
                    # the same with the root given as a directory descriptor (scandir on a descriptor yields str names whatever the pattern type is)
                    fd = os.open(t.root, os.O_RDONLY | os.O_DIRECTORY)
                    try:
                        try:
                            bfd = G.glob(enc(p), flags=fl, dir_fd=fd)
                        except Exception as e:
                            bfd = f'{type(e).__name__}: {e}'
                    finally:
                        os.close(fd)
                    n += 1
                    if bfd != b:
                        chk.violation(dict(obligation='C18.bounded.glob_bytes_dir_fd', tree=tname, pattern=str(p), flags=fl, witness=str(p)),
                                      f'glob({enc(p)!r}, dir_fd=<root>) on {tname}: {str(bfd)[:120]} but with root_dir=<bytes root>: {b[:5]}',
                                      f"import sys, os; sys.path.insert(0, {REPO!r}); sys.path.insert(0, '/verif')\nfrom wcmatch import glob\nfrom vlib.harness import trees\n"
                                      f"with trees.Tree(trees.NAMED[{tname!r}]) as t:\n    fd = os.open(t.root, os.O_RDONLY | os.O_DIRECTORY)\n    b = glob.glob({enc(p)!r}, flags={fl}, root_dir=os.fsencode(t.root))\n"
                                      f"    try:\n        a = glob.glob({enc(p)!r}, flags={fl}, dir_fd=fd)\n    except Exception as e:\n        a = repr(e)\n    print(a, b)\n    sys.exit(0 if a == b else 1)\n")
            # folder-exclude patterns, also under DIRPATHNAME (directories are shown with a separator of the root's type)
            for ep, fl in (('d', WM.RV), ('d', WM.RV | WM.DP), ('d/e|c', WM.RV | WM.DP | WM.G), ('**/e', WM.RV | WM.DP | WM.G), ('.*', WM.RV | WM.HD | WM.DP)):
                n += 1
                chk.case(key=('tree-wcmatch-exclude', tname, ep, fl))
                wa = WM.WcMatch(t.root, '*', ep, flags=fl)
                wb = WM.WcMatch(os.fsencode(t.root), b'*', ep.encode(), flags=fl)
                a, b = wa.match(), wb.match()
                if [os.fsencode(x) for x in a] != b or wa.get_skipped() != wb.get_skipped():
                    chk.violation(dict(obligation='C18.bounded.wcmatch_bytes_root', tree=tname, pattern='* excluding ' + ep, flags=fl, witness=ep),
                                  f'WcMatch("*", exclude {ep!r}, flags={fl:#x}) on {tname}: str {len(a)} files / skipped {wa.get_skipped()}, bytes {len(b)} / {wb.get_skipped()}',
                                  f"import sys, os; sys.path.insert(0, {REPO!r}); sys.path.insert(0, '/verif')\nfrom wcmatch import wcmatch\nfrom vlib.harness import trees\n"
                                  f"with trees.Tree(trees.NAMED[{tname!r}]) as t:\n    a = wcmatch.WcMatch(t.root, '*', {ep!r}, flags={fl}).match()\n    b = wcmatch.WcMatch(os.fsencode(t.root), b'*', {ep.encode()!r}, flags={fl}).match()\n"
                                  f"    print(len(a), len(b))\n    sys.exit(0 if [os.fsencode(x) for x in a] == b else 1)\n")
            for fp in ['*.txt', '*', '!*.txt', 'a|!b*', '', None]:
                for fl in (WM.RV, WM.RV | WM.HD, WM.RV | WM.FP | WM.G):
                    n += 1
                    chk.case(key=('tree-wcmatch', tname, fp, fl))
                    wa = WM.WcMatch(t.root, fp, flags=fl)
                    wb = WM.WcMatch(os.fsencode(t.root), fp.encode() if fp is not None else None, flags=fl)
                    a, b = wa.match(), wb.match()
                    if [os.fsencode(x) for x in a] != b or wa.get_skipped() != wb.get_skipped():
                        chk.violation(dict(obligation='C18.bounded.wcmatch_bytes_root', tree=tname, pattern=fp, flags=fl),
                                      f'WcMatch({fp!r}, flags={fl:#x}) on {tname}: str {len(a)} files / skipped {wa.get_skipped()}, bytes {len(b)} / {wb.get_skipped()}',
                                      f"import sys, os; sys.path.insert(0, {REPO!r}); sys.path.insert(0, '/verif')\nfrom wcmatch import wcmatch\nfrom vlib.harness import trees\n"
                                      f"with trees.Tree(trees.NAMED[{tname!r}]) as t:\n    print(wcmatch.WcMatch(t.root, {fp!r}, flags={fl}).match())\n    print(wcmatch.WcMatch(os.fsencode(t.root), {(fp.encode() if fp is not None else None)!r}, flags={fl}).match())\nsys.exit(1)\n")
    return n


def _same(a, b, api):
    if api.endswith('translate'):
        try:
            if [[x.encode('latin-1') for x in part] for part in a] == [list(part) for part in b]:
                return True
        except UnicodeEncodeError:
            pass            # POSIX class tables differ in text (0x10ffff vs 0xff): compare the languages on 0..255
        return _lang_same(a, b)
    if api.endswith('filter'):
        return [x.encode('latin-1') for x in a] == b
    return a == b


def _lang_same(a, b):
    try:
        for xs, ys in zip(a, b):
            if len(xs) != len(ys):
                return False
            for x, y in zip(xs, ys):
                if R.equal(R.Impl(y), R.Impl(x), maxc=255) is not None:
                    return False
        return True
    except Exception:
        return False


def run(chk, tier, seed):
    twin_constants(chk)
    items = []
    extra = [(('br', neg, items_),) for neg in (False, True) for items_ in ((('rng', 'z', 'a'),), (('rng', 'z', 'a'), ('rng', 'c', 'b')), (('rng', 'z', 'a'), ('ch', 'q')))]
    extra += [(('br', neg, (('posix', nm),)),) for neg in (False, True) for nm in sorted(P.POSIX)]
    npats = patsets.name_patterns(tier)[:: (3 if tier == 'quick' else 1)] + extra
    ppats = patsets.path_patterns(tier)[:: (4 if tier == 'quick' else 1)]
    for fl in (F.E | F.U, F.E | F.D | F.U, F.E | F.I | F.U, F.E | F.W, F.U):
        for p in npats:
            items.append(('C18', 'C18.lang.bytes==str', p, fl, False, 'fnmatch', chk.known))
    for fl in (G.G | G.E | G.U, G.G | G.E | G.D | G.U, G.X | G.G | G.E | G.U, G.G | G.E | G.O | G.U, G.G | G.E | G.W):
        for p in ppats:
            items.append(('C18', 'C18.lang.bytes==str', p, fl, False, 'glob', chk.known))
    counts, secs = LC.run_items(chk, LC.bytes_item, items)
    n = api_level(chk, tier)
    from checks import fixed_clauses
    fixed_clauses.str_bytes_twins(chk)
    fixed_clauses.bytes_without_inclusions(chk)
    chk.rule = ('finite: every paired (str, bytes) constant and POSIX table entry compared completely; L: one case = one (ASCII pattern, flags): the bytes regex and the str regex '
                'are language-equal over ALL byte strings (alphabet 0..255), incl. every POSIX class, reversed ranges; B: API-level f(x) vs f(encode(x)) for filter / globfilter / '
                'translate / is_magic / escape, mixed-type calls, glob and WcMatch on trees with str vs bytes roots (same order)')
    chk.bounds.update(dict(c18_lang_items=len(items), c18_outcomes=counts, c18_api_cases=n))
    chk.sample(dict(pattern='[![:alpha:]]', flags='EXTMATCH', alphabet='0..255'))
