"""C09: escape makes any string literal; non-magic patterns are literal.
finite : for all subsets of the feature flags x unix/windows x str/bytes, _get_magic_symbols(flags) is a subset of the characters
         RE_MAGIC_ESCAPE escapes (drive symbols: RE_WIN_DRIVE_MAGIC) - complete enumeration.
L      : for every string s of the stated alphabet/length and every flag set, translate(escape(s), flags) is exactly one inclusion
         regex whose language is {s} modulo the stated equivalences (case class, / == \\ under FORCEWIN, separator runs and
         trailing separators in path mode) - an exact singleton check; conversely not is_magic(p) => Lang(p) == {p}."""
import itertools
import random

from vlib import langcheck as LC, lang, relang as R
from vlib.common import REPO
from vlib.par import pmap
from vlib.spec import den as D

F, G, W = LC.F, LC.G, LC.W
ALPHA = ['a', 'B', '.', '*', '?', '[', ']', '(', ')', '|', '{', '}', '!', '-', '~', '\\', '/', '\n', '@', '+', '\xe9', ',']
SMALL = ['a', '.', '*', '[', ']', '(', '|', '!', '\\', '/', '-', '~']


def finite(chk):
    import wcmatch._wcparse as wp
    feats = [wp.BRACE, wp.SPLIT, wp.GLOBTILDE, wp.EXTMATCH, wp.NEGATE, wp.MINUSNEGATE]
    for r in range(len(feats) + 1):
        for sub in itertools.combinations(feats, r):
            fl = 0
            for x in sub:
                fl |= x
            for unix in (True, False):
                for ptype, sample in ((0, 'x'), (1, b'x')):
                    magic, drive = wp._get_magic_symbols(sample, unix, fl)
                    ob = f'C09:finite.magic_symbols_are_escaped[flags={fl:#x},unix={unix},{"bytes" if ptype else "str"}]'
                    bad = []
                    for c in magic:
                        cc = bytes([c]) if isinstance(c, int) else c
                        esc = wp.RE_MAGIC_ESCAPE[ptype].sub(br'\\\1' if ptype else r'\\\1', cc)
                        if esc != (b'\\' if ptype else '\\') + cc:
                            bad.append(cc)
                    for c in drive:
                        cc = bytes([c]) if isinstance(c, int) else c
                        esc = wp.RE_WIN_DRIVE_MAGIC[ptype].sub(br'\\\1' if ptype else r'\\\1', cc)
                        if esc != (b'\\' if ptype else '\\') + cc:
                            bad.append(('drive', cc))
                    chk.obligation(ob, 'proved' if not bad else 'refuted', 'finite', 0.0, function='_wcparse._get_magic_symbols / RE_MAGIC_ESCAPE')
                    if bad:
                        chk.violation(dict(obligation=ob, witness=str(bad)), f'magic symbol(s) {bad} are not escaped by RE_MAGIC_ESCAPE / RE_WIN_DRIVE_MAGIC (flags {fl:#x}, unix={unix})',
                                      f"import sys; sys.path.insert(0, {REPO!r})\nfrom wcmatch import fnmatch, glob\nfor c in {[x if not isinstance(x, tuple) else x[1] for x in bad]!r}:\n"
                                      f"    print(c, fnmatch.escape(c), glob.escape(c))\nsys.exit(1)\n")


def literal_lang(s, m, which='may'):
    """{s} modulo the stated equivalences, as a Spec node.  must: the spelling of s itself with either separator spelling under
    FORCEWIN and case folding, trailing separators tolerated; may: additionally every separator run may have any length >= 1."""
    if not m.path:
        return R.s_cat(*[m.lit(c) for c in s]) if s else R.S1
    seps = '/\\' if m.win else '/'
    node = R.S1
    i = 0
    n = len(s)
    while i < n:
        if s[i] in seps:
            j = i
            while j < n and s[j] in seps:
                j += 1
            run = j - i
            if which == 'may':
                node = R.s_cat(node, R.s_plus(m.SEP))
            else:
                node = R.s_cat(node, *([m.SEP] * run))
            i = j
        else:
            node = R.s_cat(node, R.s_cls(m.fold([(ord(s[i]), ord(s[i]))])))
            i += 1
    return R.s_cat(node, R.s_star(m.SEP))


def esc_chunk(args):
    strings, flagsets, known = args
    out = []
    for kind in ('fnmatch', 'glob'):
        api = F if kind == 'fnmatch' else G
        for fl in flagsets:
            if kind == 'fnmatch':
                fl = fl & F.FLAG_MASK
            path = kind == 'glob'
            m = LC.mode_from_flags(fl, path)
            win = m.win
            for s in strings:
                for direct in (False, True):
                    rec = lang._Rec(known)
                    try:
                        if direct:
                            if api.is_magic(s, flags=fl) or fl & W.MATCHBASE:
                                continue
                            pat = s
                            ob = f'C09.lang.{kind}.non_magic_pattern_is_literal'
                        else:
                            pat = api.escape(s) if kind == 'fnmatch' else api.escape(s, unix=not win)
                            ob = f'C09.lang.{kind}.escape(s)_matches_exactly_s'
                        pos, neg = api.translate(pat, flags=fl)
                        sig = dict(pattern=pat, string=s, flags=fl, fl=LC.flagnames(fl), mode=kind)
                        if len(pos) != 1 or neg:
                            rec.violation(dict(sig, obligation=ob + '.one_inclusion_regex', witness=s), f'{kind}: pattern {pat!r} (from {s!r}) under {LC.flagnames(fl)} expands to {len(pos)}+{len(neg)} regexes',
                                          f"import sys; sys.path.insert(0, {REPO!r})\nfrom wcmatch import {kind}\nprint({kind}.translate({pat!r}, flags={fl}))\nsys.exit(1)\n")
                            out.append(('violation', rec.ops))
                            continue
                        must = R.Spec(literal_lang(s, m, 'must'), m.maxc)
                        may = R.Spec(literal_lang(s, m, 'may'), m.maxc)
                        dom = R.Spec(D.dom_nonempty(m), m.maxc)
                        call = 'fnmatch.fnmatch' if kind == 'fnmatch' else 'glob.globmatch'
                        st = lang.decide(rec, ob, pos[0], must, may, dom, sig, native=(lambda w: (F.fnmatch if kind == 'fnmatch' else G.globmatch)(w, pat, flags=fl)),
                                         expect_fmt=LC.replay_fn(call, pat, fl))
                        out.append((st, rec.ops))
                    except (R.Unsupported, R.StateLimit, TimeoutError) as e:
                        out.append(('open', [('leave_open', ('C09.lang', f'{e} on {s!r} {fl}'))]))
                    except Exception:
                        import traceback
                        out.append(('broken', [('broke', (f'C09 {kind} {s!r} flags={fl}: ' + traceback.format_exc()[-800:],))]))
    return out


def run(chk, tier, seed):
    finite(chk)
    rnd = random.Random(seed * 43 + 1)
    strings = [''.join(t) for n in (1, 2) for t in itertools.product(ALPHA, repeat=n)]
    strings += [''.join(t) for t in itertools.product(SMALL, repeat=3)] if tier != 'quick' else [''.join(rnd.choice(SMALL) for _ in range(3)) for _ in range(300)]
    strings += ['c:/a*', '//host/share/a[b', '//?/UNC/h/s/x*', '//?/c:/x|y', 'c:', '//h/s', 'a/./b', './a', '../*', 'a//b/', '/abs/*x', '~user/x', '-a', '!a', 'a\\b', 'a\\\\b', '.\n',
                '//?/UNC/server/sh*re/file', '//./UNC/se[r]ver/share/f', '//?/GLOBAL/UNC/h/s?/x', '//?/unc/h/s(a)/x', '//?/Unc/h*/s/x',
                '//?/GLOBAL/UNC/srv[1]/share/file.txt', '//?/GLOBAL/GLOBAL/dev*/x', '//?/GLOBAL/UNC/ser*ver/sh/f', '//a|b/sh*re/x', '//a}b/sh[1]/x', '//a{b/s?/x', '\\\\a}b\\sh[1]\\x', '//h{1,2}/s*/x',
                # three or more leading separators are NOT a UNC prefix: the metacharacters behind them are ordinary magic
                '///[a]/x', '///srv*/share?/f', '////h/s*/x', '\\\\\\[a]\\x', '///a/b(c)/d|e',
                ''.join(rnd.choice(ALPHA) for _ in range(8)), ''.join(rnd.choice(ALPHA) for _ in range(12))]
    for c in '*?[(|{!-~':
        strings += ['a//' + c + 'b', 'a\\/' + c + 'b', 'a/\\' + c, 'a///' + c, 'a/' + c + '//' + c, c + '//' + c]
    strings = [s for s in dict.fromkeys(strings) if s]
    feature = [W.EXTMATCH, W.BRACE, W.SPLIT, W.NEGATE, W.MINUSNEGATE, W.NEGATEALL, W.GLOBTILDE, W.GLOBSTAR, W.DOTMATCH, W.NODOTDIR, W.RAWCHARS, W.IGNORECASE]
    flagsets = [W.FORCEUNIX, W.FORCEUNIX | sum(feature), W.FORCEWIN, W.FORCEWIN | sum(feature)]
    flagsets += [W.FORCEUNIX | f for f in feature] + [W.FORCEWIN | f for f in feature[:4]]
    for _ in range(10 if tier == 'quick' else 60):
        fl = rnd.choice([W.FORCEUNIX, W.FORCEUNIX, W.FORCEWIN])
        for f in feature:
            if rnd.random() < 0.4:
                fl |= f
        flagsets.append(fl)
    if tier == 'quick':
        flagsets = flagsets[:4] + flagsets[4:: 2]
    jobs = [(strings[i:i + 40], flagsets, chk.known) for i in range(0, len(strings), 40)]
    n = 0
    counts = {}
    for res in pmap(esc_chunk, jobs, chunk=1):
        for st, ops in res:
            counts[st] = counts.get(st, 0) + 1
            lang.apply_ops(chk, ops)
            if st in ('proved', 'known', 'violation'):
                n += 1
                chk.case(key=('esc', n))
    chk.rule = ('finite: all 64 subsets of {BRACE,SPLIT,GLOBTILDE,EXTMATCH,NEGATE,MINUSNEGATE} x unix/windows x str/bytes; L: every string of length <= 2 over a 22-symbol alphabet (all '
                'metacharacters, backslash, /, ., ~, -, !, newline, a non-ASCII letter) plus length-3 strings over 12 symbols and drive/UNC shapes, x 4 fixed + each single feature flag + seeded '
                'random flag subsets x {fnmatch, glob}: translate(escape(s)) is one regex with language exactly {s} modulo case class / separator equivalences; and non-magic patterns are literal')
    chk.bounds.update(dict(c09_strings=len(strings), c09_flagsets=len(flagsets), c09_outcomes=counts))
    chk.sample(dict(string='a*[', escaped='a\\*\\[', flags='EXTMATCH|BRACE'))
    fs_clause(chk, tier)
    # platform-default mode: with unix=None escape follows the platform the interpreter runs on (here: not Windows => the Unix rules)
    import sys as _sys
    if not _sys.platform.startswith('win'):
        nd = 0
        for sx in strings + ['//a*/b/c', '//[ab]/c/d', '//h/s(1)/x', '//?/c:/x*', '//a-b/c!/d']:
            for val in (sx, sx.encode('latin-1', 'replace')):
                nd += 1
                if G.escape(val) != G.escape(val, unix=True):
                    chk.violation(dict(obligation='C09.bounded.escape_default_mode_is_the_platform_mode', pattern=sx, witness=sx),
                                  f'glob.escape({val!r}) = {G.escape(val)!r} but under the Unix rules of this platform it must be {G.escape(val, unix=True)!r}',
                                  f"import sys; sys.path.insert(0, {REPO!r})\nfrom wcmatch import glob\na, b = glob.escape({val!r}), glob.escape({val!r}, unix=True)\nprint(a, b)\nsys.exit(0 if a == b else 1)\n")
        chk.case(key='escape-default', n=nd)


def fs_job(args):
    """glob(escape(e)) on a real tree whose names are full of metacharacters returns exactly [e] (str and bytes)."""
    import os
    from vlib.harness import trees
    flagsets = args
    bad = []
    n = 0
    with trees.Tree(trees.ODD) as t:
        ents = sorted(t.entries())
        for fl in flagsets:
            for e in ents:
                n += 1
                try:
                    got = G.glob(G.escape(e), flags=fl | G.U, root_dir=t.root)
                    gotb = G.glob(G.escape(os.fsencode(e)), flags=fl | G.U, root_dir=os.fsencode(t.root))
                except Exception as ex:
                    bad.append((e, fl, f'raises {type(ex).__name__}: {ex}'))
                    continue
                if [x.rstrip('/') for x in got] != [e] or [x.rstrip(b'/') for x in gotb] != [os.fsencode(e)]:
                    bad.append((e, fl, f'glob(escape) -> {got} / {gotb}'))
    return n, bad


def fs_clause(chk, tier):
    feats = [G.E, G.B, G.S, G.N, G.M, G.T, G.G, G.D, G.K, G.R, G.R | G.E | G.B]    # RAWCHARS: an escaped backslash stays an escaped backslash (str and bytes)     # not MATCHBASE: a slash-less name then matches at any depth by design
    flagsets = [0, G.E | G.B | G.S | G.N | G.T | G.G, G.E | G.B | G.S | G.N | G.M | G.T | G.G | G.D] + feats
    (n, bad), = [fs_job(flagsets)]
    chk.case(key='fs-escape', n=n)
    for i in range(n):
        chk.nontrivial.add(('fs-escape', i))
    for e, fl, what in bad:
        chk.violation(dict(obligation='C09.bounded.glob(escape(name))_returns_exactly_that_file', pattern=e, fl=LC.flagnames(fl), witness=e),
                      f'tree odd, name {e!r}, flags {LC.flagnames(fl)}: {what}',
                      f"import sys; sys.path.insert(0, {REPO!r}); sys.path.insert(0, '/verif')\nfrom wcmatch import glob\nfrom vlib.harness import trees\n"
                      f"with trees.Tree(trees.ODD) as t:\n    got = glob.glob(glob.escape({e!r}), flags={fl} | glob.U, root_dir=t.root)\n    print(got)\n    sys.exit(0 if [x.rstrip('/') for x in got] == [{e!r}] else 1)\n")
    chk.bounds.update(dict(c09_fs_cases=n))
    chk.rule += ('; FS: on a real tree whose 16 names contain \\\\ * [ ] { } | ! - ~ , glob(escape(name)) returns exactly that entry, str and bytes, under 12 flag sets')
