"""C04 bounded part: globmatch(REALPATH) accepts exactly what glob returns, on generated trees."""
import random

from vlib.common import REPO
from vlib.par import pmap
from vlib.harness import trees, globrun

G = globrun.G
FLAGSETS = {'G': G.G, 'G|D': G.G | G.D, 'G|E': G.G | G.E, 'E': G.E, 'X|G|E': G.X | G.G | G.E, 'G|L': G.G | G.L, 'GL|E': G.GL | G.E, 'G|O': G.G | G.O,
            'G|I': G.G | G.I, 'GL|L|E': G.GL | G.L | G.E, 'G|E|N': G.G | G.E | G.N, 'X|GL': G.X | G.GL}


def run(chk, tier, seed):
    pats = globrun.small_patterns()
    fsets = ['G', 'G|D', 'G|E', 'X|G|E', 'G|L', 'GL|E', 'G|O', 'X|GL'] if tier == 'quick' else list(FLAGSETS)
    specs = {k: trees.NAMED[k] for k in (('links', 'basic', 'deep2', 'acyclic', 'relink', 'loops') if tier == 'quick' else trees.NAMED)}
    rnd = random.Random(seed * 17 + 4)
    for i in range(2 if tier == 'quick' else 30):
        specs[f'random{i}'] = trees.random_spec(rnd, 7)
    items = []
    for tname, spec in specs.items():
        cases = [(p, FLAGSETS[fs], None) for fs in fsets for p in pats]
        cases += [(p, G.G | G.E, 'd/**') for p in pats[::4]] + [(p, G.G, ['*.txt', '.*']) for p in pats[::5]]
        # exclusions must see hidden names although the inclusion flags do not (DOTMATCH is forced on the exclusion route)
        hidden_pats = [p for p in pats if any(t == ('lit', '.') for t in p)]
        cases += [(p, G.G, e) for p in hidden_pats + pats[5:8] for e in ('*', '**/*', ['**/?*'])]
        # NEGATEALL: exclusions alone stand for "everything (recursively) except" - with and without GLOBSTAR in the flags
        cases += [(p, fl, None) for p in ('!*.txt', '!a', '!d/**', '!**/x') for fl in (G.N | G.A, G.N | G.A | G.G, G.N | G.A | G.D)]
        for i in range(0, len(cases), 60):
            items.append((tname, spec, cases[i:i + 60]))
    n = 0
    for res in pmap(globrun.globmatch_vs_glob, items, chunk=1):
        for r in res:
            if r['kind'] == 'error':
                chk.broke(f'C04 harness crashed: {r["tree"]} {r["pattern"]!r} {r["fl"]}: {r["error"]}')
                continue
            base = dict(tree=r['tree'], pattern=r['pattern'], fl=r['fl'], exclude=r['exclude'])
            rp = replay(r, specs)
            if r['kind'] == 'timeout':
                chk.violation(dict(base, obligation='C04.bounded.terminates'), f'glob/globmatch({r["pattern"]!r}, {r["fl"]}) on {r["tree"]} timed out', rp)
            elif r['kind'] in ('nonexistent-matches', 'relative-pattern-matches-absolute-path'):
                chk.violation(dict(base, obligation='C04.bounded.' + r['kind'], witness=r['witness']),
                              f'globmatch({r["witness"]!r}, {r["pattern"]!r}, {r["fl"]}|REALPATH) is True on tree {r["tree"]} ({r["kind"]})', rp)
            elif r['kind'] == 'globfilter-differs-from-globmatch':
                chk.violation(dict(base, obligation='C04.bounded.globfilter==globmatch_per_candidate', witness=r['witness']),
                              f'tree {r["tree"]} pattern {r["pattern"]!r} flags {r["fl"]}|REALPATH: globfilter and globmatch disagree on {r["witness"]!r}', rp)
            else:
                n += 1
                chk.case(key=(r['tree'], r['pattern'], r['flags'], str(r['exclude'])), nontrivial=r['n'] > 0 or bool(r['only_match']))
                for kind in ('only_glob', 'only_match'):
                    if r[kind]:
                        what = (f'tree {r["tree"]} pattern {r["pattern"]!r} flags {r["fl"]} exclude {r["exclude"]}: ' +
                                (f'glob returns {r[kind][:5]} but globmatch(REALPATH) rejects them' if kind == 'only_glob'
                                 else f'globmatch(REALPATH) accepts {r[kind][:5]} which glob does not return'))
                        chk.violation(dict(base, obligation='C04.bounded.glob==globmatch(REALPATH)', kind=kind, witness=r[kind][0], paths=r[kind][:5],
                                                link_is_written=str(trees.link_is_written(specs[r['tree']], r[kind][0], r['pattern']))), what, rp)
    from checks import fixed_clauses
    fixed_clauses.newline_names(chk, 'C04')
    chk.rule = ('bounded stand-in: for every (tree, pattern, flags[, exclude]) the set glob() returns (trailing separators ignored) is compared with the set of candidates '
                '(every entry of the tree, every directory also with a trailing separator, everything glob returned, absent names) that globmatch(..., REALPATH, same root) '
                'accepts; plus: a nonexistent path never matches, a relative pattern never matches an absolute spelling; non-trivial = non-empty result')
    chk.bounds.update(dict(c04_trees=len(specs), c04_patterns=len(pats), c04_flagsets=fsets, c04_cases=n))
    chk.sample(dict(tree='links', pattern='**/x', flags='GLOBSTAR', candidates='entries + dirs/ + glob results + absent'))


def replay(r, specs):
    return (f"import sys, os; sys.path.insert(0, {REPO!r}); sys.path.insert(0, '/verif')\nfrom wcmatch import glob\nfrom vlib.harness import trees\n"
            f"spec = {specs[r['tree']]!r}\nwith trees.Tree(spec) as t:\n    kw = dict(flags={r['flags']} | glob.U, root_dir=t.root" + (f", exclude={r['exclude']!r}" if r['exclude'] else '') + ")\n"
            f"    g = glob.glob({r['pattern']!r}, **kw); print('glob:', sorted(g))\n"
            f"    kw['flags'] |= glob.P\n    for c in {(r.get('only_glob') or []) + (r.get('only_match') or []) + ([r['witness']] if r.get('witness') else [])!r}:\n"
            f"        print(c, glob.globmatch(c, {r['pattern']!r}, **kw))\nsys.exit(1)\n")
