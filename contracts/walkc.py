"""Contracts on wcmatch.WcMatch: the abort protocol and hook routing of _walk / imatch / match (C15), the per-entry
predicates _valid_file / _valid_folder, flag plumbing of _compile_wildcard / _compile, kill/reset/is_aborted (C14, C15).

Environment model for C15 (DESIGN.md): `is_aborted()` may return anything at any poll (a hook, the consumer of the
generator or another thread may have called kill() or reset() since the previous poll).  Ghosts, updated only at polls:
  $abort_seen  - the value the LAST poll returned (initially True: before the first poll nothing may run)
  $since_poll  - entries whose processing began since the last poll
Obligations: not $abort_seen at every _valid_file / _valid_folder / on_* call, every _skipped update and every yield;
$since_poll == 0 whenever processing of a new entry begins (this is what catches a REMOVED poll).
"""
import z3

from vlib import pyvc
from vlib.pyvc import V, Int, Flags, Bool, Str, U, ObjV, Obj, BV, NONE, Fork, Outcome, AbstractIter
from .base import Contract
from . import flags as FL

WC, WM = FL.WC, FL.WM
bv, has = FL.bv, FL.has


def selfobj():
    return ObjV(z3.Const('self', Obj))


class Walk(Contract):
    module, qual, props = 'wcmatch', 'WcMatch._walk', ('C15', 'C14', 'C06')
    assumptions = (
        'os.walk(top, followlinks=f) is top-down, honours in-place pruning of dirs, lists a symlinked directory in dirs and descends into it iff f (assumed)',
        'hooks (on_validate_*, on_match, on_skip, on_error) touch the object only through kill/reset/is_aborted/get_skipped; they may raise',
        'attribute reads/writes of _abort are atomic under the GIL (other-thread clause)',
    )
    forking = ('self._valid_folder', 'self._valid_file')
    allowed_raises = ('HookError',)

    def inputs(self):
        fields = dict(_root_dir=ObjV(z3.Const('self_root_dir', Obj)), follow_links=Bool(z3.Bool('self_follow_links')), _skipped=Int(z3.Int('skipped0')))
        ghost = {'$abort_seen': z3.BoolVal(True), '$since_poll': z3.IntVal(0), '$m': z3.IntVal(1), '$s': z3.IntVal(0), '$e': z3.IntVal(0), '$raised': z3.BoolVal(False),
                 '$last_hook': None, '$walk_args': None, '$owed': z3.BoolVal(False)}
        return dict(params=dict(self=selfobj()), fields=fields, pre=[], ghost=ghost)

    # ---- hooks
    @property
    def hooks(self):
        me = self

        def not_aborted(eng, st, node, what):
            eng.oblige('WcMatch._walk.nothing_runs_after_a_poll_saw_the_abort_flag', st, z3.Not(st.ghost['$abort_seen']), node)

        def h_is_aborted(eng, node, st, args):
            loops = st.ghost.get('$loops', ())
            if 3 in loops:
                # the poll that ends the processing of one file: routing of that file is complete here
                g = st.ghost
                eng.oblige('WcMatch._walk.each_visited_file_reaches_exactly_one_of_on_match/on_skip_and_on_error_iff_validation_raised', st,
                           z3.And(g['$m'] + g['$s'] == 1, g['$e'] == z3.If(g['$raised'], 1, 0)), node)
            # every value a hook returned for this entry (anything from on_match, anything but None from on_skip / on_error) has been yielded
            eng.oblige('WcMatch._walk.every_hook_value_is_passed_through_(yielded_before_the_next_poll_unless_None_from_on_skip/on_error)', st, z3.Not(st.ghost['$owed']), node)
            b = z3.Bool(pyvc.fresh('aborted'))
            st.ghost['$abort_seen'] = b
            st.ghost['$since_poll'] = z3.IntVal(0)
            return Bool(b)

        def begin_entry(eng, st, node):
            eng.oblige('WcMatch._walk.a_poll_separates_every_two_entries_(no_entry_begins_unpolled)', st, st.ghost['$since_poll'] == 0, node)
            st.ghost['$since_poll'] = st.ghost['$since_poll'] + 1

        def h_valid_folder(eng, node, st, args):
            not_aborted(eng, st, node, 'valid_folder')
            begin_entry(eng, st, node)
            eng.oblige('WcMatch._walk.validators_get_(base,name)_of_the_current_entry', st, z3.And(pyvc.eq(args[0], st.env['base']), pyvc.eq(args[1], st.env['name'])), node)
            ok = z3.Bool(pyvc.fresh('folder_hook_ok'))
            return Fork([(ok, Bool(z3.Bool(pyvc.fresh('valid_folder'))), None), (z3.Not(ok), Outcome('raise', exc='HookError'), None)])

        def h_valid_file(eng, node, st, args):
            not_aborted(eng, st, node, 'valid_file')
            begin_entry(eng, st, node)
            eng.oblige('WcMatch._walk.validators_get_(base,name)_of_the_current_entry', st, z3.And(pyvc.eq(args[0], st.env['base']), pyvc.eq(args[1], st.env['name'])), node)
            st.ghost['$m'], st.ghost['$s'], st.ghost['$e'], st.ghost['$raised'] = z3.IntVal(0), z3.IntVal(0), z3.IntVal(0), z3.BoolVal(False)
            ok = z3.Bool(pyvc.fresh('file_hook_ok'))

            def raised(s2):
                s2.ghost['$raised'] = z3.BoolVal(True)
            return Fork([(ok, Bool(z3.Bool(pyvc.fresh('valid_file'))), None), (z3.Not(ok), Outcome('raise', exc='HookError'), raised)])

        def mk_hook(kind, counter):
            def h(eng, node, st, args):
                not_aborted(eng, st, node, kind)
                eng.oblige('WcMatch._walk.hooks_get_(base,name)_of_the_current_entry', st, z3.And(pyvc.eq(args[0], st.env['base']), pyvc.eq(args[1], st.env['name'])), node)
                if counter:
                    st.ghost[counter] = st.ghost[counter] + 1
                if kind == 'on_match':
                    eng.oblige('WcMatch._walk.on_match_only_for_files_validated_True', st, pyvc.truthy(st.env['valid']), node)
                if kind == 'on_skip':
                    eng.oblige('WcMatch._walk.on_skip_only_for_files_not_validated', st, z3.Not(pyvc.truthy(st.env['valid'])), node)
                eng.oblige('WcMatch._walk.every_hook_value_is_passed_through_(yielded_before_the_next_poll_unless_None_from_on_skip/on_error)', st, z3.Not(st.ghost['$owed']), node)
                r = V('opt', None, isnone=z3.Bool(pyvc.fresh(kind + '_returns_None')), inner=ObjV(z3.Const(pyvc.fresh(kind + '_value'), Obj)))
                st.ghost['$last_hook'] = (kind, r)
                st.ghost['$owed'] = z3.BoolVal(True) if kind == 'on_match' else z3.Not(r.a['isnone'])
                return r
            return h

        def h_remove(eng, node, st, args):
            return NONE
        return {'self.is_aborted': h_is_aborted, 'self._valid_folder': h_valid_folder, 'self._valid_file': h_valid_file,
                'self.on_match': mk_hook('on_match', '$m'), 'self.on_skip': mk_hook('on_skip', '$s'), 'self.on_error': mk_hook('on_error', '$e')}

    @property
    def iters(self):
        me = self

        def it1(eng, node, st):
            a = [eng.ev(x, st) for x in node.args]
            kw = {k.arg: eng.ev(k.value, st) for k in node.keywords}
            eng.oblige('WcMatch._walk.os.walk(root_dir,followlinks=SYMLINKS_bit)', st,
                       z3.And(pyvc.eq(a[0], st.fields['_root_dir']), pyvc.truthy(kw.get('followlinks', Bool(False))) == pyvc.truthy(st.fields['follow_links']),
                              z3.BoolVal(set(kw) <= {'followlinks'} and len(a) == 1)), node)
            n = z3.Int('n_visited_dirs')
            base = z3.Function('walk_base', z3.IntSort(), Obj)
            nd = z3.Function('walk_ndirs', z3.IntSort(), z3.IntSort())
            nf = z3.Function('walk_nfiles', z3.IntSort(), z3.IntSort())
            return AbstractIter(n, lambda k: V('tuple', None, items=[ObjV(base(k)), V('list', None, length=nd(k)), V('list', None, length=nf(k))]))
        return {1: it1}

    @property
    def axioms_at(self):
        return {1: lambda st, k: [z3.Function('walk_ndirs', z3.IntSort(), z3.IntSort())(k) >= 0, z3.Function('walk_nfiles', z3.IntSort(), z3.IntSort())(k) >= 0]}

    @property
    def invariants(self):
        def inv1(st, k):
            return z3.Not(st.ghost['$owed'])

        def inv23(st, k):
            return z3.And(z3.Not(st.ghost['$abort_seen']), st.ghost['$since_poll'] == 0, z3.Not(st.ghost['$owed']))
        return {1: ('os.walk(self._root_dir, followlinks=self.follow_links)', inv1), 2: ('dirs[:]', inv23), 3: ('files', inv23)}

    loop_ghosts = {1: ('$abort_seen', '$since_poll', '$m', '$s', '$e', '$raised', '$owed'), 2: ('$abort_seen', '$since_poll', '$owed'), 3: ('$abort_seen', '$since_poll', '$m', '$s', '$e', '$raised', '$owed')}

    @property
    def at(self):
        def y(st):
            v = st.ghost['$point_value']
            lh = st.ghost.get('$last_hook')
            if lh is None:
                return z3.BoolVal(False)
            kind, r = lh
            same = pyvc.eq(v, r)
            if kind == 'on_match':
                return z3.And(z3.Not(st.ghost['$abort_seen']), same)
            return z3.And(z3.Not(st.ghost['$abort_seen']), same, z3.Not(r.a['isnone']))

        def skipped(st):
            new = st.ghost['$point_value']
            return z3.And(z3.Not(st.ghost['$abort_seen']), new.t == st.fields['_skipped'].t + 1, z3.Not(pyvc.truthy(st.env['valid'])))
        return {'yield:': [('WcMatch._walk.yields_exactly_the_hook_values_(None_from_on_skip/on_error_is_not_yielded)_and_never_after_an_abort_was_seen', y)],
                'assign:self._skipped': [('WcMatch._walk.skipped_counter_incremented_by_one_exactly_for_files_not_matched', skipped)]}

    @property
    def ghost_update(self):
        def on_yield(st, result):
            lh = st.ghost.get('$last_hook')
            if lh is not None:
                st.ghost['$owed'] = z3.And(st.ghost['$owed'], z3.Not(pyvc.eq(result, lh[1])))
        return {'yield:': on_yield}

    obligation_props = {'WcMatch._walk.nothing_runs': ('C15',), 'WcMatch._walk.a_poll': ('C15',), 'WcMatch._walk.each_visited': ('C15', 'C14'),
                        'WcMatch._walk.validators_get': ('C14', 'C15'), 'WcMatch._walk.hooks_get': ('C15', 'C14'), 'WcMatch._walk.on_match_only': ('C14', 'C15'),
                        'WcMatch._walk.on_skip_only': ('C14', 'C15'), 'WcMatch._walk.os.walk': ('C06', 'C14'), 'WcMatch._walk.yields_exactly': ('C15',), 'WcMatch._walk.every_hook_value': ('C15',),
                        'WcMatch._walk.skipped_counter': ('C14', 'C15'), 'WcMatch._walk.loop': ('C15',), 'wcmatch.WcMatch._walk.raises_only_documented': ('C15',)}


class IMatch(Contract):
    module, qual, props = 'wcmatch', 'WcMatch.imatch', ('C15', 'C14')

    def inputs(self):
        return dict(params=dict(self=selfobj()), fields=dict(_skipped=Int(z3.Int('skipped_before'))), pre=[], ghost={'$resets': 0, '$walk_started': False})

    @property
    def hooks(self):
        def h_reset(eng, node, st, args):
            eng.oblige('WcMatch.imatch.on_reset_before_the_walk', st, z3.BoolVal(not st.ghost['$walk_started']), node)
            st.ghost['$resets'] = st.ghost['$resets'] + 1
            return NONE

        def h_walk(eng, node, st, args):
            eng.oblige('WcMatch.imatch.on_reset_called_once_and_skipped_counter_zero_before_the_first_walk_step', st,
                       z3.And(z3.BoolVal(st.ghost['$resets'] == 1), st.fields['_skipped'].t == 0), node)
            st.ghost['$walk_started'] = True
            fn = z3.Function('walk_item', z3.IntSort(), Obj)
            return V('list', None, length=z3.Int('n_walk_items'), elem=lambda k: ObjV(fn(k)))
        def h_is_aborted(eng, node, st, args):
            return Bool(z3.Bool(pyvc.fresh('aborted_on_entry')))       # the object may be in the killed state when a run starts
        def h_state(eng, node, st, args):
            eng.oblige('WcMatch.imatch.does_not_touch_the_abort_flag_(stays_aborted_until_the_user_calls_reset)', st, z3.BoolVal(False), node)
            return NONE
        return {'self.on_reset': h_reset, 'self._walk': h_walk, 'self.is_aborted': h_is_aborted, 'self.reset': h_state, 'self.kill': h_state}

    @property
    def invariants(self):
        return {1: ('self._walk()', lambda st, k: st.ghost['$yields'] == k)}

    loop_ghosts = {1: ('$yields',)}

    @property
    def at(self):
        return {'yield:': [('WcMatch.imatch.yields_exactly_what__walk_yields_in_order', lambda st: pyvc.eq(st.ghost['$point_value'], st.ghost['$elem1']))]}

    @property
    def ensures(self):
        return [('WcMatch.imatch.on_reset_exactly_once_per_run', ('C15',), lambda c: z3.BoolVal(c.st.ghost['$resets'] == 1 and c.st.ghost['$walk_started']))]

    obligation_props = {'WcMatch.imatch.on_reset_called_once_and_skipped': ('C15', 'C14'), 'WcMatch.imatch': ('C15',)}


class Match(Contract):
    module, qual, props = 'wcmatch', 'WcMatch.match', ('C15',)
    pure = ('imatch',)

    @property
    def hooks(self):
        def h_state(what):
            def h(eng, node, st, args):
                # the abort flag belongs to the user: kill() sets it, reset() clears it, a run neither sets nor clears it
                eng.oblige('WcMatch.match.does_not_touch_the_abort_flag_(stays_aborted_until_the_user_calls_reset)', st, z3.BoolVal(False), node)
                return NONE
            return h
        return {'self.reset': h_state('reset'), 'self.kill': h_state('kill')}

    def inputs(self):
        return dict(params=dict(self=selfobj()), fields={}, pre=[])

    ensures = [('WcMatch.match.is_list(self.imatch())', ('C15',), lambda c: pyvc.eq(c.ret, U('method.imatch', c.p['self'])))]


class AbortFlag(Contract):
    """A1 frame: _abort is written only by __init__ / kill / reset and read only by is_aborted (AST scan, finite)."""
    props = ('C15',)

    def lemmas(self):
        import ast
        tree, _ = pyvc.module_ast('wcmatch')
        cls = [n for n in tree.body if isinstance(n, ast.ClassDef) and n.name == 'WcMatch'][0]
        writes, reads = {}, {}
        for fn in [n for n in cls.body if isinstance(n, ast.FunctionDef)]:
            for n in ast.walk(fn):
                if isinstance(n, ast.Attribute) and n.attr == '_abort':
                    (writes if isinstance(n.ctx, ast.Store) else reads).setdefault(fn.name, 0)
        def body_of(name):
            f = [n for n in cls.body if isinstance(n, ast.FunctionDef) and n.name == name]
            return [s for s in f[0].body if not (isinstance(s, ast.Expr) and isinstance(s.value, ast.Constant))] if f else []
        kill, reset, isab = body_of('kill'), body_of('reset'), body_of('is_aborted')
        ok_kill = len(kill) == 1 and ast.unparse(kill[0]) == 'self._abort = True'
        ok_reset = len(reset) == 1 and ast.unparse(reset[0]) == 'self._abort = False'
        ok_isab = len(isab) == 1 and ast.unparse(isab[0]) == 'return self._abort'
        return [
            ('C15.frame._abort_written_only_by___init__/kill/reset', ('C15',), z3.BoolVal(set(writes) <= {'__init__', 'kill', 'reset'})),
            ('C15.frame._abort_read_only_by_is_aborted', ('C15',), z3.BoolVal(set(reads) <= {'is_aborted'})),
            ('C15.frame.kill_sets_True_reset_sets_False_is_aborted_returns_the_flag', ('C15',), z3.BoolVal(ok_kill and ok_reset and ok_isab)),
        ]


class ValidFile(Contract):
    module, qual, props = 'wcmatch', 'WcMatch._valid_file', ('C14',)
    assumptions = ('os.path.join is pure; util.is_hidden depends on the path only (its own contract: basename starts with `.` on Linux)',)

    def inputs(self):
        self.fc_none = z3.Bool('file_check_is_None')
        self.fpn, self.show_hidden = z3.Bool('self_file_pathname'), z3.Bool('self_show_hidden')
        fields = dict(file_check=V('opt', None, isnone=self.fc_none, inner=ObjV(z3.Const('self_file_check', Obj))), file_pathname=Bool(self.fpn),
                      show_hidden=Bool(self.show_hidden), _base_len=Int(z3.Int('self_base_len')))
        return dict(params=dict(self=selfobj(), base=ObjV(z3.Const('base', Obj)), name=ObjV(z3.Const('name', Obj))), fields=fields, pre=[], ghost={'$hook_calls': 0})

    @property
    def hooks(self):
        me = self

        def h_hook(eng, node, st, args):
            eng.oblige('WcMatch._valid_file.on_validate_file_consulted_only_for_files_that_matched_and_are_not_hidden-filtered', st, pyvc.truthy(st.env['valid']), node)
            st.ghost['$hook_calls'] += 1
            return U('HOOK_FILE', args[0], args[1], ret='bool')
        return {'self.on_validate_file': h_hook, 'self.compare_file': lambda eng, node, st, args: U('CMP_FILE', args[0], ret='bool')}

    @property
    def ensures(self):
        me = self

        def post(c):
            p = c.p
            full = U('fn.os.path.join', p['base'], p['name'])
            rel = U('slice', full, c.st.fields['_base_len'], NONE)
            arg = pyvc.ObjV(z3.If(me.fpn, rel.t, p['name'].t))
            matched = z3.And(z3.Not(me.fc_none), U('CMP_FILE', arg, ret='bool').t)
            hidden_out = z3.And(z3.Not(me.show_hidden), pyvc.truthy(U('fn.util.is_hidden', full)))
            want = z3.And(matched, z3.Not(hidden_out), U('HOOK_FILE', p['base'], p['name'], ret='bool').t)
            return pyvc.truthy(c.ret) == want
        return [('WcMatch._valid_file.iff_pattern_matches_(name_or_root-relative_path)_and_(HIDDEN_or_not_hidden)_and_hook_accepts', ('C14',), post)]

    obligation_props = {'WcMatch._valid_file.on_validate_file': ('C14', 'C15')}


class ValidFolder(Contract):
    module, qual, props = 'wcmatch', 'WcMatch._valid_folder', ('C14',)

    def inputs(self):
        self.dpn, self.show_hidden, self.recursive = z3.Bool('self_dir_pathname'), z3.Bool('self_show_hidden'), z3.Bool('self_recursive')
        fields = dict(folder_exclude_check=ObjV(z3.Const('self_folder_exclude_check', Obj)), dir_pathname=Bool(self.dpn), file_pathname=Bool(z3.Bool('self_file_pathname')),
                      show_hidden=Bool(self.show_hidden), recursive=Bool(self.recursive), _base_len=Int(z3.Int('self_base_len')))
        return dict(params=dict(self=selfobj(), base=ObjV(z3.Const('base', Obj)), name=ObjV(z3.Const('name', Obj))), fields=fields, pre=[], ghost={})

    @property
    def hooks(self):
        def h_hook(eng, node, st, args):
            eng.oblige('WcMatch._valid_folder.on_validate_directory_consulted_only_for_folders_that_passed_the_filters', st, pyvc.truthy(st.env['valid']), node)
            return U('HOOK_DIR', args[0], args[1], ret='bool')
        return {'self.on_validate_directory': h_hook, 'self.compare_directory': lambda eng, node, st, args: U('CMP_DIR', args[0], ret='bool')}

    @property
    def ensures(self):
        me = self

        def post(c):
            p = c.p
            full = U('fn.os.path.join', p['base'], p['name'])
            rel = U('slice', full, c.st.fields['_base_len'], NONE)
            arg = pyvc.ObjV(z3.If(me.dpn, rel.t, p['name'].t))
            excluded = z3.And(pyvc.truthy(c.st.fields['folder_exclude_check']), z3.Not(U('CMP_DIR', arg, ret='bool').t))
            hidden_out = z3.And(z3.Not(me.show_hidden), pyvc.truthy(U('fn.util.is_hidden', full)))
            want = z3.And(me.recursive, z3.Not(excluded), z3.Not(hidden_out), U('HOOK_DIR', p['base'], p['name'], ret='bool').t)
            return pyvc.truthy(c.ret) == want
        return [('WcMatch._valid_folder.iff_RECURSIVE_and_not_excluded_(name_or_root-relative_path_by_DIRPATHNAME)_and_(HIDDEN_or_not_hidden)_and_hook_accepts', ('C14',), post)]

    obligation_props = {'WcMatch._valid_folder.on_validate_directory': ('C14', 'C15')}


class CompareDirectory(Contract):
    module, qual, props = 'wcmatch', 'WcMatch.compare_directory', ('C14', 'C18')
    pure = ('_add_sep',)

    def inputs(self):
        self.dpn = z3.Bool('self_dir_pathname')
        fields = dict(folder_exclude_check=ObjV(z3.Const('self_folder_exclude_check', Obj)), dir_pathname=Bool(self.dpn))
        return dict(params=dict(self=selfobj(), directory=ObjV(z3.Const('directory', Obj))), fields=fields, pre=[])

    @property
    def ensures(self):
        me = self

        def post(c):
            d = c.p['directory']
            arg = pyvc.ObjV(z3.If(me.dpn, U('method._add_sep', c.p['self'], d).t, d.t))
            return pyvc.truthy(c.ret) == z3.Not(pyvc.truthy(U('method.match', c.st.fields['folder_exclude_check'], arg)))
        return [('WcMatch.compare_directory.not_excluded_iff_exclude_matcher_rejects_(path_gets_trailing_separator_under_DIRPATHNAME)', ('C14', 'C18'), post)]


class CompileWildcard(Contract):
    module, qual, props = 'wcmatch', 'WcMatch._compile_wildcard', ('C14', 'C11')
    callees = {'_wcparse.compile': ('_wcparse', 'compile')}

    def inputs(self):
        self.F = z3.BitVec('self_flags', BV)
        self.pathname, self.matchbase = z3.Bool('pathname'), z3.Bool('self_matchbase')
        fields = dict(flags=Flags(self.F), matchbase=Bool(self.matchbase), limit=Int(z3.Int('self_limit')))
        return dict(params=dict(self=selfobj(), pattern=ObjV(z3.Const('pattern', Obj)), pathname=Bool(self.pathname)), fields=fields, pre=[])

    @property
    def ensures(self):
        me = self

        def post(c):
            extra = z3.If(me.pathname, bv(WC['PATHNAME'] | WC['_ANCHOR']) | z3.If(me.matchbase, bv(WC['MATCHBASE']), bv(0)), bv(0))
            want = U('_wcparse.compile', V('tuple', None, items=[c.p['pattern']]), Flags(me.F | extra), c.st.fields['limit'], NONE)
            return z3.If(pyvc.truthy(c.p['pattern']), pyvc.eq(c.ret, want), pyvc.eq(c.ret, NONE))
        return [('WcMatch._compile_wildcard.compile([pattern],flags|(PATHNAME|_ANCHOR[|MATCHBASE])_iff_path_mode,self.limit)_or_None_for_empty', ('C14', 'C11'), post)]


class IsHidden(Contract):
    module, qual, props = 'util', 'is_hidden', ('C14', 'C03')
    assumptions = ('sys.platform is linux here (the win32 / darwin branches are outside this sandbox and are not claimed)',)

    def inputs(self):
        self.base = z3.String('basename')
        return dict(params=dict(path=ObjV(z3.Const('path', Obj))), pre=[])

    @property
    def hooks(self):
        me = self
        return {'os.path.basename': lambda eng, node, st, args: Str(me.base), 'sys.platform': lambda eng, node, st, args: Str('linux')}

    @property
    def ensures(self):
        me = self
        return [('util.is_hidden.iff_basename_starts_with_dot_(linux)', ('C14', 'C03'), lambda c: pyvc.truthy(c.ret) == z3.PrefixOf(z3.StringVal('.'), me.base))]


ALL = [Walk(), IMatch(), Match(), AbortFlag(), ValidFile(), ValidFolder(), CompareDirectory(), CompileWildcard(), IsHidden()]
