"""Further contracts: _GlobSplit.store / __init__, WcParse.__init__ (flag-derived fields), PurePath._translate_path, the expansion
pipeline (expand: braces before split before tilde), is_magic, WcMatch._compile, WcRegexp.filter / WcMatcher wrappers, Glob._glob."""
import ast

import z3

from vlib import pyvc
from vlib.pyvc import V, Int, Flags, Bool, Str, U, ObjV, Obj, BV, NONE, Fork, Outcome, AbstractIter
from .base import Contract
from . import flags as FL

WC, GL = FL.WC, FL.GL
bv, has = FL.bv, FL.has


def selfobj():
    return ObjV(z3.Const('self', Obj))


class GlobSplitInit(Contract):
    module, qual, props = 'glob', '_GlobSplit.__init__', ('C05', 'C06', 'C16')
    hooks = dict(FL.PLATFORM_HOOKS)

    def inputs(self):
        self.F = z3.BitVec('flags', BV)
        return dict(params=dict(self=selfobj(), pattern=ObjV(z3.Const('pattern', Obj)), flags=Flags(self.F)), fields={}, pre=list(FL.PLATFORM_PRE))

    @property
    def hooks(self):
        h = dict(FL.PLATFORM_HOOKS)
        h.update({'_wcparse.is_unix_style': lambda eng, node, st, args: Bool(FL.S_is_unix_style(args[0].t)),
                  '_wcparse.is_negative': lambda eng, node, st, args: Bool(z3.Bool('pattern_is_negative')),
                  '_wcparse._get_magic_symbols': lambda eng, node, st, args: U('MAGIC_SYMBOLS', *args)})
        return h

    def crosscheck(self, eng, paths, inp):
        from .base import init_crosscheck
        from wcmatch import glob

        def build(m):
            with FL.spec_callees():
                return glob._GlobSplit('x', m.eval(self.F, model_completion=True).as_long())
        host = [z3.Not(FL.PLAT_WIN), FL.CASE_FS, z3.Not(FL.OS_NT), z3.Not(z3.Bool('pattern_is_negative'))]       # Linux host, the pattern 'x' is not negative
        # fields derived from callees that are replaced by their SPEC here are not compared (a callee breaking its own contract is that contract's business)
        return init_crosscheck(self, eng, paths, inp, build, extra=host, vary=[self.F])

    @property
    def ensures(self):
        me = self

        def fld(c, n):
            return pyvc.truthy(c.st.fields[n])
        F = lambda: me.F        # noqa: E731
        return [
            ('_GlobSplit.__init__.globstarlong==GLOBSTARLONG_and_globstar==GLOBSTARLONG_or_GLOBSTAR', ('C06', 'C05'),
             lambda c: z3.And(fld(c, 'globstarlong') == has(F(), 'GLOBSTARLONG'), fld(c, 'globstar') == z3.Or(has(F(), 'GLOBSTARLONG'), has(F(), 'GLOBSTAR')))),
            ('_GlobSplit.__init__.follow/matchbase/extmatchbase/no_abs_are_their_bits', ('C06', 'C16', 'C05'),
             lambda c: z3.And(fld(c, 'follow') == has(F(), 'FOLLOW'), fld(c, 'matchbase') == has(F(), 'MATCHBASE'), fld(c, 'extmatchbase') == has(F(), '_EXTMATCHBASE'),
                              fld(c, 'no_abs') == has(F(), '_NOABSOLUTE'))),
            ('_GlobSplit.__init__.parts_are_compiled_without_NEGATE_and_without_the_implicit-prefix_flags', ('C05', 'C03', 'C16'),
             lambda c: c.st.fields['flags'].t == F() & ~bv(WC['NEGATE'] | WC['MATCHBASE'] | WC['_EXTMATCHBASE'])),
            ('_GlobSplit.__init__.separator_and_drive_detection_follow_the_platform_rule', ('C17', 'C05'),
             lambda c: z3.And(fld(c, 'unix') == FL.S_is_unix_style(F()), fld(c, 'win_drive_detect') == z3.Not(FL.S_is_unix_style(F())),
                              fld(c, 'bslash_abort') == z3.Not(FL.S_is_unix_style(F())))),
        ]


class GlobSplitStore(Contract):
    """store(): empty values after the first are dropped; a part is magic iff it contains a magic symbol (then it is compiled with self.flags);
    globstar iff the whole value is `**` (under globstar) or `***` (under globstarlong); consecutive globstar parts count as one."""
    module, qual, props = 'glob', '_GlobSplit.store', ('C05', 'C06', 'C02')
    pure = ('is_magic',)

    def inputs(self):
        self.val = z3.String('value')
        self.gsl, self.gs = z3.Bool('self_globstarlong'), z3.Bool('self_globstar')
        self.n = z3.Int('len_l')
        self.last_gs = z3.Bool('last_part_is_globstar')
        self.dir_only = z3.Bool('dir_only')
        self.F = z3.BitVec('self_flags', BV)
        me = self
        lst = ObjV(z3.Const('l', Obj))
        fields = dict(globstarlong=Bool(self.gsl), globstar=Bool(self.gs), flags=Flags(self.F))
        return dict(params=dict(self=selfobj(), value=Str(self.val), l=lst, dir_only=Bool(self.dir_only)), fields=fields, pre=[z3.Implies(self.gsl, self.gs)],
                    ghost={'$appended': [], '$replaced': []})

    @property
    def hooks(self):
        me = self

        def h_part(eng, node, st, args):
            return V('tuple', None, items=list(args))

        def h_compile(eng, node, st, args):
            eng.oblige('_GlobSplit.store.magic_parts_are_compiled_with_self.flags', st, z3.And(args[1].t == me.F, args[0].t == me.val), node)
            return U('C', args[0], args[1])

        def h_append(eng, node, st, args):
            st.ghost['$appended'] = st.ghost['$appended'] + [args[0]]
            return NONE

        def h_setitem(eng, target, st, val):
            st.ghost['$replaced'] = st.ghost['$replaced'] + [(eng.ev(target.slice, st), val)]
        return {'_GlobPart': h_part, '_wcparse._compile': h_compile, 'l.append': h_append, 'setitem': h_setitem}

    def last_is_gs(self, c):
        return pyvc.truthy(U('attr.is_globstar', U('getitem', c.p['l'], Int(-1))))

    @property
    def ensures(self):
        me = self

        def post(c):
            l = c.p['l']
            nonempty_l = pyvc.truthy(l)
            empty_val = me.val == z3.StringVal('')
            app, rep = c.st.ghost['$appended'], c.st.ghost['$replaced']
            magic = pyvc.truthy(U('method.is_magic', c.p['self'], Str(me.val)))
            gsl = z3.And(me.gsl, me.val == z3.StringVal('***'))
            gs = z3.Or(gsl, z3.And(me.gs, me.val == z3.StringVal('**')))
            if not app and not rep:
                return z3.And(nonempty_l, empty_val)
            part = (app or [r[1] for r in rep])[0]
            if part.kind != 'tuple' or len(part.a['items']) != 6:
                return z3.BoolVal(False)
            pat, is_magic, is_gs, is_gsl, donly, drive = part.a['items']
            # a run of consecutive globstar parts is one part; it is `***` (follows links) if any member of the run is
            want_gsl = z3.Or(gsl, pyvc.truthy(U('attr.is_globstarlong', U('getitem', c.p['l'], Int(-1))))) if rep else gsl
            fields_ok = z3.And(pyvc.truthy(is_magic) == magic, pyvc.truthy(is_gs) == gs, pyvc.truthy(is_gsl) == want_gsl, pyvc.truthy(donly) == me.dir_only, z3.Not(pyvc.truthy(drive)),
                               z3.If(magic, pyvc.eq(pat, U('C', Str(me.val), Flags(me.F))), pyvc.eq(pat, Str(me.val))))
            merged = z3.And(gs, nonempty_l, me.last_is_gs(c))
            where = merged if rep else z3.Not(merged)
            return z3.And(z3.Not(z3.And(nonempty_l, empty_val)), fields_ok, where, z3.BoolVal(len(app) + len(rep) == 1))
        return [('_GlobSplit.store.one_part_per_non-empty_value:magic_iff_magic_symbol,globstar_iff_whole_value_is_**/***,consecutive_globstars_merge', ('C05', 'C06', 'C02'), post)]

    obligation_props = {'_GlobSplit.store.magic_parts': ('C05',)}


class WcParseInit(Contract):
    module, qual, props = '_wcparse', 'WcParse.__init__', ('C02', 'C06', 'C03', 'C17', 'C08')
    assumptions = ('str.format / re.escape used to instantiate the regex templates are opaque here (the templates themselves are checked as finite lemmas)',)

    def inputs(self):
        self.F = z3.BitVec('flags', BV)
        return dict(params=dict(self=selfobj(), pattern=ObjV(z3.Const('pattern', Obj)), flags=Flags(self.F)), fields={}, pre=list(FL.PLATFORM_PRE))

    @property
    def hooks(self):
        h = dict(FL.PLATFORM_HOOKS)
        h.update({'get_case': lambda eng, node, st, args: Bool(FL.S_get_case(args[0].t)), 'is_unix_style': lambda eng, node, st, args: Bool(FL.S_is_unix_style(args[0].t)),
                  'isinstance': lambda eng, node, st, args: Bool(z3.Bool('pattern_is_bytes'))})
        return h

    def crosscheck(self, eng, paths, inp):
        from .base import init_crosscheck
        from wcmatch import _wcparse

        def build(m):
            fl = m.eval(self.F, model_completion=True).as_long()
            with FL.spec_callees():
                return _wcparse.WcParse(b'x' if z3.is_true(m.eval(z3.Bool('pattern_is_bytes'), model_completion=True)) else 'x', fl)
        host = [z3.Not(FL.PLAT_WIN), FL.CASE_FS, z3.Not(FL.OS_NT)]          # the interpreter runs on Linux: compare under that platform
        return init_crosscheck(self, eng, paths, inp, build, extra=host, vary=[self.F])

    @property
    def ensures(self):
        me = self
        F = lambda: me.F        # noqa: E731

        def b(c, n):
            return pyvc.truthy(c.st.fields[n])
        pn = lambda: has(F(), 'PATHNAME')   # noqa: E731
        return [
            ('WcParse.__init__.globstarlong==PATHNAME_and_GLOBSTARLONG;globstar==PATHNAME_and_(GLOBSTARLONG_or_GLOBSTAR)', ('C02', 'C06'),
             lambda c: z3.And(b(c, 'globstarlong') == z3.And(pn(), has(F(), 'GLOBSTARLONG')), b(c, 'globstar') == z3.And(pn(), z3.Or(has(F(), 'GLOBSTARLONG'), has(F(), 'GLOBSTAR'))))),
            ('WcParse.__init__.realpath==REALPATH_and_PATHNAME;globstar_capture==realpath_and_not_translate_and_not__NO_GLOBSTAR_CAPTURE', ('C04', 'C06', 'C08'),
             lambda c: z3.And(b(c, 'realpath') == z3.And(has(F(), 'REALPATH'), pn()),
                              b(c, 'globstar_capture') == z3.And(has(F(), 'REALPATH'), pn(), z3.Not(has(F(), '_TRANSLATE')), z3.Not(has(F(), '_NO_GLOBSTAR_CAPTURE'))))),
            ('WcParse.__init__.dot/extend/matchbase/extmatchbase/nodotdir/pathname/anchor/no_abs/capture_are_their_bits', ('C03', 'C02', 'C08', 'C16'),
             lambda c: z3.And(b(c, 'dot') == has(F(), 'DOTMATCH'), b(c, 'extend') == has(F(), 'EXTMATCH'), b(c, 'matchbase') == has(F(), 'MATCHBASE'),
                              b(c, 'extmatchbase') == has(F(), '_EXTMATCHBASE'), b(c, 'nodotdir') == has(F(), 'NODOTDIR'), b(c, 'pathname') == pn(),
                              b(c, 'anchor') == has(F(), '_ANCHOR'), b(c, 'no_abs') == has(F(), '_NOABSOLUTE'), b(c, 'capture') == has(F(), '_TRANSLATE'),
                              b(c, 'translate') == has(F(), '_TRANSLATE'))),
            ('WcParse.__init__.case_sensitive==get_case(flags);unix==is_unix_style(flags);backslash_is_a_separator_iff_windows_path_mode', ('C17',),
             lambda c: z3.And(b(c, 'case_sensitive') == FL.S_get_case(F()), b(c, 'unix') == FL.S_is_unix_style(F()),
                              b(c, 'bslash_abort') == z3.And(z3.Not(FL.S_is_unix_style(F())), pn()), b(c, 'win_drive_detect') == z3.And(z3.Not(FL.S_is_unix_style(F())), pn()))),
        ]


class TranslatePath(Contract):
    module, qual, props = 'pathlib', 'PurePath._translate_path', ('C16',)
    pure = ('is_dir',)
    assumptions = ('util.PY313 selects between two spellings of the same separator attribute',)

    def inputs(self):
        self.is_path = z3.Bool('self_is_concrete_Path')
        self.name = z3.String('str_self')
        return dict(params=dict(self=selfobj()), fields={}, pre=[])

    @property
    def hooks(self):
        me = self
        return {'isinstance': lambda eng, node, st, args: Bool(me.is_path), 'str': lambda eng, node, st, args: Str(me.name),
                'self.parser.sep': lambda eng, node, st, args: Str('/'), 'self._flavour.sep': lambda eng, node, st, args: Str('/'),
                'util.PY313': lambda eng, node, st, args: Bool(z3.Bool('PY313'))}

    @property
    def ensures(self):
        me = self

        def post(c):
            isdir = pyvc.truthy(U('method.is_dir', c.p['self']))
            want = z3.If(z3.And(me.is_path, z3.Length(me.name) > 0, isdir), z3.Concat(me.name, z3.StringVal('/')), me.name)
            return c.ret.t == want
        return [('pathlib._translate_path.separator_appended_iff_concrete_Path_and_non-empty_and_is_dir()', ('C16',), post)]


class Expand(Contract):
    """expand(): for each brace expansion, for each split piece, yield the tilde-expanded piece (braces before split before tilde)."""
    module, qual, props = '_wcparse', 'expand', ('C07',)
    assumptions = ('expand_braces / split are abstract iterators; expand_tilde is a pure function',)

    def inputs(self):
        self.F = z3.BitVec('flags', BV)
        self.nb = z3.Int('n_brace_expansions')
        return dict(params=dict(pattern=ObjV(z3.Const('pattern', Obj)), flags=Flags(self.F), limit=Int(z3.Int('limit'))), pre=[self.nb >= 0] + list(FL.PLATFORM_PRE), ghost={})

    B = z3.Function('brace_expansion_k', z3.IntSort(), Obj)
    NS = z3.Function('n_split_pieces_k', z3.IntSort(), z3.IntSort())
    PIECE = z3.Function('split_piece_kj', z3.IntSort(), z3.IntSort(), Obj)

    @property
    def hooks(self):
        h = dict(FL.PLATFORM_HOOKS)
        h['is_unix_style'] = lambda eng, node, st, args: Bool(FL.S_is_unix_style(args[0].t))
        h['expand_tilde'] = lambda eng, node, st, args: U('TILDE', *args)
        return h

    @property
    def iters(self):
        me = self

        def it1(eng, node, st):
            a = [eng.ev(x, st) for x in node.args]
            eng.oblige('_wcparse.expand.braces_are_expanded_first_on_the_whole_pattern_with_the_given_flags_and_limit', st,
                       z3.And(pyvc.eq(a[0], st.env['pattern']), a[1].t == me.F, pyvc.eq(a[2], st.env['limit'])), node)
            return AbstractIter(me.nb, lambda k: ObjV(me.B(k)))

        def it2(eng, node, st):
            a = [eng.ev(x, st) for x in node.args]
            k = st.ghost['$k1']
            eng.oblige('_wcparse.expand.each_brace_expansion_is_then_split_with_the_same_flags', st, z3.And(a[0].t == me.B(k), a[1].t == me.F), node)
            return AbstractIter(me.NS(k), lambda j: ObjV(me.PIECE(k, j)))
        return {1: it1, 2: it2}

    @property
    def invariants(self):
        t = lambda st, k: z3.BoolVal(True)     # noqa: E731
        return {1: ('expand_braces(pattern, flags, limit)', t), 2: ('split(expanded, flags)', t)}

    @property
    def axioms_at(self):
        me = self
        return {1: lambda st, k: [me.NS(k) >= 0]}

    @property
    def at(self):
        me = self

        def y(st):
            k, j = st.ghost['$k1'], st.ghost['$k2']
            return pyvc.eq(st.ghost['$point_value'], U('TILDE', ObjV(me.PIECE(k, j)), Bool(FL.S_is_unix_style(me.F)), Flags(me.F)))
        return {'yield:': [('_wcparse.expand.yields_the_tilde-expanded_split_piece_of_each_brace_expansion_in_order', y)]}

    obligation_props = {'_wcparse.expand': ('C07',), 'expand.loop': ('C07',)}


class SplitFn(Contract):
    module, qual, props = '_wcparse', 'split', ('C07',)

    def inputs(self):
        self.F = z3.BitVec('flags', BV)
        return dict(params=dict(pattern=ObjV(z3.Const('pattern', Obj)), flags=Flags(self.F)), pre=[], ghost={})

    @property
    def hooks(self):
        def h_yf(eng, y, st):
            st.ghost['$yield_from'] = st.ghost.get('$yield_from', []) + [eng.ev(y.value, st)]
            return [(st, pyvc.Outcome('normal'))]
        return {'yield from': h_yf}

    @property
    def ensures(self):
        me = self

        def post(c):
            yf = c.st.ghost.get('$yield_from', [])
            n = c.st.ghost['$yields']
            splits = has(me.F, 'SPLIT')
            if yf:
                return z3.And(splits, z3.BoolVal(len(yf) == 1), pyvc.eq(yf[0], U('method.split', U('fn.WcSplit', c.p['pattern'], Flags(me.F)))), n == 0)
            return z3.And(z3.Not(splits), n == 1, pyvc.eq(c.st.ghost['$last_yield'], c.p['pattern']))
        return [('_wcparse.split.WcSplit(pattern,flags).split()_iff_SPLIT_else_the_pattern_itself', ('C07',), post)]


class IsMagic(Contract):
    """is_magic(): False only if the pattern (drive prefix excluded in Windows path mode) contains none of the magic symbols."""
    module, qual, props = '_wcparse', 'is_magic', ('C09',)
    assumptions = ('the drive regex and `in` on strings are uninterpreted; the symbol sets come from _get_magic_symbols (finite lemma in C09)',)

    def inputs(self):
        self.F = z3.BitVec('flags', BV)
        self.nm, self.nd = z3.Int('n_magic'), z3.Int('n_magic_drive')
        return dict(params=dict(pattern=ObjV(z3.Const('pattern', Obj)), flags=Flags(self.F)), pre=[self.nm >= 0, self.nd >= 0] + list(FL.PLATFORM_PRE), ghost={})

    MS = z3.Function('magic_symbol_k', z3.IntSort(), Obj)
    DS = z3.Function('drive_symbol_k', z3.IntSort(), Obj)

    @property
    def hooks(self):
        me = self
        h = dict(FL.PLATFORM_HOOKS)
        h['is_unix_style'] = lambda eng, node, st, args: Bool(FL.S_is_unix_style(args[0].t))
        h['isinstance'] = lambda eng, node, st, args: Bool(z3.Bool('pattern_is_bytes'))
        h['_get_magic_symbols'] = lambda eng, node, st, args: V('tuple', None, items=[V('list', None, length=me.nm, elem=lambda k: ObjV(me.MS(k))),
                                                                                        V('list', None, length=me.nd, elem=lambda k: ObjV(me.DS(k)))])
        return h

    def IN(self, c, s):
        return pyvc.truthy(U('contains', s, c))

    @property
    def invariants(self):
        me = self
        i = z3.Int('i!inv')

        def inv_drive(st, k):
            return z3.And(z3.Not(pyvc.truthy(st.env['magical'])), z3.ForAll([i], z3.Implies(z3.And(i >= 0, i < k), z3.Not(me.IN(ObjV(me.DS(i)), st.env['drive'])))))

        def inv_rest(st, k):
            return z3.And(z3.Not(pyvc.truthy(st.env['magical'])), z3.ForAll([i], z3.Implies(z3.And(i >= 0, i < k), z3.Not(me.IN(ObjV(me.MS(i)), st.env['pattern'])))))
        return {1: ('magic_drive', inv_drive), 2: ('magic', inv_rest)}

    @property
    def ensures(self):
        me = self
        i = z3.Int('i!post')

        def post(c):
            # not magical  =>  no magic symbol occurs in the (drive-stripped) pattern that was scanned
            return z3.Implies(z3.Not(pyvc.truthy(c.ret)), z3.ForAll([i], z3.Implies(z3.And(i >= 0, i < me.nm), z3.Not(me.IN(ObjV(me.MS(i)), c.st.env['pattern'])))))
        return [('_wcparse.is_magic.False_only_if_no_magic_symbol_occurs_in_the_pattern', ('C09',), post)]

    @property
    def hooks_extra(self):
        return {}

    obligation_props = {'is_magic.loop': ('C09',)}


class WcMatchCompile(Contract):
    module, qual, props = 'wcmatch', 'WcMatch._compile', ('C14', 'C11')
    assumptions = ("re.compile('^.*$', DOTALL) matches every name (finite lemma in C14)",)

    def inputs(self):
        self.fc_none, self.dc_none = z3.Bool('file_check_is_None'), z3.Bool('folder_exclude_check_is_None')
        fields = dict(file_check=V('opt', None, isnone=self.fc_none, inner=ObjV(z3.Const('old_file_check', Obj))),
                      folder_exclude_check=V('opt', None, isnone=self.dc_none, inner=ObjV(z3.Const('old_folder_check', Obj))),
                      file_pathname=Bool(z3.Bool('self_file_pathname')), dir_pathname=Bool(z3.Bool('self_dir_pathname')),
                      recursive=Bool(z3.Bool('self_recursive')), show_hidden=Bool(z3.Bool('self_show_hidden')), matchbase=Bool(z3.Bool('self_matchbase')))
        return dict(params=dict(self=selfobj(), file_pattern=ObjV(z3.Const('file_pattern', Obj)), folder_exclude_pattern=ObjV(z3.Const('folder_exclude_pattern', Obj))),
                    fields=fields, pre=[], ghost={})

    @property
    def hooks(self):
        return {'self._compile_wildcard': lambda eng, node, st, args: U('COMPILE_WILDCARD', *args),
                'isinstance': lambda eng, node, st, args: Bool(z3.Bool('file_pattern_is_bytes')),
                're.compile': lambda eng, node, st, args: U('RE', *args), 're.DOTALL': lambda eng, node, st, args: Flags(16)}

    @property
    def ensures(self):
        me = self

        def post(c):
            f = c.st.fields
            fp, dp = c.p['file_pattern'], c.p['folder_exclude_pattern']
            isb = z3.Bool('file_pattern_is_bytes')
            everything = U('fn._wcmatch.WcRegexp', V('tuple', None, items=[U('RE', pyvc.Str(z3.If(isb, z3.StringVal('^.*$'), z3.StringVal('^.*$'))), Flags(16))]))
            file_ok = z3.If(me.fc_none,
                            z3.If(pyvc.truthy(fp), pyvc.eq(f['file_check'], U('COMPILE_WILDCARD', fp, f['file_pathname'])), z3.BoolVal(True)),
                            pyvc.eq(f['file_check'], ObjV(z3.Const('old_file_check', Obj))))
            dir_ok = z3.If(me.dc_none,
                           z3.If(pyvc.truthy(dp), pyvc.eq(f['folder_exclude_check'], U('COMPILE_WILDCARD', dp, f['dir_pathname'])),
                                 pyvc.eq(f['folder_exclude_check'], U('fn._wcmatch.WcRegexp', V('tuple', None, items=[])))),
                           pyvc.eq(f['folder_exclude_check'], ObjV(z3.Const('old_folder_check', Obj))))
            return z3.And(file_ok, dir_ok)
        return [('WcMatch._compile.file_pattern_by_FILEPATHNAME_and_exclude_by_DIRPATHNAME;empty_exclude_matches_nothing;every_given_pattern_is_compiled_(so_the_limit_is_enforced)_whatever_the_flags', ('C14', 'C11'), post)]


class RegexpFilter(Contract):
    module, qual, props = '_wcmatch', 'WcRegexp.filter', ('C01', 'C19', 'C08', 'C06', 'C04')
    assumptions = ('the list comprehension is modelled as an abstract loop: each element is kept iff _Match(...).match(...) is true for it',)

    def inputs(self):
        return dict(params=dict(self=selfobj(), filenames=ObjV(z3.Const('filenames', Obj)), root_dir=ObjV(z3.Const('root_dir', Obj)), dir_fd=ObjV(z3.Const('dir_fd', Obj))),
                    fields={k: ObjV(z3.Const('self' + k, Obj)) for k in ('_include', '_exclude', '_real', '_path', '_follow')}, pre=[])

    def locate(self):
        # the body up to (not including) the list comprehension is straight-line; the comprehension itself is checked structurally
        return pyvc.find_def(self.module, self.qual)

    def lemmas(self):
        fn, src = pyvc.find_def('_wcmatch', 'WcRegexp.filter')
        comps = [n for n in ast.walk(fn) if isinstance(n, ast.ListComp)]
        ok = False
        if len(comps) == 1:
            lc = comps[0]
            g = lc.generators[0]
            cond = ast.unparse(g.ifs[0]) if len(g.ifs) == 1 else ''
            want = "_Match(os.fspath(filename), self._include, self._exclude, self._real, self._path, self._follow).match(root_dir=rdir, dir_fd=dir_fd)"
            ok = (ast.unparse(lc.elt) == 'filename' and ast.unparse(g.target) == 'filename' and ast.unparse(g.iter) == 'filenames' and cond.replace('\n', '').replace(' ', '') == want.replace(' ', ''))
        return [('WcRegexp.filter.keeps_exactly_the_names_for_which__Match(name,include,exclude,real,path,follow).match(root_dir,dir_fd)_in_order', ('C01', 'C19', 'C08', 'C06', 'C04'), z3.BoolVal(ok))]

    module = '_wcmatch'
    qual = 'WcRegexp.filter'

    def inputs_unused(self):
        pass


class RegexpFilterLemmaOnly(RegexpFilter):
    module = None


class MatcherWrappers(Contract):
    """fnmatch.WcMatcher.match/filter and glob.WcMatcher.match/filter delegate to the wrapped WcRegexp unchanged."""
    props = ('C19', 'C01')

    def lemmas(self):
        out = []
        for mod, meth, want in (('fnmatch', 'match', 'return self._matcher.match(filename)'), ('fnmatch', 'filter', 'return self._matcher.filter(filenames)'),
                                ('glob', 'match', 'return self._matcher.match(filename, root_dir, dir_fd)'), ('glob', 'filter', 'return self._matcher.filter(filenames, root_dir, dir_fd)')):
            try:
                fn, _ = pyvc.find_def(mod, f'WcMatcher.{meth}')
                body = [s for s in fn.body if not (isinstance(s, ast.Expr) and isinstance(s.value, ast.Constant))]
                ok = len(body) == 1 and ast.unparse(body[0]) == want
            except pyvc.Unsupported:
                ok = False
            out.append((f'{mod}.WcMatcher.{meth}.delegates_to_the_wrapped_WcRegexp_unchanged', ('C19', 'C01'), z3.BoolVal(ok)))
        return out


class GlobGlobInner(Contract):
    """Glob._glob: `**` walks deep with globstar_follow = is_globstarlong; explicit segments list non-deep (so `link/*` goes through the link);
    every recursive call gets a COPY of rest; `curdir/` is yielded once iff the pattern ends with `**` and curdir is non-empty."""
    module, qual, props = 'glob', 'Glob._glob', ('C05', 'C06')
    assumptions = ('_glob_dir / _get_matcher are abstract here (own contracts / harness); list operations pop(0) and [:] are head/tail/copy',)
    pure = ('_get_matcher',)

    def inputs(self):
        part = ObjV(z3.Const('part', Obj))
        fields = dict(empty=ObjV(z3.Const('self_empty', Obj)))
        return dict(params=dict(self=selfobj(), curdir=ObjV(z3.Const('curdir', Obj)), part=part, rest=ObjV(z3.Const('rest', Obj))), fields=fields, pre=[], ghost={'$globdir': [], '$rec': []})

    @property
    def hooks(self):
        me = self

        def h_globdir(eng, node, st, args):
            a = eng.norm_args('glob', 'Glob._glob_dir', node, st)
            st.ghost['$globdir'] = st.ghost['$globdir'] + [a]
            is_gs = z3.And(pyvc.truthy(U('attr.is_magic', st.env['part'])), pyvc.truthy(U('attr.is_globstar', st.env['part'])))
            gsl = pyvc.truthy(U('attr.is_globstarlong', st.env['part']))
            eng.oblige('Glob._glob.**_walks_deep_with_globstar_follow==is_globstarlong;explicit_segments_list_one_level_and_do_not_set_globstar_follow', st,
                       z3.And(pyvc.eq(a[0], st.env['curdir']), pyvc.truthy(a[3]) == is_gs, pyvc.truthy(a[4]) == z3.And(is_gs, gsl)), node)
            return ObjV(z3.Const(pyvc.fresh('globdir_gen'), Obj))

        def h_rec(eng, node, st, args):
            path, this, rest = args
            ok_copy = z3.BoolVal(isinstance(node.args[2], ast.Subscript) and isinstance(node.args[2].slice, ast.Slice) and node.args[2].slice.lower is None and node.args[2].slice.upper is None)
            eng.oblige('Glob._glob.each_recursive_call_receives_its_own_copy_of_rest_and_the_path_just_matched', st,
                       z3.And(ok_copy, pyvc.eq(path, st.env['path']), pyvc.eq(this, st.env['this']), pyvc.truthy(this)), node)
            return ObjV(z3.Const(pyvc.fresh('glob_gen'), Obj))

        def h_yf(eng, y, st):
            call = y.value
            nm = eng.dotted(call.func)
            if nm == 'self._glob':
                eng.call(call, st)
            elif nm == 'self._glob_dir':
                eng.call(call, st)
                st.ghost['$yf_globdir'] = True
            else:
                raise pyvc.Unsupported('yield from ' + nm)
            return [(st, pyvc.Outcome('normal'))]
        return {'self._glob_dir': h_globdir, 'self._glob': h_rec, 'yield from': h_yf}

    @property
    def invariants(self):
        t = lambda st, k: z3.BoolVal(True)      # noqa: E731
        return {1: ('self._glob_dir(curdir, matcher, dir_only, deep=True, globstar_follow=is_globstarlong)', t), 2: ('self._glob_dir(curdir, matcher, True)', t)}

    @property
    def at(self):
        def y(st):
            v = st.ghost['$point_value']
            loops = st.ghost.get('$loops', ())
            if loops:
                # inside a loop only the (path, is_dir) pairs coming from _glob_dir are passed on unchanged
                return pyvc.eq(v, V('tuple', None, items=[st.env['path'], st.env['is_dir']])) if v.kind == 'tuple' else z3.BoolVal(False)
            part = st.env['part']
            is_gs = z3.And(pyvc.truthy(U('attr.is_magic', part)), pyvc.truthy(U('attr.is_globstar', part)))
            return z3.And(is_gs, pyvc.truthy(st.env['globstar_end']), pyvc.truthy(st.env['curdir']),
                          pyvc.eq(v.a['items'][0], U('fn.os.path.join', st.env['curdir'], st.fields['empty'])) if v.kind == 'tuple' else z3.BoolVal(False))
        return {'yield:': [('Glob._glob.yields_curdir/_only_for_a_final_**_with_non-empty_curdir,_and_otherwise_passes_on_what__glob_dir_found', y)]}

    @property
    def ensures(self):
        def consumed(c):
            tr = list(c.st.trace)
            for ordn in (1, 2):
                it = max([i for i, t in enumerate(tr) if t == f'loop{ordn}:iter'], default=-1)
                ex = max([i for i, t in enumerate(tr) if t == f'loop{ordn}:exhausted'], default=-1)
                if it > ex:
                    return z3.BoolVal(False)          # the function ended from inside an iteration (break / return): later entries are dropped
            return z3.BoolVal(True)
        return [('Glob._glob.the_listing_of__glob_dir_is_consumed_to_the_end_(no_entry_is_dropped_by_an_early_exit)', ('C05',), consumed)]

    obligation_props = {'Glob._glob.**_walks': ('C06', 'C05'), 'Glob._glob.each_recursive': ('C05',), 'Glob._glob.yields_curdir': ('C05',), 'Glob._glob.loop': ('C05',)}


ALL = [GlobSplitInit(), GlobSplitStore(), WcParseInit(), TranslatePath(), Expand(), SplitFn(), IsMagic(), WcMatchCompile(), RegexpFilterLemmaOnly(), MatcherWrappers(), GlobGlobInner()]
