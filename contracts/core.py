"""Contracts on _wcparse.compile_pattern / translate / compile / _compile and _wcmatch._Match.match / WcRegexp.match.

compile_pattern and translate are checked against ONE shared specification:

 C11 (integers only; ghost: n inclusion patterns, t(i) >= 1 expansions of pattern i, S(k) = sum_{i<k} t(i), exclusions
      expand to T_e items of which D_e are distinct, D_i distinct inclusion expansions):
   only_if : PatternLimitException escapes  =>  L > 0  and  S(n) + T_e > L          [(ii) and (iv)]
   must_if : L > 0 and D_i + D_e > L        =>  PatternLimitException               [(i)]
   work    : items pulled from expand()      <=  max(L - D_e, 0) + 1  when L > 0     [(iii)]
   nothing else escapes (bracex.ExpansionLimitException is translated)
 C03/C07 (routing): every expansion is compiled exactly once per distinct text; an expansion e with
   is_negative(e, F) goes to the negative list as C(e[1:], F | DOTMATCH | _NO_GLOBSTAR_CAPTURE), any other to the
   positive list as C(e, F); exclude= patterns are compiled by the recursive call with flags
   no_negate(F) | DOTMATCH | _NO_GLOBSTAR_CAPTURE; the NEGATEALL default `**` is added iff negatives exist, positives do
   not and NEGATEALL is set, compiled with F | (GLOBSTAR if PATHNAME); the NODIR regex is appended iff a positive exists.
 C20 (order): norm_pattern(p, not unix, RAWCHARS bit) is applied to each pattern BEFORE expand().
S is instantiated at the loop indices only (never as a forall axiom); its monotonicity is a separate induction lemma.
"""
import ast

import z3

from vlib import pyvc
from vlib.pyvc import V, Int, Flags, Bool, Str, U, ObjV, Obj, BV, NONE, Fork, Outcome, AbstractIter
from .base import Contract
from . import flags as FL

WC = FL.WC
bv = FL.bv
has = FL.has

T = z3.Function('t', z3.IntSort(), z3.IntSort())          # expansions of inclusion pattern i
S = z3.Function('S', z3.IntSort(), z3.IntSort())          # partial sums
PAT = z3.Function('pattern_i', z3.IntSort(), z3.StringSort())
NORMED = z3.Function('normed_i', z3.IntSort(), z3.StringSort())
EXPN = z3.Function('expansion_ij', z3.IntSort(), z3.IntSort(), z3.StringSort())


class LimitLoops(Contract):
    """shared machinery for compile_pattern / translate"""
    props = ('C11', 'C07', 'C03', 'C20', 'C08', 'C14', 'C10', 'C02', 'C12', 'C04', 'C06')
    assumptions = (
        'bracex.iexpand(p, limit=l) raises ExpansionLimitException only if l > 0 and the number of brace expansions of p exceeds l (read in bracex.ExpandBrace.account, not verified)',
        'expand() yields t(i) >= 1 items for pattern i (brace expansions x split pieces), lazily',
        'ghost counts: 0 <= D_e <= T_e, D_e >= 1 if an exclude list is given and non-empty; 0 <= D_i <= S(n)',
        'the recursive call for exclude= is replaced by this same contract (modular; the body is not re-entered)',
    )
    compiler = '_compile'       # or 'WcParse'
    set_sort = z3.StringSort()
    forking = ('compile_pattern', 'translate')

    def inputs(self):
        self.n = z3.Int('n')
        self.L = z3.Int('limit')
        self.F = z3.BitVec('flags', BV)
        self.Te, self.De, self.Di = z3.Int('T_excl'), z3.Int('D_excl'), z3.Int('D_incl')
        self.has_excl = z3.Bool('exclude_given')
        n = self.n
        pre = list(FL.PLATFORM_PRE) + [
            n >= 0, S(0) == 0, S(n) >= 0, self.De >= 0, self.De <= self.Te, z3.Implies(z3.Not(self.has_excl), self.Te == 0),
            self.Di >= 0, self.Di <= S(n), z3.Implies(n >= 1, S(n) >= 1),
        ]
        excl = V('opt', None, isnone=z3.Not(self.has_excl), inner=ObjV(z3.Const('exclude', Obj)))
        params = dict(patterns=ObjV(z3.Const('patterns', Obj)), flags=Flags(self.F), limit=Int(self.L), exclude=excl)
        ghost = {'$pulled': z3.IntVal(0), '$F0': self.F, '$seen_g': z3.EmptySet(z3.StringSort())}
        return dict(params=params, pre=pre, ghost=ghost)

    # ---------------- hooks
    def mk_hooks(self):
        me = self

        def h_no_negate(eng, node, st, args):
            return Flags(args[0].t & ~bv(WC['NEGATE'] | WC['NEGATEALL']))

        def h_is_unix(eng, node, st, args):
            return Bool(FL.S_is_unix_style(args[0].t))

        def h_is_negative(eng, node, st, args):
            return Bool(FL.IsNegative.spec(args[0].t, args[1].t))

        def h_recursive(eng, node, st, args):
            a = eng.norm_args('_wcparse', me.qual, node, st)
            pats, fl, lim, excl = a
            F0 = st.ghost['$F0']
            want = (F0 & ~bv(WC['NEGATE'] | WC['NEGATEALL'])) | bv(WC['DOTMATCH'] | WC['_NO_GLOBSTAR_CAPTURE'])
            eng.oblige(f'{me.qual}.exclude_patterns_compiled_with_no_negate(F)|DOTMATCH|_NO_GLOBSTAR_CAPTURE', st, fl.t == want, node)
            eng.oblige(f'{me.qual}.exclude_call_passes_exclude_list_and_same_limit', st,
                       z3.And(pyvc.eq(pats, st.env['exclude']), lim.t == me.L, pyvc.eq(excl, NONE)), node)
            eng.oblige(f'{me.qual}.exclude_call_only_when_exclude_given', st, me.has_excl, node)
            st.ghost['$recursed'] = True
            raises = z3.And(me.L > 0, me.Te > me.L)                   # callee only_if (no nested exclude)
            must = z3.And(me.L > 0, me.De > me.L)                     # callee must_if
            pos = V('list', None, length=z3.Int(pyvc.fresh('len_excl_pos')), elem=None)
            neg = V('list', None, length=z3.Int(pyvc.fresh('len_excl_neg')), elem=None)

            def upd(s2):
                s2.pc.append(z3.And(pos.a['length'] >= 0, pos.a['length'] <= me.De, neg.a['length'] >= 0,
                                    z3.Implies(z3.Not(has(fl.t, 'NEGATE')), pos.a['length'] == me.De)))
            return Fork([(z3.Not(must), V('tuple', None, items=[pos, neg]), upd),
                         (raises, Outcome('raise', exc='PatternLimitException'), None)])

        def h_norm(eng, node, st, args):
            unix = FL.S_is_unix_style(st.env['flags'].t)
            k = st.ghost.get('$k1')
            eng.oblige(f'{me.qual}.norm_pattern_called_with(not_unix,RAWCHARS_bit)_on_each_pattern', st,
                       z3.And(pyvc.truthy(args[1]) == z3.Not(unix), pyvc.truthy(args[2]) == has(st.env['flags'].t, 'RAWCHARS'),
                              args[0].t == PAT(k) if k is not None else z3.BoolVal(False)), node)
            return Str(NORMED(k))

        def h_compile(eng, node, st, args):
            pat, fl = args[0], args[1]
            F = me.Floop(st)          # the flag word fixed before the loops (a body that rewrites `flags` fails here)
            loops = st.ghost.get('$loops', ())
            if 2 in loops:
                e = st.ghost['$elem2']
                neg = FL.IsNegative.spec(e.t, F)
                neg_fl = F | bv(WC['_NO_GLOBSTAR_CAPTURE'] | WC['DOTMATCH'])
                claim = z3.If(neg, z3.And(fl.t == neg_fl, pat.t == z3.SubString(e.t, 1, z3.Length(e.t) - 1)), z3.And(fl.t == F, pat.t == e.t))
                eng.oblige(f'{me.qual}.each_expansion_compiled_by_route(negative:e[1:],F|DOTMATCH|_NO_GLOBSTAR_CAPTURE;positive:e,F)', st, claim, node)
                eng.oblige(f'{me.qual}.exclusions_always_see_DOTMATCH', st, z3.Implies(neg, has(fl.t, 'DOTMATCH')), node)
                st.ghost['$compiled'] = st.ghost.get('$compiled', 0) + 1
                return U('C', pat, fl)
            # after the loops: the NEGATEALL default
            want = z3.If(has(F, 'PATHNAME'), F | bv(WC['GLOBSTAR']), F)
            isstar = z3.Or(pat.t == z3.StringVal('**')) if pat.kind == 'str' else z3.BoolVal(False)
            eng.oblige(f'{me.qual}.NEGATEALL_default_is_**_compiled_with_F|(GLOBSTAR_if_PATHNAME)', st, z3.And(fl.t == want, isstar), node)
            pos, neg = st.env['positive'], st.env['negative']
            eng.oblige(f'{me.qual}.NEGATEALL_default_only_if_negatives_and_no_positives_and_NEGATEALL', st,
                       z3.And(neg.a['length'] > 0, pos.a['length'] == 0, has(F, 'NEGATEALL')), node)
            st.ghost['$default_added'] = True
            return U('C', pat, fl)

        def h_wcparse(eng, node, st, args):
            r = h_compile(eng, node, st, args)
            return ObjV(r.t)

        hooks = dict(FL.PLATFORM_HOOKS)
        hooks.update({'no_negate_flags': h_no_negate, 'is_unix_style': h_is_unix, 'is_negative': h_is_negative,
                      self.qual: h_recursive, 'util.norm_pattern': h_norm, '_compile': h_compile, 'WcParse': h_wcparse})
        return hooks

    @property
    def hooks(self):
        if not hasattr(self, '_hooks'):
            self._hooks = self.mk_hooks()
        return self._hooks

    # ---------------- loops
    @property
    def iters(self):
        me = self

        def it1(eng, node, st):
            return AbstractIter(me.n, lambda k: Str(PAT(k)))

        def it2(eng, node, st):
            a = [eng.ev(x, st) for x in node.args]
            k = st.ghost['$k1']
            cl = a[2].t
            eng.oblige(f'{me.qual}.expand_receives_the_normalised_pattern_current_flags_and_remaining_budget', st,
                       z3.And(a[0].t == NORMED(k), a[1].t == st.env['flags'].t, cl == st.env['current_limit'].t), node)
            return AbstractIter(T(k), lambda j: Str(EXPN(k, j)),
                                raise_rule=lambda h, j: [(z3.And(cl > 0, T(k) > cl), 'bracex.ExpansionLimitException')])
        return {1: it1, 2: it2}

    @property
    def invariants(self):
        me = self
        def inv1(st, k):
            total, cl, lim = st.env['total'].t, st.env['current_limit'].t, st.env['limit'].t
            d = me.d0(st)
            return z3.And(lim == me.L, total == d + S(k), st.ghost['$pulled'] == S(k),
                          z3.Implies(me.L > 0, z3.And(total <= me.L, cl == z3.If(me.L - total >= 1, me.L - total, 1))),
                          z3.Implies(me.L <= 0, cl == me.L),
                          st.env['positive'].a['length'] >= 0, st.env['negative'].a['length'] >= d,
                          st.env['flags'].t == me.Floop(st), st.env['seen'].t == st.ghost['$seen_g'])

        def inv2(st, j):
            k = st.ghost['$k1']
            total, lim = st.env['total'].t, st.env['limit'].t
            d = me.d0(st)
            return z3.And(lim == me.L, st.env['count'].t == j, total == d + S(k) + j, st.ghost['$pulled'] == S(k) + j,
                          z3.Implies(me.L > 0, total <= me.L),
                          st.env['positive'].a['length'] >= 0, st.env['negative'].a['length'] >= d,
                          st.env['flags'].t == me.Floop(st), st.env['seen'].t == st.ghost['$seen_g'])
        return {1: ('iter_patterns(patterns)', inv1), 2: ('expand(pattern, flags, current_limit)', inv2)}

    def d0(self, st):
        """exclusion regexes counted into `total` before the loops"""
        return st.ghost.get('$d0', z3.IntVal(0))

    def Floop(self, st):
        return st.ghost.get('$Floop', self.F)

    loop_ghosts = {1: ('$pulled', '$seen_g'), 2: ('$pulled', '$seen_g')}

    @property
    def axioms_at(self):
        me = self

        def ax1(st, k):
            return [T(k) >= 1, S(k + 1) == S(k) + T(k), S(k) >= 0, S(k) <= S(me.n), z3.Implies(k < me.n, S(k + 1) <= S(me.n))]

        def ax2(st, j):
            return []
        return {1: ax1, 2: ax2}

    @property
    def on_entry(self):
        me = self
        q = self.qual

        def e1(eng, st, node):
            st.ghost['$d0'] = st.env['total'].t
            st.ghost['$Floop'] = st.env['flags'].t
            # ghost: the set of raw expansion texts handled so far; `seen` must equal it (one compile per distinct raw text:
            # an inclusion `p` and an inline exclusion `!p` are different texts)
            st.ghost['$seen_g'] = st.env['seen'].t
            F0 = me.F
            base = z3.If(me.has_excl, F0 & ~bv(WC['NEGATE'] | WC['NEGATEALL']), F0)
            want = base if q == 'compile_pattern' else (base | bv(WC['_TRANSLATE'])) & bv(WC['FLAG_MASK'])
            eng.oblige(f'{q}.flags_used_for_inclusions_are_F_(negation_bits_cleared_iff_exclude_given)', st, st.env['flags'].t == want, node)
            eng.oblige(f'{q}.running_total_starts_at_number_of_exclusion_regexes', st,
                       z3.And(st.env['total'].t == z3.If(me.has_excl, st.env['negative'].a['length'], 0),
                              z3.Implies(me.has_excl, st.env['negative'].a['length'] == me.De), st.env['limit'].t == me.L), node)
        return {1: e1}

    @property
    def on_iter(self):
        me = self

        def o1(eng, st, k):
            # entering iteration k of the pattern loop: remember the state the inner loop starts from
            pass

        def o2(eng, st, j):
            st.ghost['$pulled'] = st.ghost['$pulled'] + 1
            st.ghost['$seen_g'] = z3.SetAdd(st.ghost['$seen_g'], EXPN(st.ghost['$k1'], j))
        return {1: o1, 2: o2}

    # ---------------- postconditions
    @property
    def ensures(self):
        me = self
        q = self.qual

        def must_raise(c):
            return z3.Not(z3.And(me.L > 0, me.Di + me.De > me.L))

        def work(c):
            return z3.Implies(me.L > 0, c.st.ghost['$pulled'] <= z3.If(me.L - me.d0(c.st) >= 0, me.L - me.d0(c.st), 0) + 1)

        def nodir(c):
            pos, neg = c.ret.a['items'][0], c.ret.a['items'][1]
            F = c.st.env['flags'].t
            tail = neg.a.get('tail', [])
            cond = z3.And(pos.a['length'] > 0, has(F, 'NODIR'))
            if len(tail) == 0:
                return z3.Not(cond)
            if len(tail) != 1:
                return z3.BoolVal(False)
            return cond

        def default_iff(c):
            # the default inclusion exists on return iff negatives exist, positives did not, NEGATEALL set
            F = c.st.env['flags'].t
            added = c.st.ghost.get('$default_added', False)
            pos, neg = c.ret.a['items'][0], c.ret.a['items'][1]
            if added:
                return z3.BoolVal(True)       # the conditions were obligations at the call site
            nneg = neg.a['length'] - len(neg.a.get('tail', []))
            return z3.Not(z3.And(nneg > 0, pos.a['length'] == 0, has(F, 'NEGATEALL')))
        return [
            (f'{q}.must_raise_when_distinct_inclusions_plus_exclusions_exceed_limit', ('C11',), must_raise),
            (f'{q}.work_bound_items_pulled_at_most_remaining_budget_plus_one', ('C11',), work),
            (f'{q}.NODIR_regex_appended_iff_positive_nonempty_and_NODIR', ('C02', 'C12', 'C07', 'C10'), nodir),
            (f'{q}.NEGATEALL_default_added_whenever_negatives_without_positives', ('C07', 'C14'), default_iff),
        ]

    @property
    def exc_ensures(self):
        me = self
        q = self.qual

        def only_if(c):
            return z3.And(me.L > 0, S(me.n) + me.Te > me.L)

        def work(c):
            return z3.Implies(me.L > 0, c.st.ghost['$pulled'] <= z3.If(me.L - me.d0(c.st) >= 0, me.L - me.d0(c.st), 0) + 1)
        return [
            (f'{q}.raises_only_if_limit_positive_and_total_expansions_exceed_it', ('C11',), only_if),
            (f'{q}.work_bound_on_raise', ('C11',), work),
        ]

    allowed_raises = ('PatternLimitException',)

    @property
    def obligation_props(self):
        q = self.qual
        return {
            f'{q}.exclude_': ('C07', 'C03', 'C11', 'C04'), f'{q}.norm_pattern': ('C20',), f'{q}.expand_receives': ('C20', 'C11'),
            f'{q}.each_expansion': ('C07', 'C03'), f'{q}.exclusions_always': ('C03', 'C07', 'C04'), f'{q}.NEGATEALL': ('C07', 'C14', 'C08'),
            f'{q}.loop': ('C11', 'C07', 'C03'), f'_wcparse.{q}.raises_only_documented': ('C11', 'C10'), f'{q}.flags_used': ('C07', 'C08', 'C03', 'C06', 'C04'), f'{q}.running_total': ('C11',),
        }

    def lemmas(self):
        i, n = z3.Int('i'), z3.Int('n')
        return [
            ('C11.lemma.S_monotone.base', ('C11',), S(n) <= S(n)),
            ('C11.lemma.S_monotone.step', ('C11',), z3.Implies(z3.And(i < n, S(i + 1) <= S(n), S(i + 1) == S(i) + T(i), T(i) >= 1), S(i) <= S(n))),
        ]


class CompilePattern(LimitLoops):
    module, qual = '_wcparse', 'compile_pattern'



class Translate(LimitLoops):
    module, qual = '_wcparse', 'translate'
    compiler = 'WcParse'


ALL = [CompilePattern(), Translate()]
