"""Round 3, second batch: the small helpers that sit between contracts already in place - WcMatch.kill / reset / is_aborted / get_skipped /
_add_sep / _norm_slash / _get_cwd, _Match.__init__, WcSplit.__init__ / split, _GlobSplit.is_magic, Glob._get_matcher / _pathlib_norm, expand_tilde."""
import z3

from vlib import pyvc
from vlib.pyvc import V, Int, Flags, Bool, Str, U, ObjV, Obj, BV, NONE, Fork, Outcome
from .base import Contract
from . import flags as FL

has = FL.has
WC = FL.WC


def selfobj():
    return ObjV(z3.Const('self', Obj))


def T(v):
    return pyvc.truthy(v)


# ------------------------------------------------------------------------------------------------- WcMatch state accessors
class _Abort(Contract):
    module, props = 'wcmatch', ('C15',)

    def inputs(self):
        self.ab, self.sk = z3.Bool('self__abort'), z3.Int('self__skipped')
        return dict(params=dict(self=selfobj()), fields=dict(_abort=Bool(self.ab), _skipped=Int(self.sk)), pre=[])

    def only(self, c, abort):
        f = c.st.fields
        return z3.And(z3.BoolVal(set(f) == {'_abort', '_skipped'}), T(f['_abort']) == abort, z3.BoolVal(f['_skipped'].kind == 'int'), f['_skipped'].t == self.sk)


class Kill(_Abort):
    qual = 'WcMatch.kill'

    @property
    def ensures(self):
        return [('WcMatch.kill.sets_the_abort_flag_and_nothing_else', ('C15',), lambda c: z3.And(self.only(c, z3.BoolVal(True)), pyvc.eq(c.ret, NONE)))]


class Reset(_Abort):
    qual = 'WcMatch.reset'

    @property
    def ensures(self):
        return [('WcMatch.reset.clears_the_abort_flag_and_nothing_else', ('C15',), lambda c: z3.And(self.only(c, z3.BoolVal(False)), pyvc.eq(c.ret, NONE)))]


class IsAborted(_Abort):
    qual = 'WcMatch.is_aborted'

    @property
    def ensures(self):
        return [('WcMatch.is_aborted.reports_the_abort_flag_without_changing_it', ('C15',), lambda c: z3.And(self.only(c, self.ab), T(c.ret) == self.ab))]


class GetSkipped(_Abort):
    qual = 'WcMatch.get_skipped'
    props = ('C15', 'C14')

    @property
    def ensures(self):
        return [('WcMatch.get_skipped.reports_the_counter_without_changing_anything', ('C15', 'C14'),
                 lambda c: z3.And(self.only(c, self.ab), z3.BoolVal(c.ret.kind == 'int'), c.ret.t == self.sk))]


class AddSep(Contract):
    module, qual, props = 'wcmatch', 'WcMatch._add_sep', ('C14', 'C18')

    def inputs(self):
        self.p, self.sep, self.chk = z3.String('path'), z3.String('self__sep'), z3.Bool('check')
        return dict(params=dict(self=selfobj(), path=Str(self.p), check=Bool(self.chk)), fields=dict(_sep=Str(self.sep)), pre=[z3.Length(self.sep) == 1])

    @property
    def ensures(self):
        me = self
        return [('WcMatch._add_sep.appends_the_separator_unless_check_is_set_and_it_is_already_there', ('C14', 'C18'),
                 lambda c: z3.And(z3.BoolVal(c.ret.kind == 'str'), c.ret.t == z3.If(z3.And(me.chk, z3.SuffixOf(me.sep, me.p)), me.p, z3.Concat(me.p, me.sep))))]


REPL = z3.Function('str_replace_all', z3.StringSort(), z3.StringSort(), z3.StringSort(), z3.StringSort())


class NormSlash(Contract):
    module, qual, props = 'wcmatch', 'WcMatch._norm_slash', ('C14', 'C17', 'C18')
    is_bytes = False

    def inputs(self):
        self.n = z3.String('name')
        return dict(params=dict(self=selfobj(), name=Str(self.n, is_bytes=self.is_bytes)), fields={}, pre=list(FL.PLATFORM_PRE), ghost={'$typed': True})

    @property
    def hooks(self):
        me = self
        h = dict(FL.PLATFORM_HOOKS)

        def h_replace(eng, node, st, args):
            recv = eng.ev(node.func.value, st)
            if any(a.kind != 'str' or a.a.get('is_bytes', False) != me.is_bytes for a in args):
                st.ghost['$typed'] = False
                return ObjV(z3.Const(pyvc.fresh('mistyped_replace'), Obj))
            return Str(REPL(recv.t, args[0].t, args[1].t), is_bytes=me.is_bytes)
        h['.replace'] = h_replace
        return h

    @property
    def ensures(self):
        me = self

        def post(c):
            if c.ret.kind != 'str' or c.ret.a.get('is_bytes', False) != me.is_bytes or not c.st.ghost['$typed']:
                return z3.BoolVal(False)
            return c.ret.t == z3.If(FL.CASE_FS, me.n, REPL(me.n, z3.StringVal('/'), z3.StringVal('\\')))
        return [('WcMatch._norm_slash.unchanged_on_a_case-sensitive_platform_else_slashes_become_backslashes_(constants_of_the_names_type)' + ('[bytes]' if self.is_bytes else ''),
                 ('C14', 'C17', 'C18'), post)]


class NormSlashBytes(NormSlash):
    is_bytes = True


class GetCwd(Contract):
    module, qual, props = 'wcmatch', 'WcMatch._get_cwd', ('C14', 'C18')
    is_bytes = False

    def inputs(self):
        self.d = z3.String('self__directory')
        return dict(params=dict(self=selfobj()), fields=dict(_directory=Str(self.d, is_bytes=self.is_bytes)), pre=[])

    hooks = {'os.curdir': lambda eng, node, st, args: Str('.')}

    @property
    def ensures(self):
        me = self

        def post(c):
            dot = Str('.', is_bytes=False)
            if me.is_bytes:
                want = z3.If(z3.Length(me.d) > 0, pyvc.to_obj(Str(me.d, is_bytes=True)), U('fn.bytes', dot, Str('ASCII')).t)
            else:
                want = z3.If(z3.Length(me.d) > 0, pyvc.to_obj(Str(me.d)), pyvc.to_obj(dot))
            return pyvc.to_obj(c.ret) == want
        return [('WcMatch._get_cwd.the_given_directory_or_the_current_directory_in_the_type_of_the_root' + ('[bytes]' if self.is_bytes else ''), ('C14', 'C18'), post)]


class GetCwdBytes(GetCwd):
    is_bytes = True


# ------------------------------------------------------------------------------------------------- _Match.__init__, WcSplit
class MatchInit(Contract):
    module, qual, props = '_wcmatch', '_Match.__init__', ('C18', 'C19', 'C04')
    is_bytes = False

    def inputs(self):
        p = dict(self=selfobj(), filename=Str(z3.String('filename'), is_bytes=self.is_bytes), include=ObjV(z3.Const('include', Obj)), exclude=ObjV(z3.Const('exclude', Obj)),
                 real=Bool(z3.Bool('real')), path=Bool(z3.Bool('path')), follow=Bool(z3.Bool('follow')))
        return dict(params=p, fields={}, pre=[])

    @property
    def ensures(self):
        me = self

        def post(c):
            f, p = c.st.fields, c.p
            if set(f) != {'filename', 'include', 'exclude', 'real', 'path', 'follow', 'ptype'}:
                return z3.BoolVal(False)
            return z3.And(*[pyvc.eq(f[n], p[n]) for n in ('filename', 'include', 'exclude', 'real', 'path', 'follow')],
                          pyvc.eq(f['ptype'], Flags(1 if me.is_bytes else 0)))
        return [('_Match.__init__.stores_its_six_arguments_unchanged_and_the_string_type_of_the_FILE_NAME' + ('[bytes]' if self.is_bytes else ''), ('C18', 'C19', 'C04'), post)]


class MatchInitBytes(MatchInit):
    is_bytes = True


class WcSplitInit(Contract):
    module, qual, props = '_wcparse', 'WcSplit.__init__', ('C07', 'C17')

    def inputs(self):
        self.F = z3.BitVec('flags', BV)
        return dict(params=dict(self=selfobj(), pattern=ObjV(z3.Const('pattern', Obj)), flags=Flags(self.F)), fields={}, pre=list(FL.PLATFORM_PRE))

    @property
    def hooks(self):
        h = dict(FL.PLATFORM_HOOKS)
        h['is_unix_style'] = lambda eng, node, st, args: Bool(FL.S_is_unix_style(args[0].t))
        return h

    @property
    def ensures(self):
        me = self

        def post(c):
            f = c.st.fields
            pn, unix = has(me.F, 'PATHNAME'), FL.S_is_unix_style(me.F)
            return z3.And(pyvc.eq(f['pattern'], c.p['pattern']), T(f['pathname']) == pn, T(f['extend']) == has(me.F, 'EXTMATCH'), T(f['unix']) == unix,
                          T(f['bslash_abort']) == z3.And(z3.Not(unix), pn))
        return [('WcSplit.__init__.splits_with_the_same_mode_bits_the_compiler_uses_(pathname,extend,unix;backslash_separator_iff_Windows_path_mode)', ('C07', 'C17'), post)]


class WcSplitSplit(Contract):
    module, qual, props = '_wcparse', 'WcSplit.split', ('C07', 'C18')
    is_bytes = False
    PIECE = z3.Function('split_piece_k', z3.IntSort(), z3.StringSort())

    def inputs(self):
        self.pat = z3.String('self_pattern')
        self.n = z3.Int('n_pieces')
        return dict(params=dict(self=selfobj()), fields=dict(pattern=Str(self.pat, is_bytes=self.is_bytes)), pre=[self.n >= 0], ghost={'$yf': [], '$split_arg': None, '$codec': []})

    @property
    def hooks(self):
        me = self

        def h_split(eng, node, st, args):
            st.ghost['$split_arg'] = args[0]
            return V('list', None, length=me.n, elem=lambda k: Str(me.PIECE(k)))

        def h_decode(eng, node, st, args):
            st.ghost['$codec'] = st.ghost['$codec'] + [('decode', args[0] if args else None)]
            return Str(me.pat)            # the latin-1 text of the bytes pattern (same code units)

        def h_encode(eng, node, st, args):
            st.ghost['$codec'] = st.ghost['$codec'] + [('encode', args[0] if args else None)]
            recv = eng.ev(node.func.value, st)
            return Str(recv.t, is_bytes=True)

        def h_yf(eng, y, st):
            st.ghost['$yf'] = st.ghost['$yf'] + [eng.ev(y.value, st)]
            return [(st, Outcome('normal'))]
        return {'self._split': h_split, '.decode': h_decode, '.encode': h_encode, 'yield from': h_yf}

    @property
    def invariants(self):
        return {1: (None, lambda st, k: z3.BoolVal(True))}

    @property
    def at(self):
        me = self

        def y(st):
            v = st.ghost['$point_value']
            k = st.ghost.get('$k1')
            cod = st.ghost['$codec']
            latin = all(a is not None and a.kind == 'str' and z3.is_true(z3.simplify(a.t == z3.StringVal('latin-1'))) for _, a in cod)
            return z3.And(z3.BoolVal(v.kind == 'str' and v.a.get('is_bytes', False) and latin and len(cod) == 2), v.t == me.PIECE(k))
        return {'yield:': [('WcSplit.split.bytes:each_piece_of_the_latin-1_text_is_yielded_encoded_with_latin-1', y)]}

    @property
    def ensures(self):
        me = self

        def post(c):
            arg, yf = c.st.ghost['$split_arg'], c.st.ghost['$yf']
            if arg is None or arg.kind != 'str':
                return z3.BoolVal(False)
            if me.is_bytes:
                return z3.And(z3.BoolVal(not yf and not arg.a.get('is_bytes', False)), arg.t == me.pat)
            return z3.And(z3.BoolVal(len(yf) == 1 and not arg.a.get('is_bytes', False)), arg.t == me.pat, c.st.ghost['$yields'] == 0)
        return [('WcSplit.split.the_scanner_gets_the_pattern_text_(latin-1_text_of_a_bytes_pattern)_and_its_pieces_are_what_is_yielded' + ('[bytes]' if self.is_bytes else ''), ('C07', 'C18'), post)]

    obligation_props = {'WcSplit.split.': ('C07', 'C18'), 'WcSplit.split.loop': ('C18',)}


class WcSplitSplitBytes(WcSplitSplit):
    is_bytes = True


# ------------------------------------------------------------------------------------------------- glob helpers
class GlobSplitIsMagic(Contract):
    """_GlobSplit.is_magic(name): True iff one of the magic symbols in force occurs in the name."""
    module, qual, props = 'glob', '_GlobSplit.is_magic', ('C05', 'C09')
    SYM = z3.Function('magic_symbol_k', z3.IntSort(), z3.StringSort())

    def inputs(self):
        self.name, self.n = z3.String('name'), z3.Int('n_symbols')
        me = self
        syms = V('list', None, length=self.n, elem=lambda k: Str(me.SYM(k)))
        return dict(params=dict(self=selfobj(), name=Str(self.name)), fields=dict(magic_symbols=syms), pre=[self.n >= 0])

    @property
    def invariants(self):
        me = self
        i = z3.Int('i!inv')
        return {1: ('self.magic_symbols', lambda st, k: z3.ForAll([i], z3.Implies(z3.And(i >= 0, i < k), z3.Not(z3.Contains(me.name, me.SYM(i))))))}

    @property
    def ensures(self):
        me = self
        i = z3.Int('i!post')
        return [('_GlobSplit.is_magic.true_iff_some_magic_symbol_in_force_occurs_in_the_name', ('C05', 'C09'),
                 lambda c: T(c.ret) == z3.Exists([i], z3.And(i >= 0, i < me.n, z3.Contains(me.name, me.SYM(i)))))]

    obligation_props = {'_GlobSplit.is_magic.loop': ('C05',)}


class GetMatcher(Contract):
    """Glob._get_matcher: no target - no matcher; a literal segment is compared by _match_literal against the text lower-cased exactly when matching is
    case-insensitive; a compiled segment pattern must match the WHOLE name (fullmatch - fix f3a98d1)."""
    module, qual, props = 'glob', 'Glob._get_matcher', ('C05', 'C17', 'C04')
    kind = 'regex'

    def inputs(self):
        self.cs = z3.Bool('self_case_sensitive')
        t = dict(regex=ObjV(z3.Const('target', Obj)), none=NONE, text=Str(z3.String('target_text')))[self.kind]
        return dict(params=dict(self=selfobj(), target=t), fields=dict(case_sensitive=Bool(self.cs)), pre=[] if self.kind != 'regex' else [z3.Not(pyvc.is_none_term(t.t))])

    @property
    def hooks(self):
        me = self
        h = {'self._match_literal': lambda eng, node, st, args: ObjV(z3.Const('bound:_match_literal', Obj))}
        if self.kind == 'regex':
            h['isinstance'] = lambda eng, node, st, args: Bool(False)
        return h

    @property
    def ensures(self):
        me = self

        def post(c):
            if me.kind == 'none':
                return pyvc.eq(c.ret, NONE)
            if me.kind == 'regex':
                return pyvc.to_obj(c.ret) == U('attr.fullmatch', c.p['target']).t
            t = c.p['target'].t
            key = z3.If(me.cs, t, pyvc.STR_LOWER(t))
            return pyvc.to_obj(c.ret) == U('fn.functools.partial,b=', ObjV(z3.Const('bound:_match_literal', Obj)), Str(key)).t
        nm = {'none': 'Glob._get_matcher.no_target_no_matcher', 'regex': 'Glob._get_matcher.a_segment_pattern_has_to_match_the_whole_name_(fullmatch)',
              'text': 'Glob._get_matcher.a_literal_segment_is_compared_by__match_literal_with_the_text_lower-cased_iff_case-insensitive'}[self.kind]
        return [(nm, ('C05', 'C17', 'C04'), post)]


class GetMatcherNone(GetMatcher):
    kind = 'none'


class GetMatcherText(GetMatcher):
    kind = 'text'



# ------------------------------------------------------------------------------------------------- expand_tilde
class ExpandTilde(Contract):
    """expand_tilde: the pattern is returned unchanged unless tilde_pos() finds a tilde, the user-directory regex of the platform rules in force and of the
    pattern's type matches there, os.path.expanduser changes the text (a ValueError from it means: unknown user) and the result exists; then the matched text
    is replaced by the ESCAPED expansion (escaped under the same platform rules), keeping a negation character in front and the rest of the pattern behind."""
    module, qual, props = '_wcparse', 'expand_tilde', ('C13', 'C10', 'C17', 'C09')
    is_bytes = False
    assumptions = ('re.Pattern.match(text, pos) returns None or a match m with pos <= m.end(0) <= len(text), and what RE_TILDE / RE_WIN_TILDE match starts with `~` (both regexes begin with it); os.path.expanduser / os.path.exists / escape are uninterpreted here',)
    EXPANDED = z3.Function('expanduser_of', z3.StringSort(), z3.StringSort())
    EXISTS = z3.Function('path_exists', z3.StringSort(), z3.BoolSort())
    ESC = z3.Function('escaped_for', z3.StringSort(), z3.BoolSort(), z3.StringSort())
    G0 = z3.Function('tilde_match_text', Obj, z3.StringSort(), z3.IntSort(), z3.StringSort())
    END = z3.Function('tilde_match_end', Obj, z3.StringSort(), z3.IntSort(), z3.IntSort())
    HIT = z3.Function('tilde_regex_matches', Obj, z3.StringSort(), z3.IntSort(), z3.BoolSort())

    def inputs(self):
        self.pat, self.unix, self.F, self.pos = z3.String('pattern'), z3.Bool('is_unix'), z3.BitVec('flags', BV), z3.Int('tilde_pos')
        return dict(params=dict(pattern=Str(self.pat, is_bytes=self.is_bytes), is_unix=Bool(self.unix), flags=Flags(self.F)), pre=[self.pos >= -1, self.pos <= 1], ghost={'$m': None, '$typed': True})

    forking = ('re_tilde.match', 'os.path.expanduser')

    def table(self):
        idx = Flags(1 if self.is_bytes else 0)
        return z3.If(self.unix, U('getitem', ObjV(z3.Const('global:RE_TILDE', Obj)), idx).t, U('getitem', ObjV(z3.Const('global:RE_WIN_TILDE', Obj)), idx).t)

    @property
    def hooks(self):
        me = self

        def h_pos(eng, node, st, args):
            eng.oblige('expand_tilde.asks_tilde_pos_about_the_pattern_and_the_flags_as_given', st, z3.And(pyvc.eq(args[0], st.env['pattern']), args[1].t == me.F), node)
            return Int(me.pos)

        def h_match(eng, node, st, args):
            rx = pyvc.to_obj(eng.ev(node.func.value, st))
            if len(args) != 2 or args[0].kind != 'str' or args[1].kind != 'int':
                raise pyvc.Unsupported('match arguments')
            hit = me.HIT(rx, args[0].t, args[1].t)
            mobj = ObjV(z3.Const(pyvc.fresh('match'), Obj))

            def upd(s2):
                s2.ghost['$m'] = (rx, args[0].t, args[1].t)
                end = me.END(rx, args[0].t, args[1].t)
                s2.pc += [pyvc.truthy(mobj), end >= args[1].t, end <= z3.Length(args[0].t), z3.PrefixOf(z3.StringVal('~'), me.G0(rx, args[0].t, args[1].t))]
            return Fork([(hit, mobj, upd), (z3.Not(hit), NONE, None)])

        def h_group(eng, node, st, args):
            rx, txt, pos = st.ghost['$m']
            return Str(me.G0(rx, txt, pos), is_bytes=me.is_bytes)

        def h_end(eng, node, st, args):
            rx, txt, pos = st.ghost['$m']
            return Int(me.END(rx, txt, pos))

        def h_expanduser(eng, node, st, args):
            bad = z3.Bool(pyvc.fresh('expanduser_raises_ValueError'))
            return Fork([(z3.Not(bad), Str(me.EXPANDED(args[0].t), is_bytes=me.is_bytes), None), (bad, Outcome('raise', exc='ValueError'), None)])

        def h_exists(eng, node, st, args):
            return Bool(me.EXISTS(args[0].t))

        def h_escape(eng, node, st, args):
            if len(args) != 2 or args[0].kind != 'str':
                raise pyvc.Unsupported('escape arguments')
            return Str(me.ESC(args[0].t, pyvc.truthy(args[1])), is_bytes=me.is_bytes)
        return {'tilde_pos': h_pos, '.match': h_match, '.group': h_group, '.end': h_end, 'os.path.expanduser': h_expanduser, 'os.path.exists': h_exists, 'escape': h_escape}

    @property
    def ensures(self):
        me = self

        def post(c):
            if c.ret.kind != 'str' or c.ret.a.get('is_bytes', False) != me.is_bytes:
                return z3.BoolVal(False)
            rx = me.table()
            hit = z3.And(me.pos > -1, me.HIT(rx, me.pat, me.pos))
            g0, end = me.G0(rx, me.pat, me.pos), me.END(rx, me.pat, me.pos)
            exp = me.EXPANDED(g0)
            head = z3.If(me.pos != 0, z3.SubString(me.pat, 0, 1), z3.StringVal(''))
            tail = z3.SubString(me.pat, end, z3.Length(me.pat) - end)
            replaced = z3.Concat(head, me.ESC(exp, me.unix), tail)
            m = c.st.ghost['$m']
            trace = ' '.join(c.st.trace)
            raised = 'expanduser->ValueError' in trace
            if m is None:
                return z3.And(z3.Not(hit), c.ret.t == me.pat)
            if raised:
                return z3.And(hit, c.ret.t == me.pat)                       # an unknown / unusable user name: no expansion
            change = z3.And(z3.Not(z3.PrefixOf(z3.StringVal('~'), exp)), me.EXISTS(exp))
            return z3.And(hit, pyvc.to_obj(ObjV(m[0])) == rx, c.ret.t == z3.If(change, replaced, me.pat))
        nm = 'expand_tilde.unchanged_unless_a_tilde_prefix_is_found_by_the_platforms_regex_and_expands_to_an_existing_path;then_replaced_by_the_ESCAPED_expansion_keeping_the_negation_character'
        return [(nm + ('[bytes]' if self.is_bytes else ''), ('C13', 'C10', 'C17', 'C09'), post)]

    allowed_raises = ()
    obligation_props = {'expand_tilde.asks': ('C13', 'C07')}


class ExpandTildeBytes(ExpandTilde):
    is_bytes = True


# ------------------------------------------------------------------------------------------------- matcher objects: hash / len / WcMatcher.__init__
class RegexpHash(Contract):
    """WcRegexp.__hash__ / WcMatcher.__hash__: the value computed once by __init__ (whose contract pins WHAT is hashed), never recomputed from mutable state."""
    module, qual, props = '_wcmatch', 'WcRegexp.__hash__', ('C19',)

    def inputs(self):
        self.h = z3.Int('self__hash')
        return dict(params=dict(self=selfobj()), fields=dict(_hash=Int(self.h)), pre=[])

    @property
    def ensures(self):
        me = self
        nm = self.qual + '.returns_the_hash_stored_by___init__'
        return [(nm, ('C19',), lambda c: z3.And(z3.BoolVal(c.ret.kind == 'int' and set(c.st.fields) == {'_hash'}), c.ret.t == me.h, c.st.fields['_hash'].t == me.h))]


class MatcherHash(RegexpHash):
    qual = 'WcMatcher.__hash__'


class RegexpLen(Contract):
    module, qual, props = '_wcmatch', 'WcRegexp.__len__', ('C19', 'C07')

    def inputs(self):
        self.ni, self.ne, self.ex_none = z3.Int('n_include'), z3.Int('n_exclude'), z3.Bool('exclude_is_None')
        ex = V('opt', None, isnone=self.ex_none, inner=V('list', None, length=self.ne))
        return dict(params=dict(self=selfobj()), fields=dict(_include=V('list', None, length=self.ni), _exclude=ex), pre=[self.ni >= 0, self.ne >= 0])

    @property
    def ensures(self):
        me = self
        return [('WcRegexp.__len__.number_of_inclusion_regexes_plus_exclusion_regexes', ('C19', 'C07'),
                 lambda c: z3.And(z3.BoolVal(c.ret.kind == 'int'), c.ret.t == me.ni + z3.If(me.ex_none, 0, me.ne)))]


class MatcherInit(Contract):
    """WcMatcher.__init__: stores the matcher and a hash of (own class, class of the matcher, the matcher) - nothing handed in from outside (a pickled copy recomputes it)."""
    module, qual, props = '_wcmatch', 'WcMatcher.__init__', ('C19',)

    def inputs(self):
        return dict(params=dict(self=selfobj(), matcher=ObjV(z3.Const('matcher', Obj))), fields={}, pre=[], ghost={'$kw': None})

    @property
    def hooks(self):
        def h_super(eng, node, st, args):
            st.ghost['$kw'] = ({k.arg: eng.ev(k.value, st) for k in node.keywords}, len(node.args))
            return NONE
        return {'super().__init__': h_super, 'type': lambda eng, node, st, args: U('fn.type', *args), 'hash': lambda eng, node, st, args: U('fn.hash', *args)}

    @property
    def ensures(self):
        def post(c):
            kw = c.st.ghost['$kw']
            if kw is None or kw[1] != 0 or set(kw[0]) != {'_matcher', '_hash'}:
                return z3.BoolVal(False)
            m, slf = c.p['matcher'], c.p['self']
            want = U('fn.hash', V('tuple', None, items=[U('fn.type', slf), U('fn.type', m), m]))
            return z3.And(pyvc.eq(kw[0]['_matcher'], m), pyvc.to_obj(kw[0]['_hash']) == want.t)
        return [('WcMatcher.__init__.stores_the_matcher_and_hash((own_class,class_of_the_matcher,matcher))_computed_here', ('C19',), post)]


class PathlibNorm(Contract):
    """Glob._pathlib_norm: the path with `.` segments removed by the platform's regex, and ONE trailing separator dropped unless the path is just a separator."""
    module, qual, props = 'glob', 'Glob._pathlib_norm', ('C16', 'C13')
    SUBBED = z3.Function('dot_segments_removed', Obj, z3.StringSort(), z3.StringSort())

    def inputs(self):
        self.p = z3.String('path')
        return dict(params=dict(self=selfobj(), path=Str(self.p)), fields=dict(re_pathlib_norm=ObjV(z3.Const('self_re_pathlib_norm', Obj)), empty=Str(''), seps=ObjV(z3.Const('self_seps', Obj))), pre=[], ghost={'$sub': None})

    @property
    def hooks(self):
        me = self

        def h_sub(eng, node, st, args):
            st.ghost['$sub'] = (eng.ev(node.func.value, st), args)
            return Str(me.SUBBED(pyvc.to_obj(eng.ev(node.func.value, st)), args[1].t))
        return {'.sub': h_sub}

    @property
    def ensures(self):
        me = self

        def post(c):
            sub = c.st.ghost['$sub']
            if sub is None or c.ret.kind != 'str':
                return z3.BoolVal(False)
            rx, args = sub
            q = me.SUBBED(z3.Const('self_re_pathlib_norm', Obj), me.p)
            n = z3.Length(q)
            last_is_sep = pyvc.truthy(U('contains', ObjV(z3.Const('self_seps', Obj)), Str(z3.SubString(q, n - 1, 1))))
            return z3.And(pyvc.to_obj(rx) == z3.Const('self_re_pathlib_norm', Obj), args[0].t == z3.StringVal(''), args[1].t == me.p,
                          c.ret.t == z3.If(z3.And(n > 1, last_is_sep), z3.SubString(q, 0, n - 1), q))
        return [('Glob._pathlib_norm.dot_segments_removed_and_one_trailing_separator_dropped_(never_the_only_character)', ('C16', 'C13'), post)]

ALL = [Kill(), Reset(), IsAborted(), GetSkipped(), AddSep(), NormSlash(), NormSlashBytes(), GetCwd(), GetCwdBytes(), MatchInit(), MatchInitBytes(), WcSplitInit(), WcSplitSplit(),
       WcSplitSplitBytes(), GlobSplitIsMagic(), GetMatcher(), GetMatcherNone(), GetMatcherText(), ExpandTilde(), ExpandTildeBytes(), RegexpHash(), MatcherHash(), RegexpLen(), MatcherInit(), PathlibNorm()]
