"""Call-chain contracts: every public entry point hands its arguments (patterns, transformed flags, limit, exclude,
root_dir, dir_fd) unchanged to the core, so that e.g. `fnmatch(name, p, f) == WcRegexp(compile_pattern(p, T(f), limit,
exclude)).match(name)` is a lemma over contracts.  Callees are uninterpreted functions of their NORMALISED argument
lists (keywords resolved against the real signatures, defaults filled in from the real source), `_flag_transform` is
replaced by its contract (contracts/flags.py).  Serves C01, C02, C08, C11 (limit pass-through + defaults), C16.
"""
import ast

import z3

from vlib import pyvc
from vlib.pyvc import V, Int, Flags, Bool, Str, U, ObjV, Obj, BV, NONE
from .base import Contract
from . import flags as FL

WC = FL.WC


def obj(name):
    return ObjV(z3.Const(name, Obj))


def h_T_fn(eng, node, st, args):
    return Flags(FL.S_T_fnmatch(args[0].t))


def h_T_glob(eng, node, st, args):
    return Flags(FL.S_T_glob(args[0].t))


class Chain(Contract):
    """Straight-line entry point: result must equal `expected(params)`."""
    params = ()          # [(name, kind)]
    kwdefaults = {}
    assumptions = ('callees without a body contract are pure uninterpreted functions of their normalised arguments',)
    hooks = {}
    callees = {}
    pure = ()
    clause = None
    expected = None
    allowed_raises = None

    def inputs(self):
        ps = {}
        for n, k in self.params:
            if k == 'bv':
                ps[n] = Flags(z3.BitVec(n, BV))
            elif k == 'int':
                ps[n] = Int(z3.Int(n))
            else:
                ps[n] = obj(n)
        return dict(params=ps, pre=list(FL.PLATFORM_PRE))

    @property
    def ensures(self):
        return [(self.clause, self.props, lambda c: pyvc.eq(c.ret, type(self).expected(c.p)))]


def COMPILE(patterns, flags, limit, exclude):
    return U('_wcparse.compile', patterns, flags, limit, exclude)


def TRANSLATE(patterns, flags, limit, exclude):
    return U('_wcparse.translate', patterns, flags, limit, exclude)


_FN_CALLEES = {'_wcparse.compile': ('_wcparse', 'compile'), '_wcparse.translate': ('_wcparse', 'translate'),
               '_wcparse.escape': ('_wcparse', 'escape'), '_wcparse.is_magic': ('_wcparse', 'is_magic', 'bool')}
_PLQ = [('patterns', 'obj'), ('flags', 'bv'), ('limit', 'int'), ('exclude', 'obj')]


def T_fn(p):
    return Flags(FL.S_T_fnmatch(p['flags'].t))


def T_gl(p):
    return Flags(FL.S_T_glob(p['flags'].t))


class FnFnmatch(Chain):
    module, qual, props = 'fnmatch', 'fnmatch', ('C01', 'C11', 'C08', 'C17', 'C20')
    params = [('filename', 'obj')] + _PLQ
    hooks = dict(FL.PLATFORM_HOOKS, _flag_transform=h_T_fn)
    callees = _FN_CALLEES
    clause = 'fnmatch.fnmatch.is_compile(patterns,T(flags),limit,exclude).match(filename)'
    expected = staticmethod(lambda p: U('method.match', COMPILE(p['patterns'], T_fn(p), p['limit'], p['exclude']), p['filename']))


class FnFilter(Chain):
    module, qual, props = 'fnmatch', 'filter', ('C01', 'C11', 'C17', 'C20')
    params = [('filenames', 'obj')] + _PLQ
    hooks = dict(FL.PLATFORM_HOOKS, _flag_transform=h_T_fn)
    callees = _FN_CALLEES
    clause = 'fnmatch.filter.is_compile(patterns,T(flags),limit,exclude).filter(filenames)'
    expected = staticmethod(lambda p: U('method.filter', COMPILE(p['patterns'], T_fn(p), p['limit'], p['exclude']), p['filenames']))


class FnCompile(Chain):
    module, qual, props = 'fnmatch', 'compile', ('C01', 'C11', 'C17', 'C20')
    params = _PLQ
    hooks = dict(FL.PLATFORM_HOOKS, _flag_transform=h_T_fn)
    callees = _FN_CALLEES
    clause = 'fnmatch.compile.is_WcMatcher(compile(patterns,T(flags),limit,exclude))'
    expected = staticmethod(lambda p: U('fn.WcMatcher', COMPILE(p['patterns'], T_fn(p), p['limit'], p['exclude'])))


class FnTranslate(Chain):
    module, qual, props = 'fnmatch', 'translate', ('C08', 'C11', 'C17', 'C20')
    params = _PLQ
    hooks = dict(FL.PLATFORM_HOOKS, _flag_transform=h_T_fn)
    callees = _FN_CALLEES
    clause = 'fnmatch.translate.is__wcparse.translate(patterns,T(flags),limit,exclude)'
    expected = staticmethod(lambda p: TRANSLATE(p['patterns'], T_fn(p), p['limit'], p['exclude']))


class FnEscape(Chain):
    module, qual, props = 'fnmatch', 'escape', ('C09',)
    params = [('pattern', 'obj')]
    callees = _FN_CALLEES
    clause = 'fnmatch.escape.is__wcparse.escape(pattern,unix=None,pathname=False)'
    expected = staticmethod(lambda p: U('_wcparse.escape', p['pattern'], NONE, Bool(False)))


class FnIsMagic(Chain):
    module, qual, props = 'fnmatch', 'is_magic', ('C09',)
    params = [('pattern', 'obj'), ('flags', 'bv')]
    hooks = dict(FL.PLATFORM_HOOKS, _flag_transform=h_T_fn)
    callees = _FN_CALLEES
    clause = 'fnmatch.is_magic.is__wcparse.is_magic(pattern,T(flags))'
    expected = staticmethod(lambda p: U('_wcparse.is_magic', p['pattern'], T_fn(p), ret='bool'))


_GL = [('root_dir', 'obj'), ('dir_fd', 'obj')]


class GlGlobmatch(Chain):
    module, qual, props = 'glob', 'globmatch', ('C02', 'C11', 'C08', 'C04', 'C17', 'C20')
    params = [('filename', 'obj'), ('patterns', 'obj'), ('flags', 'bv')] + _GL + [('limit', 'int'), ('exclude', 'obj')]
    hooks = dict(FL.PLATFORM_HOOKS, _flag_transform=h_T_glob)
    callees = _FN_CALLEES
    clause = 'glob.globmatch.is_compile(patterns,T(flags),limit,exclude).match(filename,root_dir,dir_fd)'
    expected = staticmethod(lambda p: U('method.match', COMPILE(p['patterns'], T_gl(p), p['limit'], p['exclude']), p['filename'], p['root_dir'], p['dir_fd']))


class GlGlobfilter(Chain):
    module, qual, props = 'glob', 'globfilter', ('C02', 'C11', 'C04', 'C17', 'C20')
    params = [('filenames', 'obj'), ('patterns', 'obj'), ('flags', 'bv')] + _GL + [('limit', 'int'), ('exclude', 'obj')]
    hooks = dict(FL.PLATFORM_HOOKS, _flag_transform=h_T_glob)
    callees = _FN_CALLEES
    clause = 'glob.globfilter.is_compile(patterns,T(flags),limit,exclude).filter(filenames,root_dir,dir_fd)'
    expected = staticmethod(lambda p: U('method.filter', COMPILE(p['patterns'], T_gl(p), p['limit'], p['exclude']), p['filenames'], p['root_dir'], p['dir_fd']))


class GlCompile(Chain):
    module, qual, props = 'glob', 'compile', ('C02', 'C11', 'C17', 'C20')
    params = _PLQ
    hooks = dict(FL.PLATFORM_HOOKS, _flag_transform=h_T_glob)
    callees = _FN_CALLEES
    clause = 'glob.compile.is_WcMatcher(compile(patterns,T(flags),limit,exclude))'
    expected = staticmethod(lambda p: U('fn.WcMatcher', COMPILE(p['patterns'], T_gl(p), p['limit'], p['exclude'])))


class GlTranslate(Chain):
    module, qual, props = 'glob', 'translate', ('C08', 'C11', 'C17', 'C20')
    params = _PLQ
    hooks = dict(FL.PLATFORM_HOOKS, _flag_transform=h_T_glob)
    callees = _FN_CALLEES
    clause = 'glob.translate.is__wcparse.translate(patterns,T(flags),limit,exclude)'
    expected = staticmethod(lambda p: TRANSLATE(p['patterns'], T_gl(p), p['limit'], p['exclude']))


class GlEscape(Chain):
    module, qual, props = 'glob', 'escape', ('C09',)
    params = [('pattern', 'obj'), ('unix', 'obj')]
    callees = _FN_CALLEES
    clause = 'glob.escape.is__wcparse.escape(pattern,unix,pathname=True)'
    expected = staticmethod(lambda p: U('_wcparse.escape', p['pattern'], p['unix'], Bool(True)))


class GlIsMagic(Chain):
    module, qual, props = 'glob', 'is_magic', ('C09',)
    params = [('pattern', 'obj'), ('flags', 'bv')]
    hooks = dict(FL.PLATFORM_HOOKS, _flag_transform=h_T_glob)
    callees = _FN_CALLEES
    clause = 'glob.is_magic.is__wcparse.is_magic(pattern,T(flags))'
    expected = staticmethod(lambda p: U('_wcparse.is_magic', p['pattern'], T_gl(p), ret='bool'))


_GLOBP = [('patterns', 'obj'), ('flags', 'bv'), ('root_dir', 'obj'), ('dir_fd', 'obj'), ('limit', 'int'), ('exclude', 'obj')]


def IGLOB(p):
    return U('glob.iglob', p['patterns'], p['flags'], p['root_dir'], p['dir_fd'], p['limit'], p['exclude'])


def GLOBOBJ(p):
    return U('glob.Glob.__init__', p['patterns'], p['flags'], p['root_dir'], p['dir_fd'], p['limit'], p['exclude'])


class GlGlob(Chain):
    module, qual, props = 'glob', 'glob', ('C12', 'C11', 'C05', 'C17', 'C20')
    params = _GLOBP
    callees = {'iglob': ('glob', 'iglob')}
    clause = 'glob.glob.is_list(iglob(same arguments))'
    expected = staticmethod(IGLOB)


def h_yield_from(eng, y, st):
    v = eng.ev(y.value, st)
    st.ghost['$yield_from'] = st.ghost.get('$yield_from', []) + [v]
    return [(st, pyvc.Outcome('normal'))]


class GlIglob(Chain):
    module, qual, props = 'glob', 'iglob', ('C12', 'C11', 'C05', 'C17', 'C20')
    params = _GLOBP
    callees = {'Glob': ('glob', 'Glob.__init__')}
    hooks = {'yield from': h_yield_from}
    clause = 'glob.iglob.yields_exactly_Glob(same arguments).glob()'

    @property
    def ensures(self):
        def f(c):
            yf = c.st.ghost.get('$yield_from', [])
            if len(yf) != 1:
                return z3.BoolVal(False)
            return pyvc.eq(yf[0], U('method.glob', GLOBOBJ(c.p)))
        return [(self.clause, self.props, f)]


_PP = [('self', 'obj'), ('patterns', 'obj'), ('flags', 'bv'), ('limit', 'int'), ('exclude', 'obj')]
EXTMB = WC['_EXTMATCHBASE']


class PlMatch(Chain):
    module, qual, props = 'pathlib', 'PurePath.match', ('C16', 'C11', 'C17', 'C20')
    params = _PP
    callees = {'self.globmatch': ('pathlib', 'PurePath.globmatch')}
    clause = 'pathlib.match.is_self.globmatch(patterns,flags|_EXTMATCHBASE,limit,exclude)'
    expected = staticmethod(lambda p: U('pathlib.PurePath.globmatch', p['patterns'], Flags(p['flags'].t | FL.bv(EXTMB)), p['limit'], p['exclude']))


def h_translate_flags(eng, node, st, args):
    return U('self._translate_flags', args[0], ret='bv')


def _pl_globmatch_expected(p):
    return U('glob.globmatch', U('method._translate_path', p['self']), p['patterns'], U('self._translate_flags', p['flags'], ret='bv'),
             NONE, NONE, p['limit'], p['exclude'])


class PlGlobmatch(Chain):
    module, qual, props = 'pathlib', 'PurePath.globmatch', ('C16', 'C11', 'C17', 'C20')
    params = _PP
    callees = {'glob.globmatch': ('glob', 'globmatch')}
    hooks = {'self._translate_flags': h_translate_flags}
    pure = ('_translate_path',)
    clause = 'pathlib.globmatch.is_glob.globmatch(self._translate_path(),patterns,self._translate_flags(flags),limit,exclude)'
    expected = staticmethod(_pl_globmatch_expected)


class PlFullMatch(PlGlobmatch):
    qual = 'PurePath.full_match'
    clause = 'pathlib.full_match.is_glob.globmatch(self._translate_path(),patterns,self._translate_flags(flags),limit,exclude)'


class PlRglob(Chain):
    module, qual, props = 'pathlib', 'Path.rglob', ('C16', 'C11', 'C17', 'C20')
    params = _PP
    callees = {'self.glob': ('pathlib', 'Path.glob')}
    hooks = {'yield from': h_yield_from}
    clause = 'pathlib.rglob.yields_exactly_self.glob(patterns,flags|_EXTMATCHBASE,limit,exclude)'

    @property
    def ensures(self):
        def f(c):
            yf = c.st.ghost.get('$yield_from', [])
            if len(yf) != 1:
                return z3.BoolVal(False)
            p = c.p
            return pyvc.eq(yf[0], U('pathlib.Path.glob', p['patterns'], Flags(p['flags'].t | FL.bv(EXTMB)), p['limit'], p['exclude']))
        return [(self.clause, self.props, f)]


def _h_iglob(eng, node, st, args):
    a = eng.norm_args('glob', 'iglob', node, st)
    st.ghost['$iglob'] = st.ghost.get('$iglob', []) + [a]
    fn = z3.Function(pyvc.fresh('iglob_elem'), z3.IntSort(), Obj)
    return V('list', None, length=z3.Int(pyvc.fresh('iglob_len')), elem=lambda k: ObjV(fn(k)))


class PlGlob(Contract):
    """Path.glob: nothing if not a directory; otherwise iglob(patterns, flags=T(flags|_NOABSOLUTE)|_PATHLIB[|SCANDOTDIR],
    root_dir=str(self), limit, exclude) and each result is yielded as self.joinpath(result), in order."""
    module, qual, props = 'pathlib', 'Path.glob', ('C16', 'C11', 'C17', 'C20')
    assumptions = ('glob.iglob returns an abstract finite sequence; self.is_dir()/joinpath/str are pure',)
    pure = ('is_dir', 'joinpath')
    GL = pyvc.consts_of('glob')[0]

    def inputs(self):
        self.f = z3.BitVec('flags', BV)
        self.limit = z3.Int('limit')
        ps = dict(self=obj('self'), patterns=obj('patterns'), flags=Flags(self.f), limit=Int(self.limit), exclude=obj('exclude'))
        return dict(params=ps, pre=[])

    hooks = {'glob.iglob': _h_iglob, 'self._translate_flags': h_translate_flags}
    invariants = {1: (None, lambda st, k: st.ghost.get('$yields', z3.IntVal(0)) == k)}
    loop_ghosts = {1: ('$yields',)}

    @property
    def ensures(self):
        GLc = self.GL
        PATHLIB, SCAN, NOABS = GLc['_PATHLIB'], GLc['SCANDOTDIR'], WC['_NOABSOLUTE']

        def args_ok(c):
            calls = c.st.ghost.get('$iglob', [])
            isdir = pyvc.truthy(U('method.is_dir', c.p['self']))
            if not calls:
                return z3.Not(isdir)
            if len(calls) != 1:
                return z3.BoolVal(False)
            pats, fl, root, dirfd, limit, excl = calls[0]
            f = c.p['flags'].t
            tf = U('self._translate_flags', Flags(f | FL.bv(NOABS)), ret='bv').t
            scan = (f & FL.bv(SCAN)) != FL.bv(0)
            want = tf | z3.If(scan, FL.bv(PATHLIB | SCAN), FL.bv(PATHLIB))
            return z3.And(isdir, pyvc.eq(pats, c.p['patterns']), fl.t == want, pyvc.eq(root, U('fn.str', c.p['self'])),
                          pyvc.eq(dirfd, NONE), pyvc.eq(limit, c.p['limit']), pyvc.eq(excl, c.p['exclude']))
        return [('pathlib.Path.glob.iglob_called_once_with(patterns,T(flags|_NOABSOLUTE)|_PATHLIB[|SCANDOTDIR],root_dir=str(self),limit,exclude)_iff_is_dir',
                 ('C16', 'C11'), args_ok)]

    at = {'yield:': [('pathlib.Path.glob.yields_self.joinpath(result)_for_each_result_in_order',
                      lambda st: pyvc.eq(st.ghost['$point_value'], U('method.joinpath', st.env['self'], st.env['filename'])))]}
    obligation_props = {'pathlib.Path.glob': ('C16',)}


class LimitDefaults(Contract):
    """C11: the default of every `limit` parameter is _wcparse.PATTERN_LIMIT == 1000 (constant folding on the real signatures)."""
    props = ('C11',)
    SITES = [('_wcparse', 'translate'), ('_wcparse', 'compile_pattern'), ('_wcparse', 'compile'),
             ('fnmatch', 'compile'), ('fnmatch', 'translate'), ('fnmatch', 'fnmatch'), ('fnmatch', 'filter'),
             ('glob', 'Glob.__init__'), ('glob', 'iglob'), ('glob', 'glob'), ('glob', 'compile'), ('glob', 'translate'), ('glob', 'globmatch'), ('glob', 'globfilter'),
             ('pathlib', 'PurePath.match'), ('pathlib', 'PurePath.globmatch'), ('pathlib', 'PurePath.full_match'), ('pathlib', 'Path.glob'), ('pathlib', 'Path.rglob'),
             ('wcmatch', 'WcMatch.__init__')]

    def lemmas(self):
        out = []
        for mod, q in self.SITES:
            name = f'{mod}.{q}.limit_default_is_PATTERN_LIMIT_1000'
            try:
                pos, defaults, kwonly, _ = pyvc.signature(mod, q)
                consts, imports = pyvc.consts_of(mod)
                val = pyvc._const_eval(defaults['limit'], consts, imports)
                limit_const = pyvc.consts_of('_wcparse')[0]['PATTERN_LIMIT']
                claim = z3.And(z3.IntVal(val) == 1000, z3.IntVal(limit_const) == 1000)
            except Exception:
                claim = z3.BoolVal(False)
            out.append((name, ('C11',), claim))
        return out


ALL = [FnFnmatch(), FnFilter(), FnCompile(), FnTranslate(), FnEscape(), FnIsMagic(), GlGlobmatch(), GlGlobfilter(), GlCompile(), GlTranslate(),
       GlEscape(), GlIsMagic(), GlGlob(), GlIglob(), PlMatch(), PlGlobmatch(), PlFullMatch(), PlRglob(), PlGlob(), LimitDefaults()]
