"""All sidecar contracts, and the runner that reports the obligations serving one property."""
import importlib
import traceback

from . import base

MODULES = ['flags', 'chain', 'core', 'globc', 'matchc', 'walkc', 'more', 'fsmatch', 'small', 'iterc', 'splitc', 'parserc', 'helpersc', 'splitscan']


def all_contracts():
    out = []
    for m in MODULES:
        mod = importlib.import_module(f'contracts.{m}')
        out.extend(mod.ALL)
    return out


def run(chk, pid):
    baseline = base.load_baseline()
    n0 = len(chk.obls)
    for c in all_contracts():
        if pid not in c.props:
            continue
        try:
            if c.module is not None:
                base.run_contract(chk, c, pid, baseline)
            base.run_lemmas(chk, c, pid, baseline)
        except Exception:
            chk.broke(f'contract {type(c).__name__} crashed: {traceback.format_exc()[-1200:]}')
    # vacuity guard: obligation count must not fall below the committed baseline for this property
    want = sum(1 for b in baseline if b.startswith(pid + ':'))
    got = sum(1 for o in chk.obls[n0:] if o['backend'] in ('z3', 'cvc5', 'z3+cvc5'))
    if got < want:
        chk.undecide(f'{pid}:obligation-count', f'{got} contract obligations generated, the committed baseline has {want} (a contract stopped binding)')
    chk.extra['contract_obligations'] = got
    chk.assume('pyvc encoding of the Python subset (DESIGN.md 2.1): mathematical ints, 64-bit flag words, static attribute lookup, uninterpreted pure calls')
    chk.assume('pyvc: object identity (`is`) is an uninterpreted relation that only implies equality; str and bytes constants are distinct objects; `with` binds the context value and __exit__ is a no-op; havoced lists keep length >= 0 (DESIGN.md 0.7)')
