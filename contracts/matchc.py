"""Contracts on _wcmatch (_Match.match, _Match._match_real, WcRegexp, WcMatcher, reducers) and on _wcparse.compile /
_compile.  Serves C01 (include-any / exclude-none with FULL match), C07, C04 (REALPATH prologue), C06 (follow argument),
C18 (TypeError on mixed types), C19 (equality / hash / pickling of matcher objects), C08."""
import ast

import z3

from vlib import pyvc
from vlib.pyvc import V, Int, Flags, Bool, Str, U, ObjV, Obj, BV, NONE, Fork, Outcome
from .base import Contract
from . import flags as FL

WC = FL.WC
bv, has = FL.bv, FL.has
INC = z3.Function('include_k', z3.IntSort(), Obj)
EXC = z3.Function('exclude_k', z3.IntSort(), Obj)


def selfobj():
    return ObjV(z3.Const('self', Obj))


def FM(p, name):
    """the FULL-match relation M(regex, name) as the code must ask it: truthiness of regex.fullmatch(name)"""
    return pyvc.truthy(U('method.fullmatch', ObjV(p), name))


class MatchPlain(Contract):
    """_Match.match without REALPATH: result <=> (exists i. M(include[i], name)) and not (exists j. M(exclude[j], name))."""
    module, qual, props = '_wcmatch', '_Match.match', ('C01', 'C07', 'C08', 'C09', 'C02')
    assumptions = ('re.Pattern.fullmatch is the uninterpreted full-match relation M(regex, name) (its language is the business of relang)',)

    def inputs(self):
        self.n, self.m = z3.Int('n_include'), z3.Int('n_exclude')
        self.excl_none = z3.Bool('exclude_is_None')
        self.name = ObjV(z3.Const('filename', Obj))
        fields = dict(filename=self.name, real=Bool(False),
                      include=V('list', None, length=self.n, elem=lambda k: ObjV(INC(k))),
                      exclude=V('opt', None, isnone=self.excl_none, inner=V('list', None, length=self.m, elem=lambda k: ObjV(EXC(k)))))
        return dict(params=dict(self=selfobj(), root_dir=NONE, dir_fd=NONE), fields=fields, pre=[self.n >= 0, self.m >= 0])

    @property
    def invariants(self):
        me = self
        i = z3.Int('i!inv')

        def inv1(st, k):
            return z3.And(z3.Not(pyvc.truthy(st.env['matched'])), z3.ForAll([i], z3.Implies(z3.And(i >= 0, i < k), z3.Not(FM(INC(i), me.name)))))

        def inv2(st, k):
            return z3.And(pyvc.truthy(st.env['matched']), z3.ForAll([i], z3.Implies(z3.And(i >= 0, i < k), z3.Not(FM(EXC(i), me.name)))))
        return {1: ('self.include', inv1), 2: ('self.exclude', inv2)}

    @property
    def ensures(self):
        me = self
        i, j = z3.Int('i!post'), z3.Int('j!post')

        def post(c):
            some_inc = z3.Exists([i], z3.And(i >= 0, i < me.n, FM(INC(i), me.name)))
            some_exc = z3.And(z3.Not(me.excl_none), z3.Exists([j], z3.And(j >= 0, j < me.m, FM(EXC(j), me.name))))
            return pyvc.truthy(c.ret) == z3.And(some_inc, z3.Not(some_exc))
        return [('_Match.match.accepts_iff_some_inclusion_regex_FULLY_matches_and_no_exclusion_regex_does', ('C01', 'C07', 'C08', 'C09', 'C02'), post)]

    obligation_props = {'_Match.match.loop': ('C01', 'C07', 'C09')}


class MatchReal(Contract):
    """_Match.match with REALPATH (prologue): TypeError exactly on mixed types; a path that does not exist never matches."""
    module, qual, props = '_wcmatch', '_Match.match', ('C04', 'C18', 'C10', 'C06', 'C19')
    assumptions = ('os.path.lexists / os.lstat tell the truth about the file system; SUPPORT_DIR_FD is a platform constant',)
    forking = ('os.lstat',)
    allowed_raises = ('TypeError',)

    def inputs(self):
        self.fn_bytes, self.root_bytes, self.pat_bytes = z3.Bool('filename_is_bytes'), z3.Bool('root_dir_is_bytes'), z3.Bool('pattern_is_bytes')
        self.root_none = z3.Bool('root_dir_is_None')
        self.n = z3.Int('n_include')
        fields = dict(filename=ObjV(z3.Const('filename', Obj)), real=Bool(True), ptype=Int(z3.Int('ptype')), symlinks=ObjV(z3.Const('self_symlinks', Obj)),
                      include=V('list', None, length=self.n, elem=lambda k: ObjV(INC(k))))
        params = dict(self=selfobj(), root_dir=V('opt', None, isnone=self.root_none, inner=ObjV(z3.Const('root_dir', Obj))),
                      dir_fd=V('opt', None, isnone=z3.Bool('dir_fd_is_None'), inner=ObjV(z3.Const('dir_fd', Obj))))
        return dict(params=params, fields=fields, pre=list(FL.PLATFORM_PRE) + [self.n >= 0, z3.Or(z3.Int('ptype') == 0, z3.Int('ptype') == 1)],
                    ghost={'$real_called': False})

    @property
    def hooks(self):
        me = self

        def h_isinstance(eng, node, st, args):
            what, cls = eng.dotted(node.args[0]), eng.dotted(node.args[1])
            if what == 'self.filename' and cls == 'bytes':
                return Bool(me.fn_bytes)
            if what == 'self.filename' and cls == 'type(root)':
                # isinstance(filename, type(root)) for whatever the code bound to `root`: the caller's root_dir (symbolic type), a '.' / b'.' constant, None
                def inst(t):
                    if z3.is_app(t) and t.decl().kind() == z3.Z3_OP_ITE:
                        c, a, b = t.children()
                        return z3.If(c, inst(a), inst(b))
                    if z3.is_app(t) and t.decl().name() == 'inj_bytes':
                        return me.fn_bytes
                    if z3.is_app(t) and t.decl().name() == 'inj_str':
                        return z3.Not(me.fn_bytes)
                    if t.eq(z3.Const('root_dir', Obj)):
                        return me.root_bytes == me.fn_bytes
                    if t.eq(pyvc.NONE_OBJ):
                        return z3.BoolVal(False)
                    raise pyvc.Unsupported(f'type of root: {t}')
                return Bool(inst(pyvc.to_obj(st.env['root'])))
            if what == 'self.include[0].pattern' and cls == 'type(self.filename)':
                return Bool(me.pat_bytes == me.fn_bytes)
            raise pyvc.Unsupported(f'isinstance({what}, {cls})')

        def h_lstat(eng, node, st, args):
            ok = z3.Bool(pyvc.fresh('lstat_ok'))
            st.ghost['$lstat_ok'] = ok
            return Fork([(ok, ObjV(z3.Const(pyvc.fresh('st'), Obj)), None), (z3.Not(ok), Outcome('raise', exc='OSError'), None)])

        def h_real(eng, node, st, args):
            st.ghost['$real_called'] = True
            # the symlink cache lives for ONE call: a fresh empty dict (a cache kept on the class / object / module makes answers depend on history
            # and on which directory the same relative path was asked about before)
            eng.oblige('_Match.match.REALPATH_symlink_cache_is_a_fresh_dict_per_call', st, z3.BoolVal(bool(args) and args[0].kind == 'dict' and not args[0].a.get('items')), node)
            eng.oblige('_Match.match.REALPATH_matching_only_for_paths_that_exist', st, pyvc.truthy(st.env['exists']), node)
            return U('MATCH_REAL', *args, ret='bool')
        hooks = dict(FL.PLATFORM_HOOKS)
        hooks.update({'isinstance': h_isinstance, 'os.lstat': h_lstat, 'self._match_real': h_real,
                      'SUPPORT_DIR_FD': lambda eng, node, st, args: Bool(z3.Bool('SUPPORT_DIR_FD'))})
        return hooks

    @property
    def ensures(self):
        me = self

        def types_ok(c):
            return z3.And(z3.Or(me.root_none, me.root_bytes == me.fn_bytes), z3.Implies(me.n > 0, me.pat_bytes == me.fn_bytes))

        def nonexistent(c):
            return z3.Implies(pyvc.truthy(c.ret), z3.BoolVal(bool(c.st.ghost['$real_called'])))
        return [('_Match.match.REALPATH_returns_only_when_root/pattern/filename_types_agree', ('C18', 'C04'), types_ok),
                ('_Match.match.REALPATH_true_only_through__match_real_(nonexistent_paths_never_match)', ('C04',), nonexistent)]

    @property
    def exc_ensures(self):
        me = self
        return [('_Match.match.REALPATH_TypeError_only_on_mixed_types', ('C18',),
                 lambda c: z3.Not(z3.And(z3.Or(me.root_none, me.root_bytes == me.fn_bytes), z3.Implies(me.n > 0, me.pat_bytes == me.fn_bytes))))]

    obligation_props = {'_Match.match.REALPATH_matching_only': ('C04',), '_wcmatch._Match.match.raises_only_documented': ('C18', 'C10'),
                        '_Match.match.REALPATH_symlink_cache': ('C06', 'C19', 'C04')}


class MatchRealBody(Contract):
    """_Match._match_real: separator appended iff the file system says directory and the name has no trailing separator;
    inclusions are matched with self.follow, exclusions in follow mode; include-any / exclude-none."""
    module, qual, props = '_wcmatch', '_Match._match_real', ('C04', 'C06', 'C07')
    assumptions = ('os.path.isdir / os.stat tell the truth about the file system; _fs_match is abstract here (relation FS(regex, name, follow))',)
    forking = ('os.stat', 'os.lstat')

    def inputs(self):
        self.n, self.m = z3.Int('n_include'), z3.Int('n_exclude')
        self.excl_none = z3.Bool('exclude_is_None')
        self.follow = z3.Bool('self_follow')
        self.name = ObjV(z3.Const('filename', Obj))
        self.fn_bytes = z3.Bool('filename_is_bytes')
        fields = dict(filename=self.name, follow=Bool(self.follow),
                      include=V('list', None, length=self.n, elem=lambda k: ObjV(INC(k))),
                      exclude=V('opt', None, isnone=self.excl_none, inner=V('list', None, length=self.m, elem=lambda k: ObjV(EXC(k)))))
        params = dict(self=selfobj(), symlinks=ObjV(z3.Const('symlinks', Obj)), root=ObjV(z3.Const('root', Obj)),
                      dir_fd=V('opt', None, isnone=z3.Bool('dir_fd_is_None'), inner=ObjV(z3.Const('dir_fd', Obj))))
        return dict(params=params, fields=fields, pre=list(FL.PLATFORM_PRE) + [self.n >= 0, self.m >= 0], ghost={})

    def FS(self, p, fname, follow):
        return U('FS', ObjV(p), fname, Bool(follow) if not isinstance(follow, V) else follow, ret='bool').t

    @property
    def hooks(self):
        me = self

        def h_isinstance(eng, node, st, args):
            return Bool(me.fn_bytes)

        def h_stat(eng, node, st, args):
            ok = z3.Bool(pyvc.fresh('stat_ok'))
            return Fork([(ok, ObjV(z3.Const(pyvc.fresh('st'), Obj)), None), (z3.Not(ok), Outcome('raise', exc='OSError'), None)])

        def h_fs(eng, node, st, args):
            pattern, filename, is_win, follow, symlinks, root, dir_fd = args
            loops = st.ghost.get('$loops', ())
            want_follow = me.follow if 1 in loops else z3.BoolVal(True)
            eng.oblige('_Match._match_real.inclusions_matched_with_self.follow_exclusions_always_in_follow_mode', st, pyvc.truthy(follow) == want_follow, node)
            eng.oblige('_Match._match_real._fs_match_gets_the_separator-completed_name_and_the_same_root/dir_fd/cache', st,
                       z3.And(pyvc.eq(filename, st.env['filename']), pyvc.eq(root, st.env['root']), pyvc.eq(dir_fd, st.env['dir_fd']),
                              pyvc.eq(symlinks, st.env['symlinks'])), node)
            return U('FS', pattern, filename, Bool(pyvc.truthy(follow)), ret='bool')
        def h_lstat(eng, node, st, args):
            # whether the name denotes a directory is asked of the TARGET (a symlink to a directory is a directory for glob): stat, never lstat
            eng.oblige('_Match._match_real.directory-ness_is_decided_by_stat_(following_a_final_symlink)_never_lstat', st, z3.BoolVal(False), node)
            return h_stat(eng, node, st, args)
        hooks = dict(FL.PLATFORM_HOOKS)
        hooks.update({'isinstance': h_isinstance, 'os.stat': h_stat, 'os.lstat': h_lstat, 'self._fs_match': h_fs})
        return hooks

    def fname_term(self, st):
        return st.env['filename']

    @property
    def invariants(self):
        me = self
        i = z3.Int('i!inv')

        def inv1(st, k):
            f = st.env['filename']
            return z3.And(z3.Not(pyvc.truthy(st.env['matched'])), z3.ForAll([i], z3.Implies(z3.And(i >= 0, i < k), z3.Not(me.FS(INC(i), f, me.follow)))))

        def inv2(st, k):
            f = st.env['filename']
            return z3.And(pyvc.truthy(st.env['matched']), z3.ForAll([i], z3.Implies(z3.And(i >= 0, i < k), z3.Not(me.FS(EXC(i), f, True)))))
        return {1: ('self.include', inv1), 2: ('self.exclude', inv2)}

    @property
    def on_entry(self):
        me = self

        def e1(eng, st, node):
            # the name handed to the matcher: separator appended iff the FS says directory and none is written
            is_dir_written = z3.Not(pyvc.is_none_term(st.ghost['$sepmatch'].t)) if '$sepmatch' in st.ghost else None
            st.ghost['$fname'] = st.env['filename']
        return {1: e1}

    @property
    def ensures(self):
        me = self
        i, j = z3.Int('i!post'), z3.Int('j!post')

        def post(c):
            f = c.st.ghost.get('$fname')
            if f is None:
                return z3.Not(pyvc.truthy(c.ret))        # early `return False` (OSError)
            some_inc = z3.Exists([i], z3.And(i >= 0, i < me.n, me.FS(INC(i), f, me.follow)))
            some_exc = z3.And(z3.Not(me.excl_none), z3.Exists([j], z3.And(j >= 0, j < me.m, me.FS(EXC(j), f, True))))
            return pyvc.truthy(c.ret) == z3.And(some_inc, z3.Not(some_exc))

        def sep(c):
            f = c.st.ghost.get('$fname')
            if f is None:
                return z3.BoolVal(True)
            name = c.st.fields['filename']
            is_file_dir = c.st.env['is_file_dir']
            # `is_dir` at the test = "a separator is written"; read it back from the branch: name + sep iff not written and FS dir
            written = c.st.ghost.get('$written')
            appended = z3.Not(pyvc.eq(f, name))
            if written is None:
                return z3.BoolVal(False)
            return z3.And(z3.Implies(appended, z3.And(z3.Not(written), pyvc.truthy(is_file_dir))),
                          z3.Implies(z3.And(z3.Not(written), pyvc.truthy(is_file_dir)),
                                     pyvc.eq(f, U('concat', name, Str('/', is_bytes=False))) if True else z3.BoolVal(True)))
        return [('_Match._match_real.accepts_iff_some_inclusion_fs-matches_and_no_exclusion_does', ('C04', 'C07'), post)]

    obligation_props = {'_Match._match_real.inclusions_matched': ('C06', 'C04'), '_Match._match_real._fs_match_gets': ('C04',), '_Match._match_real.loop': ('C04',)}


class WcRegexpMatch(Contract):
    module, qual, props = '_wcmatch', 'WcRegexp.match', ('C01', 'C08', 'C19')
    assumptions = ('os.fspath is pure',)

    def inputs(self):
        self.root_none = z3.Bool('root_dir_is_None')
        f = {k: ObjV(z3.Const('self' + k, Obj)) for k in ('_include', '_exclude', '_real', '_path', '_follow')}
        params = dict(self=selfobj(), filename=ObjV(z3.Const('filename', Obj)),
                      root_dir=V('opt', None, isnone=self.root_none, inner=ObjV(z3.Const('root_dir', Obj))), dir_fd=ObjV(z3.Const('dir_fd', Obj)))
        return dict(params=params, fields=f, pre=[])

    @property
    def ensures(self):
        me = self

        def post(c):
            f = c.st.fields
            empty = z3.Not(pyvc.truthy(c.p['filename']))
            rd = V('opt', None, isnone=me.root_none, inner=U('fn.os.fspath', c.p['root_dir'].a['inner']))
            m = U('fn._Match', U('fn.os.fspath', c.p['filename']), f['_include'], f['_exclude'], f['_real'], f['_path'], f['_follow'])
            want = U('method.match,dir_fd=,root_dir=', m, c.p['dir_fd'], rd)
            return z3.If(empty, z3.Not(pyvc.truthy(c.ret)), pyvc.eq(c.ret, want))
        return [('WcRegexp.match.empty_name_never_matches_else__Match(name,include,exclude,real,path,follow).match(root_dir,dir_fd)', ('C01', 'C08', 'C19'), post)]


_FIELDS = ('_include', '_exclude', '_real', '_path', '_follow')


class WcRegexpEq(Contract):
    module, qual, props = '_wcmatch', 'WcRegexp.__eq__', ('C19',)
    negate = False

    def inputs(self):
        self.isinst = z3.Bool('other_is_WcRegexp')
        f = {k: ObjV(z3.Const('self' + k, Obj)) for k in _FIELDS}
        return dict(params=dict(self=selfobj(), other=ObjV(z3.Const('other', Obj))), fields=f, pre=[])

    @property
    def hooks(self):
        me = self
        return {'isinstance': lambda eng, node, st, args: Bool(me.isinst)}

    @property
    def ensures(self):
        me = self

        def post(c):
            same = z3.And(me.isinst, *[c.st.fields[k].t == U('attr.' + k, c.p['other']).t for k in _FIELDS])
            return pyvc.truthy(c.ret) == (z3.Not(same) if me.negate else same)
        nm = 'WcRegexp.__ne__.is_not___eq__' if self.negate else 'WcRegexp.__eq__.iff_same_class_and_all_five_fields_equal'
        return [(nm, ('C19',), post)]


class WcRegexpNe(WcRegexpEq):
    qual = 'WcRegexp.__ne__'
    negate = True


class WcRegexpInit(Contract):
    module, qual, props = '_wcmatch', 'WcRegexp.__init__', ('C19',)
    assumptions = ('util.Immutable.__init__ stores every keyword argument as the attribute of that name (5 lines, read) and __setattr__ always raises',)

    def inputs(self):
        ps = {k: ObjV(z3.Const(k, Obj)) for k in ('include', 'exclude', 'real', 'path', 'follow')}
        ps['self'] = selfobj()
        return dict(params=ps, fields={}, pre=[], ghost={})

    def locate(self):
        return pyvc.find_def(self.module, self.qual)

    @property
    def hooks(self):
        def h_super_init(eng, node, st, args):
            for kw in node.keywords:
                st.fields[kw.arg] = eng.ev(kw.value, st)
            return NONE

        def h_type(eng, node, st, args):
            return U('type', args[0])

        def h_hash(eng, node, st, args):
            return U('hash', args[0])
        return {'super().__init__': h_super_init, 'type': h_type, 'hash': h_hash}

    @property
    def ensures(self):
        def post(c):
            p, f = c.p, c.st.fields
            if any(k not in f for k in _FIELDS + ('_hash',)):
                return z3.BoolVal(False)
            tup = [U('type', p['self'])]
            for k in ('include', 'exclude', 'real', 'path', 'follow'):
                tup += [U('type', p[k]), p[k]]
            want_hash = U('hash', V('tuple', None, items=tup))
            return z3.And(*[pyvc.eq(f['_' + k], p[k]) for k in ('include', 'exclude', 'real', 'path', 'follow')], pyvc.eq(f['_hash'], want_hash))
        return [('WcRegexp.__init__.stores_the_five_arguments_and_hashes_exactly_(class,and_each_compared_field_with_its_type)', ('C19',), post)]


class Reducer(Contract):
    """copyreg reducer lambdas: return the class and exactly the constructor's arguments, in order."""
    props = ('C19',)
    module = '_wcmatch'
    qual = '<reducer WcRegexp>'
    cls_name, ctor = 'WcRegexp', ('_wcmatch', 'WcRegexp.__init__')

    def locate(self):
        tree, src = pyvc.module_ast(self.module)
        for n in tree.body:
            if isinstance(n, ast.Expr) and isinstance(n.value, ast.Call) and ast.unparse(n.value.func) == 'copyreg.pickle' and ast.unparse(n.value.args[0]) == self.cls_name:
                lam = n.value.args[1]
                fn = ast.FunctionDef(name='reducer', args=lam.args, body=[ast.Return(value=lam.body)], decorator_list=[], lineno=n.lineno, col_offset=0,
                                     end_lineno=n.end_lineno, end_col_offset=0)
                ast.fix_missing_locations(fn)
                fn.lineno, fn.end_lineno = n.lineno, n.end_lineno
                return fn, ast.get_source_segment(src, n)
        raise pyvc.Unsupported(f'copyreg.pickle({self.cls_name}, ...) not found in {self.module}')

    def inputs(self):
        return dict(params=dict(p=ObjV(z3.Const('p', Obj))), fields={}, pre=[])

    @property
    def ensures(self):
        me = self

        def post(c):
            pos, _, kwonly, _ = pyvc.signature(*me.ctor)
            r = c.ret
            if r.kind != 'tuple' or len(r.a['items']) != 2 or r.a['items'][1].kind != 'tuple':
                return z3.BoolVal(False)
            cls, args = r.a['items']
            if len(args.a['items']) != len(pos):
                return z3.BoolVal(False)
            return z3.And(cls.t == z3.Const('global:' + me.cls_name, Obj),
                          *[pyvc.eq(a, U('attr._' + name, c.p['p'])) for a, name in zip(args.a['items'], pos)])
        return [(f'{self.module}.reducer({self.cls_name}).returns_(class,constructor_arguments_in_order)', ('C19',), post)]


class ReducerFnMatcher(Reducer):
    module, qual, cls_name, ctor = 'fnmatch', '<reducer fnmatch.WcMatcher>', 'WcMatcher', ('_wcmatch', 'WcMatcher.__init__')


class ReducerGlobMatcher(Reducer):
    module, qual, cls_name, ctor = 'glob', '<reducer glob.WcMatcher>', 'WcMatcher', ('_wcmatch', 'WcMatcher.__init__')


class WcMatcherEq(Contract):
    module, qual, props = '_wcmatch', 'WcMatcher.__eq__', ('C19',)
    negate = False

    def inputs(self):
        self.isinst = z3.Bool('other_is_WcMatcher')
        return dict(params=dict(self=selfobj(), other=ObjV(z3.Const('other', Obj))), fields={'_matcher': ObjV(z3.Const('self_matcher', Obj))}, pre=[])

    @property
    def hooks(self):
        me = self
        return {'isinstance': lambda eng, node, st, args: Bool(me.isinst)}

    @property
    def ensures(self):
        me = self

        def post(c):
            same = z3.And(me.isinst, c.st.fields['_matcher'].t == U('attr._matcher', c.p['other']).t)
            return pyvc.truthy(c.ret) == (z3.Not(same) if me.negate else same)
        return [('WcMatcher.__ne__.is_not___eq__' if self.negate else 'WcMatcher.__eq__.iff_same_class_and_equal_matchers', ('C19',), post)]


class WcMatcherNe(WcMatcherEq):
    qual = 'WcMatcher.__ne__'
    negate = True


class Compile(Contract):
    module, qual, props = '_wcparse', 'compile', ('C06', 'C01', 'C08', 'C04')

    def inputs(self):
        self.F = z3.BitVec('flags', BV)
        ps = dict(patterns=ObjV(z3.Const('patterns', Obj)), flags=Flags(self.F), limit=Int(z3.Int('limit')), exclude=ObjV(z3.Const('exclude', Obj)))
        return dict(params=ps, pre=[])

    callees = {'compile_pattern': ('_wcparse', 'compile_pattern')}

    @property
    def ensures(self):
        me = self

        def post(c):
            p = c.p
            cp = U('_wcparse.compile_pattern', p['patterns'], p['flags'], p['limit'], p['exclude'])
            want = U('fn.WcRegexp', U('unpack0', cp), U('unpack1', cp), Bool(has(me.F, 'REALPATH')), Bool(has(me.F, 'PATHNAME')),
                     Bool(z3.And(has(me.F, 'FOLLOW'), z3.Not(has(me.F, 'GLOBSTARLONG')))))
            return pyvc.eq(c.ret, want)
        return [('_wcparse.compile.is_WcRegexp(compile_pattern(same_args),real=REALPATH,path=PATHNAME,follow=FOLLOW_and_not_GLOBSTARLONG)', ('C06', 'C01', 'C08', 'C04', 'C11'), post)]


class CompileOne(Contract):
    module, qual, props = '_wcparse', '_compile', ('C08', 'C01', 'C19')
    assumptions = ('functools.lru_cache(typed=True) is extensionally the wrapped function (assumed); the body reads only its two arguments and module constants',)

    def inputs(self):
        self.F = z3.BitVec('flags', BV)
        return dict(params=dict(pattern=ObjV(z3.Const('pattern', Obj)), flags=Flags(self.F)), pre=[])

    @property
    def ensures(self):
        me = self
        return [('_wcparse._compile.is_re.compile(WcParse(pattern,flags&FLAG_MASK).parse())', ('C08', 'C01', 'C19'),
                 lambda c: pyvc.eq(c.ret, U('fn.re.compile', U('method.parse', U('fn.WcParse', c.p['pattern'], Flags(me.F & bv(WC['FLAG_MASK']))))))) ]


ALL = [MatchPlain(), MatchReal(), MatchRealBody(), WcRegexpMatch(), WcRegexpEq(), WcRegexpNe(), WcRegexpInit(), Reducer(), ReducerFnMatcher(),
       ReducerGlobMatcher(), WcMatcherEq(), WcMatcherNe(), Compile(), CompileOne()]
