"""Round 3, third batch: the SPLIT scanner (WcSplit._references / _sequence / parse_extend / _split) under contract, for ALL pattern texts.
The StringIter `i` is represented by ghost state ($idx over the text `s`) and its operations by the StringIter contracts of parserc.py; calls to the
sibling scanner methods are replaced by THEIR contracts (each proved below; parse_extend's recursion by its own contract).

What is proved: index discipline (no rewind can raise, the index stays inside the text, only StopIteration is used for control flow and never escapes
_split), and for _split the splitting theorem: the pieces are cut exactly at `|` characters of the text and joining them with `|` gives the text back
(nothing lost, nothing invented).  WHICH `|` are top-level is the business of the callee contracts' stronger readings and of the bounded splitter
specification (C07.bounded.split.pieces)."""
import z3

from vlib import pyvc
from vlib.pyvc import V, Int, Flags, Bool, Str, U, ObjV, Obj, BV, NONE, Fork, Outcome, AbstractIter
from .base import Contract


def selfobj():
    return ObjV(z3.Const('self', Obj))


def at(s, j):
    return z3.SubString(s, j, 1)


class _Scan(Contract):
    module = '_wcparse'
    short_circuit_forks = True
    props = ('C07', 'C10')
    allowed_raises = ('StopIteration',)

    def base_inputs(self, **extra_fields):
        self.s, self.i0 = z3.String('i__string'), z3.Int('i__index')
        fields = dict(pathname=Bool(z3.Bool('self_pathname')), bslash_abort=Bool(z3.Bool('self_bslash_abort')), extend=Bool(z3.Bool('self_extend')))
        fields.update(extra_fields)
        return dict(params=dict(self=selfobj(), i=ObjV(z3.Const('i', Obj))), fields=fields, pre=[self.i0 >= 0, self.i0 <= z3.Length(self.s)], ghost={'$idx': self.i0})

    # ---- StringIter operations by their contracts
    def h_next(self):
        me = self

        def h(eng, node, st, args):
            idx = st.ghost['$idx']

            def upd(s2):
                s2.ghost['$idx'] = idx + 1
            return Fork([(idx < z3.Length(me.s), Str(at(me.s, idx)), upd), (idx >= z3.Length(me.s), Outcome('raise', exc='StopIteration'), None)])
        return h

    def h_rewind(self, name):
        def h(eng, node, st, args):
            idx = st.ghost['$idx']
            if args[0].kind != 'int':
                raise pyvc.Unsupported('rewind argument')
            eng.oblige(f'{name}.rewind_never_goes_past_the_beginning_(no_ValueError)', st, z3.And(args[0].t >= 0, args[0].t <= idx), node)
            st.ghost['$idx'] = idx - args[0].t
            return NONE
        return h

    def h_index(self):
        return lambda eng, node, st, args: Int(st.ghost['$idx'])

    def h_imatch(self):
        me = self

        def h(eng, node, st, args):
            idx = st.ghost['$idx']
            new = z3.Int(pyvc.fresh('idx_after_match'))
            st.pc += [new >= idx, new <= z3.Length(me.s)]
            st.ghost['$idx'] = new
            return ObjV(z3.Const(pyvc.fresh('m'), Obj))
        return h

    # ---- sibling scanner methods by their contracts
    def c_references(self, sequence_known=None):
        """_references(i, sequence): consumes exactly one character; StopIteration at the end (index unchanged); PathNameException (one character consumed)
        iff sequence and the character is a backslash under bslash_abort or a slash under pathname"""
        me = self

        def h(eng, node, st, args):
            idx = st.ghost['$idx']
            seq = pyvc.truthy(args[1]) if len(args) > 1 else z3.BoolVal(False)
            for kw in node.keywords:
                if kw.arg == 'sequence':
                    seq = pyvc.truthy(eng.ev(kw.value, st))
            c = at(me.s, idx)
            pne = z3.And(seq, z3.Or(z3.And(c == z3.StringVal('\\'), pyvc.truthy(st.fields['bslash_abort'])), z3.And(c == z3.StringVal('/'), pyvc.truthy(st.fields['pathname']))))
            inside = idx < z3.Length(me.s)

            def adv(s2):
                s2.ghost['$idx'] = idx + 1
            return Fork([(z3.And(inside, z3.Not(pne)), NONE, adv), (z3.And(inside, pne), Outcome('raise', exc='PathNameException'), adv),
                         (z3.Not(inside), Outcome('raise', exc='StopIteration'), None)])
        return h

    def c_sequence(self):
        """_sequence(i): returns with the index further on inside the text, or raises StopIteration with the index somewhere between entry and the end"""
        me = self

        def h(eng, node, st, args):
            idx = st.ghost['$idx']
            new = z3.Int(pyvc.fresh('idx_after_sequence'))
            ok = z3.Bool(pyvc.fresh('bracket_closes'))

            def good(s2):
                s2.pc += [new > idx, new <= z3.Length(me.s)]          # exactly what the _sequence contracts prove (callers need no more)
                s2.ghost['$idx'] = new

            def bad(s2):
                s2.pc += [new >= idx, new <= z3.Length(me.s)]
                s2.ghost['$idx'] = new
            return Fork([(ok, NONE, good), (z3.Not(ok), Outcome('raise', exc='StopIteration'), bad)])
        return h

    def c_parse_extend(self):
        """parse_extend(c, i): False - the index is where it was; True - it moved forward, inside the text"""
        me = self

        def h(eng, node, st, args):
            idx = st.ghost['$idx']
            new = z3.Int(pyvc.fresh('idx_after_group'))
            ok = z3.Bool(pyvc.fresh('group_closes'))

            def good(s2):
                s2.pc += [new > idx, new <= z3.Length(me.s)]
                s2.ghost['$idx'] = new
            return Fork([(ok, Bool(True), good), (z3.Not(ok), Bool(False), None)])
        return h

    def inside(self, st):
        idx = st.ghost['$idx']
        return z3.And(idx >= 0, idx <= z3.Length(self.s))


class SplitReferences(_Scan):
    qual = 'WcSplit._references'
    allowed_raises = ('StopIteration', 'PathNameException')
    forking = ('next',)

    def inputs(self):
        inp = self.base_inputs()
        self.seq = z3.Bool('sequence')
        inp['params']['sequence'] = Bool(self.seq)
        return inp

    @property
    def hooks(self):
        return {'next': self.h_next()}

    def pne(self, c):
        ch = at(self.s, self.i0)
        f = c.st.fields
        return z3.And(self.seq, z3.Or(z3.And(ch == z3.StringVal('\\'), pyvc.truthy(f['bslash_abort'])), z3.And(ch == z3.StringVal('/'), pyvc.truthy(f['pathname']))))

    @property
    def ensures(self):
        me = self
        return [('WcSplit._references.consumes_exactly_one_character', ('C07', 'C10'),
                 lambda c: z3.And(me.i0 < z3.Length(me.s), c.st.ghost['$idx'] == me.i0 + 1, z3.Not(me.pne(c))))]

    @property
    def exc_ensures(self):
        me = self

        def post(c):
            if pyvc.isa(c.exc, 'PathNameException'):
                return z3.And(me.i0 < z3.Length(me.s), c.st.ghost['$idx'] == me.i0 + 1, me.pne(c))
            return z3.And(z3.BoolVal(pyvc.isa(c.exc, 'StopIteration')), me.i0 == z3.Length(me.s), c.st.ghost['$idx'] == me.i0)
        return [('WcSplit._references.StopIteration_exactly_at_the_end;PathNameException_exactly_for_a_separator_escaped_inside_a_bracket', ('C07', 'C10'), post)]


class SplitSequence(_Scan):
    qual = 'WcSplit._sequence'
    forking = ('next', 'self._references')
    loop_ghosts = {1: ('$idx',)}

    def inputs(self):
        return self.base_inputs()

    @property
    def hooks(self):
        return {'next': self.h_next(), 'i.match': self.h_imatch(), 'self._references': self.c_references()}

    @property
    def invariants(self):
        me = self

        def inv(st, k):
            idx, c = st.ghost['$idx'], st.env['c']
            if c.kind != 'str':
                return z3.BoolVal(False)
            return z3.And(idx > me.i0, idx <= z3.Length(me.s), z3.Or(c.t == at(me.s, idx - 1), idx >= me.i0 + 2))
        return {1: (None, inv)}

    @property
    def ensures(self):
        me = self
        return [('WcSplit._sequence.returns_with_the_index_inside_the_text_behind_where_it_started', ('C07', 'C10'),
                 lambda c: z3.And(c.st.ghost['$idx'] > me.i0, c.st.ghost['$idx'] <= z3.Length(me.s)))]

    @property
    def exc_ensures(self):
        me = self
        return [('WcSplit._sequence.only_StopIteration_escapes_and_the_index_stays_inside_the_text', ('C07', 'C10'),
                 lambda c: z3.And(z3.BoolVal(pyvc.isa(c.exc, 'StopIteration')), c.st.ghost['$idx'] >= me.i0, c.st.ghost['$idx'] <= z3.Length(me.s)))]

    obligation_props = {'WcSplit._sequence.': ('C07', 'C10'), '_wcparse.WcSplit._sequence.': ('C10',)}


class SplitParseExtend(_Scan):
    qual = 'WcSplit.parse_extend'
    allowed_raises = ()
    forking = ('next', 'self._references', 'self._sequence', 'self.parse_extend')
    loop_ghosts = {1: ('$idx',)}

    def inputs(self):
        inp = self.base_inputs()
        inp['params']['c'] = Str(z3.String('c'))
        return inp

    @property
    def hooks(self):
        return {'next': self.h_next(), 'i.index': self.h_index(), 'i.rewind': self.h_rewind('WcSplit.parse_extend'), 'self._references': self.c_references(),
                'self._sequence': self.c_sequence(), 'self.parse_extend': self.c_parse_extend()}

    @property
    def invariants(self):
        me = self

        def inv(st, k):
            idx = st.ghost['$idx']
            ix = st.env['index']
            return z3.And(idx >= me.i0 + 1, idx <= z3.Length(me.s), z3.BoolVal(ix.kind == 'int'), ix.t == me.i0 if ix.kind == 'int' else z3.BoolVal(False), pyvc.truthy(st.env['success']))
        return {1: (None, inv)}

    @property
    def ensures(self):
        me = self

        def post(c):
            idx = c.st.ghost['$idx']
            ok = pyvc.truthy(c.ret)
            return z3.And(z3.BoolVal(c.ret.kind == 'bool'), z3.Implies(z3.Not(ok), idx == me.i0), z3.Implies(ok, z3.And(idx > me.i0, idx <= z3.Length(me.s))))
        return [('WcSplit.parse_extend.False:the_index_is_back_where_it_was;True:it_moved_forward_inside_the_text;nothing_escapes', ('C07', 'C10'), post)]

    obligation_props = {'WcSplit.parse_extend.': ('C07', 'C10'), '_wcparse.WcSplit.parse_extend.': ('C10',)}


class SplitSplit(_Scan):
    """WcSplit._split(pattern): the splitting theorem."""
    qual = 'WcSplit._split'
    allowed_raises = ()
    forking = ('self._references', 'self._sequence', 'self.parse_extend')
    loop_ghosts = {1: ('$idx', '$joined')}

    def inputs(self):
        self.s = z3.String('pattern')
        self.i0 = z3.IntVal(0)
        fields = dict(pathname=Bool(z3.Bool('self_pathname')), bslash_abort=Bool(z3.Bool('self_bslash_abort')), extend=Bool(z3.Bool('self_extend')))
        return dict(params=dict(self=selfobj(), pattern=Str(self.s)), fields=fields, pre=[], ghost={'$idx': z3.IntVal(0), '$joined': z3.StringVal(''), '$final': None, '$nfinal': 0})

    @property
    def hooks(self):
        me = self

        def h_new(eng, node, st, args):
            eng.oblige('WcSplit._split.scans_the_pattern_text_from_its_start', st, args[0].t == me.s if args[0].kind == 'str' else z3.BoolVal(False), node)
            st.ghost['$idx'] = z3.IntVal(0)
            return ObjV(z3.Const('i', Obj))
        return {'util.StringIter': h_new, 'i.index': self.h_index(), 'i.rewind': self.h_rewind('WcSplit._split'), 'self._references': self.c_references(),
                'self._sequence': self.c_sequence(), 'self.parse_extend': self.c_parse_extend()}

    @property
    def iters(self):
        me = self

        def it1(eng, node, st):
            n = z3.Int(pyvc.fresh('n_iterations'))
            st.pc.append(n >= 0)
            # `for c in i`: one more character while the index is inside the text, the end exactly when it has reached the end
            return AbstractIter(n, lambda k: Str(z3.String(pyvc.fresh('c'))), exhaust_rule=lambda ex, k: ex.ghost['$idx'] == z3.Length(me.s))
        return {1: it1}

    @property
    def on_iter(self):
        me = self

        def o1(eng, st, k):
            idx = st.ghost['$idx']
            st.pc.append(idx < z3.Length(me.s))
            st.env['c'] = Str(at(me.s, idx))
            st.ghost['$idx'] = idx + 1
            st.ghost['$iter_start'] = idx
        return {1: o1}

    @property
    def invariants(self):
        me = self

        def inv(st, k):
            idx, start, joined = st.ghost['$idx'], st.env['start'], st.ghost['$joined']
            if start.kind != 'int':
                return z3.BoolVal(False)
            # progress: an iteration leaves the index behind the character it read (a rewind never goes back past it - the scan terminates)
            progress = idx > st.ghost['$iter_start'] if '$iter_start' in st.ghost else z3.BoolVal(True)
            return z3.And(idx >= 0, idx <= z3.Length(me.s), start.t >= -1, start.t < idx, z3.Or(start.t == -1, at(me.s, start.t) == z3.StringVal('|')),
                          joined == z3.SubString(me.s, 0, start.t + 1), progress)
        return {1: (None, inv)}

    @property
    def at(self):
        me = self

        def cut(st):
            if 1 not in st.ghost.get('$loops', ()):
                return z3.BoolVal(True)
            v = st.ghost['$point_value']
            idx = st.ghost['$idx']
            return z3.And(z3.BoolVal(v.kind == 'str'), at(me.s, idx - 1) == z3.StringVal('|'))
        return {'yield:': [('WcSplit._split.a_piece_ends_only_at_a_|_character_of_the_text', cut)]}

    @staticmethod
    def tiling(s, a, n):
        """consecutive substrings tile: s[0:a] + s[a:a+n] == s[0:a+n] (a fact of string theory; proved once for ALL s, a, n as the lemma below, used instantiated)"""
        return z3.Implies(z3.And(a >= 0, n >= 0, a + n <= z3.Length(s)), z3.Concat(z3.SubString(s, 0, a), z3.SubString(s, a, n)) == z3.SubString(s, 0, a + n))

    def lemmas(self):
        s, a, n = z3.String('s!lemma'), z3.Int('a!lemma'), z3.Int('n!lemma')
        return [('WcSplit._split.lemma.consecutive_substrings_tile_(s[0:a]+s[a:a+n]==s[0:a+n])', ('C07',), self.tiling(s, a, n))]

    @property
    def ghost_update(self):
        me = self

        def on_yield(st, result):
            if 1 in st.ghost.get('$loops', ()):
                start, idx = st.env['start'].t, st.ghost['$idx']
                split = idx - 1
                # the tiling lemma at the two cuts this yield makes: [0:start+1] + [start+1:split] and [0:split] + [split:split+1]
                st.pc += [me.tiling(me.s, start + 1, split - start - 1), me.tiling(me.s, split, z3.IntVal(1))]
                st.ghost['$joined'] = z3.Concat(st.ghost['$joined'], result.t, z3.StringVal('|'))
            else:
                st.ghost['$final'] = result
                st.ghost['$nfinal'] = st.ghost['$nfinal'] + 1
        return {'yield:': on_yield}

    @property
    def ensures(self):
        me = self

        def post(c):
            fin = c.st.ghost['$final']
            if fin is None or c.st.ghost['$nfinal'] != 1 or fin.kind != 'str':
                return z3.BoolVal(False)
            return z3.Concat(c.st.ghost['$joined'], fin.t) == me.s
        return [('WcSplit._split.joining_the_pieces_with_|_gives_the_pattern_back_(nothing_lost_nothing_invented;the_last_piece_is_always_yielded)', ('C07',), post)]

    obligation_props = {'WcSplit._split.': ('C07', 'C10'), '_wcparse.WcSplit._split.': ('C10',)}



# ------------------------------------------------------------------------------------------------- the glob twin (_GlobSplit)
class _GScan(_Scan):
    module = 'glob'
    props = ('C05', 'C10', 'C02')

    def c_references(self, sequence_known=None):
        me = self

        def h(eng, node, st, args):
            idx = st.ghost['$idx']
            seq = pyvc.truthy(args[1]) if len(args) > 1 else z3.BoolVal(False)
            c = at(me.s, idx)
            pne = z3.And(seq, z3.Or(z3.And(c == z3.StringVal('\\'), pyvc.truthy(st.fields['bslash_abort'])), c == z3.StringVal('/')))
            inside = idx < z3.Length(me.s)

            def adv(s2):
                s2.ghost['$idx'] = idx + 1
            val = Str(z3.If(z3.Or(c == z3.StringVal('\\'), c == z3.StringVal('/')), c, z3.StringVal('')))
            return Fork([(z3.And(inside, z3.Not(pne)), val, adv), (z3.And(inside, pne), Outcome('raise', exc='_wcparse.PathNameException'), adv),
                         (z3.Not(inside), Outcome('raise', exc='StopIteration'), None)])
        return h


class GSplitReferences(_GScan):
    qual = '_GlobSplit._references'
    allowed_raises = ('StopIteration', 'PathNameException')
    forking = ('next',)

    def inputs(self):
        inp = self.base_inputs()
        self.seq = z3.Bool('sequence')
        inp['params']['sequence'] = Bool(self.seq)
        return inp

    @property
    def hooks(self):
        return {'next': self.h_next()}

    def pne(self, c):
        ch = at(self.s, self.i0)
        return z3.And(self.seq, z3.Or(z3.And(ch == z3.StringVal('\\'), pyvc.truthy(c.st.fields['bslash_abort'])), ch == z3.StringVal('/')))

    @property
    def ensures(self):
        me = self

        def post(c):
            ch = at(me.s, me.i0)
            want = z3.If(z3.Or(ch == z3.StringVal('\\'), ch == z3.StringVal('/')), ch, z3.StringVal(''))
            return z3.And(me.i0 < z3.Length(me.s), c.st.ghost['$idx'] == me.i0 + 1, z3.Not(me.pne(c)), z3.BoolVal(c.ret.kind == 'str'), c.ret.t == want)
        return [('_GlobSplit._references.consumes_exactly_one_character_and_returns_it_iff_it_is_a_separator_character', ('C05', 'C10', 'C02'), post)]

    @property
    def exc_ensures(self):
        me = self

        def post(c):
            if pyvc.isa(c.exc, 'PathNameException'):
                return z3.And(me.i0 < z3.Length(me.s), c.st.ghost['$idx'] == me.i0 + 1, me.pne(c))
            return z3.And(z3.BoolVal(pyvc.isa(c.exc, 'StopIteration')), me.i0 == z3.Length(me.s), c.st.ghost['$idx'] == me.i0)
        return [('_GlobSplit._references.StopIteration_exactly_at_the_end;PathNameException_exactly_for_a_separator_escaped_inside_a_bracket', ('C05', 'C10', 'C02'), post)]


class GSplitSequence(_GScan):
    qual = '_GlobSplit._sequence'
    forking = ('next', 'self._references')
    loop_ghosts = {1: ('$idx',)}

    def inputs(self):
        return self.base_inputs()

    @property
    def hooks(self):
        return {'next': self.h_next(), 'self._references': self.c_references()}

    @property
    def invariants(self):
        me = self

        def inv(st, k):
            idx, c = st.ghost['$idx'], st.env['c']
            if c.kind != 'str':
                return z3.BoolVal(False)
            return z3.And(idx > me.i0, idx <= z3.Length(me.s), c.t == at(me.s, idx - 1))
        return {1: (None, inv)}

    @property
    def ensures(self):
        me = self
        return [('_GlobSplit._sequence.returns_with_the_index_just_behind_a_]_further_on', ('C05', 'C10', 'C02'),
                 lambda c: z3.And(c.st.ghost['$idx'] > me.i0, c.st.ghost['$idx'] <= z3.Length(me.s), at(me.s, c.st.ghost['$idx'] - 1) == z3.StringVal(']')))]

    @property
    def exc_ensures(self):
        me = self
        return [('_GlobSplit._sequence.only_StopIteration_escapes_and_the_index_stays_inside_the_text', ('C05', 'C10', 'C02'),
                 lambda c: z3.And(z3.BoolVal(pyvc.isa(c.exc, 'StopIteration')), c.st.ghost['$idx'] >= me.i0, c.st.ghost['$idx'] <= z3.Length(me.s)))]

    obligation_props = {'_GlobSplit._sequence.': ('C05', 'C10', 'C02'), 'glob._GlobSplit._sequence.': ('C10',)}


class GSplitParseExtend(_GScan):
    qual = '_GlobSplit.parse_extend'
    allowed_raises = ()
    forking = ('next', 'self._references', 'self._sequence', 'self.parse_extend')
    loop_ghosts = {1: ('$idx',)}

    def inputs(self):
        inp = self.base_inputs()
        inp['params']['c'] = Str(z3.String('c'))
        return inp

    @property
    def hooks(self):
        return {'next': self.h_next(), 'i.index': self.h_index(), 'i.rewind': self.h_rewind('_GlobSplit.parse_extend'), 'self._references': self.c_references(),
                'self._sequence': self.c_sequence(), 'self.parse_extend': self.c_parse_extend()}

    invariants = SplitParseExtend.invariants

    @property
    def ensures(self):
        me = self

        def post(c):
            idx = c.st.ghost['$idx']
            ok = pyvc.truthy(c.ret)
            return z3.And(z3.BoolVal(c.ret.kind == 'bool'), z3.Implies(z3.Not(ok), idx == me.i0), z3.Implies(ok, z3.And(idx > me.i0, idx <= z3.Length(me.s))))
        return [('_GlobSplit.parse_extend.False:the_index_is_back_where_it_was;True:it_moved_forward_inside_the_text;nothing_escapes', ('C05', 'C10', 'C02'), post)]

    obligation_props = {'_GlobSplit.parse_extend.': ('C05', 'C10', 'C02'), 'glob._GlobSplit.parse_extend.': ('C10',)}

ALL = [SplitReferences(), SplitSequence(), SplitParseExtend(), SplitSplit(), GSplitReferences(), GSplitSequence(), GSplitParseExtend()]


# ------------------------------------------------------------------------------------------------- _GlobSplit.split: the scan and the cutting
IntArr = z3.ArraySort(z3.IntSort(), z3.IntSort())


class GlobSplitScan(_GScan):
    """_GlobSplit.split (str patterns; the bytes route differs by the latin-1 codec calls, which the epilogue contract in splitc.py covers), scan loop and
    cutting loop, for ALL pattern texts.  The scanner helpers are replaced by their contracts above, `_get_win_drive`, `store` and `_GlobPart` are abstract.
    Proved: index discipline and progress of the scan; every recorded cut (pos, offset) lies behind the prefix, is a separator spelling of the text
    (`/`, or a backslash followed by `/`, or by a backslash under the Windows rules), and the cuts are strictly increasing; the values handed to store()
    are exactly the texts between consecutive cuts - together with the separator spellings they tile the pattern behind the drive / root prefix; every
    value but the last is stored as a directory segment, the last (if not empty) as a non-directory segment."""
    qual = '_GlobSplit.split'
    props = ('C02', 'C05', 'C10')
    allowed_raises = ('ValueError',)
    forking = ('self._references', 'self._sequence', 'self.parse_extend')
    loop_ghosts = {1: ('$idx', '$n', '$pos', '$off'), 2: ('$joined', '$nstored')}
    mutates = {'self.store': [1]}
    assumptions = ('_get_win_drive(pattern) is abstract in the scan contract: when it reports a drive, 0 < end <= len(pattern); when it reports a root without a drive, the pattern starts with '
                   '`/` or with two backslashes (its own `startswith` test); store() and _GlobPart are abstract; the parts list is only handed on',)

    def inputs(self):
        self.s = z3.String('pattern')
        self.i0 = z3.IntVal(0)
        names = ('extend', 'win_drive_detect', 'bslash_abort', 'extmatchbase', 'matchbase', 'globstarlong', 'follow', 'no_abs')
        fields = {n: Bool(z3.Bool('self_' + n)) for n in names}
        fields['pattern'] = Str(self.s)
        ghost = {'$idx': z3.IntVal(0), '$n': z3.IntVal(0), '$pos': z3.K(z3.IntSort(), z3.IntVal(0)), '$off': z3.K(z3.IntSort(), z3.IntVal(0)), '$joined': z3.StringVal(''),
                 '$nstored': z3.IntVal(0), '$last': None, '$start0': None}
        return dict(params=dict(self=selfobj()), fields=fields, pre=[], ghost=ghost)

    # facts about recorded cut j
    def cut_ok(self, st, j, idx, start0):
        pos, off = z3.Select(st.ghost['$pos'], j), z3.Select(st.ghost['$off'], j)
        bs, sl = z3.StringVal('\\'), z3.StringVal('/')
        nxt = at(self.s, pos + 1)
        return z3.And(pos >= start0, pos >= 0, pos + off < idx, z3.Or(off == 0, off == 1),
                      z3.Implies(off == 0, at(self.s, pos) == sl),
                      z3.Implies(off == 1, z3.And(at(self.s, pos) == bs, z3.Or(nxt == sl, z3.And(nxt == bs, pyvc.truthy(st.fields['bslash_abort']))))))

    @property
    def hooks(self):
        me = self

        def h_new(eng, node, st, args):
            st.ghost['$idx'] = z3.IntVal(0)
            return ObjV(z3.Const('i', Obj))

        def h_advance(eng, node, st, args):
            idx = st.ghost['$idx']
            eng.oblige('_GlobSplit.split.advance_stays_inside_the_text', st, z3.And(args[0].t >= 0, idx + args[0].t <= z3.Length(me.s)), node)
            st.ghost['$idx'] = idx + args[0].t
            return NONE

        def h_drive(eng, node, st, args):
            root, none, end = z3.Bool('root_specified'), z3.Bool('drive_is_None'), z3.Int('drive_end')
            st.pc += [z3.Implies(z3.Not(none), z3.And(end > 0, end <= z3.Length(me.s))),
                      z3.Implies(z3.And(none, root), z3.Or(z3.PrefixOf(z3.StringVal('/'), me.s), z3.PrefixOf(z3.StringVal('\\\\'), me.s)))]
            return V('tuple', None, items=[Bool(root), V('opt', None, isnone=none, inner=Str(z3.String('drive'))), Bool(z3.Bool('drive_slash')), Int(end)])

        def h_part(eng, node, st, args):
            return V('tuple', None, items=list(args))

        def h_store(eng, node, st, args):
            value, parts, donly = args
            in_loop2 = 2 in st.ghost.get('$loops', ())
            start = st.env['start'].t
            if value.kind != 'str':
                eng.oblige('_GlobSplit.split.store_receives_text', st, z3.BoolVal(False), node)
                return NONE
            if in_loop2:
                k = st.ghost['$k2']
                pos, off = z3.Select(st.ghost['$pos'], k), z3.Select(st.ghost['$off'], k)
                s0 = st.ghost['$start0']
                eng.oblige('_GlobSplit.split.each_value_is_the_text_between_two_consecutive_cuts_stored_as_a_directory_segment', st,
                           z3.And(value.t == z3.SubString(me.s, start + 1, pos - start - 1), pyvc.truthy(donly)), node)
                # the separator spelling of this cut, as far as it lies behind `start` (the first cut may sit AT the end of the drive prefix)
                lo = z3.If(pos > start, pos, start + 1)
                vlen = z3.If(pos > start, pos - start - 1, 0)
                sepspell = z3.SubString(me.s, lo, pos + off + 1 - lo)
                st.pc += [me.tiling(me.s, s0 + 1, start - s0, vlen), me.tiling(me.s, s0 + 1, lo - s0 - 1, pos + off + 1 - lo)]
                st.ghost['$joined'] = z3.Concat(st.ghost['$joined'], value.t, sepspell)
                st.ghost['$nstored'] = st.ghost['$nstored'] + 1
            else:
                eng.oblige('_GlobSplit.split.the_last_value_is_the_rest_of_the_text_stored_as_a_non-directory_segment', st,
                           z3.And(value.t == z3.SubString(me.s, start + 1, z3.Length(me.s) - start - 1), z3.Not(pyvc.truthy(donly)), z3.Length(value.t) > 0), node)
                st.ghost['$last'] = value
            return NONE

        def h_setitem(eng, target, st, val):
            return None
        return {'util.StringIter': h_new, 'i.index': self.h_index(), 'i.rewind': self.h_rewind('_GlobSplit.split'), 'i.advance': h_advance, 'self._references': self.c_references(),
                'self._sequence': self.c_sequence(), 'self.parse_extend': self.c_parse_extend(), '_wcparse._get_win_drive': h_drive, '_GlobPart': h_part, 'self.store': h_store,
                'isinstance': lambda eng, node, st, args: Bool(False), 'setitem': h_setitem}

    @staticmethod
    def tiling(s, b, m, n):
        """s[b:b+m] + s[b+m:b+m+n] == s[b:b+m+n] (proved once for all s, b, m, n as the lemma below, used instantiated)"""
        return z3.Implies(z3.And(b >= 0, m >= 0, n >= 0, b + m + n <= z3.Length(s)), z3.Concat(z3.SubString(s, b, m), z3.SubString(s, b + m, n)) == z3.SubString(s, b, m + n))

    def lemmas(self):
        s, b, m, n = z3.String('s!lemma'), z3.Int('b!lemma'), z3.Int('m!lemma'), z3.Int('n!lemma')
        return [('_GlobSplit.split.lemma.consecutive_substrings_tile_(s[b:b+m]+s[b+m:b+m+n]==s[b:b+m+n])', ('C02', 'C05'), self.tiling(s, b, m, n))]

    @property
    def iters(self):
        me = self

        def it1(eng, node, st):
            n = z3.Int(pyvc.fresh('n_iterations'))
            st.pc.append(n >= 0)
            return AbstractIter(n, lambda k: Str(z3.String(pyvc.fresh('c'))), exhaust_rule=lambda ex, k: ex.ghost['$idx'] == z3.Length(me.s))

        def it2(eng, node, st):
            return AbstractIter(st.ghost['$n'], lambda k: V('tuple', None, items=[Int(z3.Select(st.ghost['$pos'], k)), Int(z3.Select(st.ghost['$off'], k))]))
        return {1: it1, 2: it2}

    @property
    def on_entry(self):
        def e1(eng, st, node):
            st.ghost['$start0'] = st.env['start'].t          # where the drive / root prefix ends (fixed from here on)
        return {1: e1}

    @property
    def on_iter(self):
        me = self

        def o1(eng, st, k):
            idx = st.ghost['$idx']
            st.pc.append(idx < z3.Length(me.s))
            st.env['c'] = Str(at(me.s, idx))
            st.ghost['$idx'] = idx + 1
            st.ghost['$iter_start'] = idx
        return {1: o1}

    @property
    def ghost_update(self):
        def on_append(st, result):
            if result is not None and result.kind == 'tuple' and len(result.a['items']) == 2:
                pos, off = result.a['items']
                n = st.ghost['$n']
                st.ghost['$pos'] = z3.Store(st.ghost['$pos'], n, pos.t)
                st.ghost['$off'] = z3.Store(st.ghost['$off'], n, off.t if off.kind == 'int' else z3.BV2Int(off.t))
                st.ghost['$n'] = n + 1
        return {'call:append': on_append}

    @property
    def invariants(self):
        me = self
        j = z3.Int('j!inv')

        def inv1(st, k):
            idx, n, start = st.ghost['$idx'], st.ghost['$n'], st.env['start']
            si = st.env['split_index']
            start0 = st.ghost['$start0']
            if start.kind != 'int' or si.kind != 'list':
                return z3.BoolVal(False)
            progress = idx > st.ghost['$iter_start'] if '$iter_start' in st.ghost else z3.BoolVal(True)
            return z3.And(idx >= 0, idx <= z3.Length(me.s), n >= 0, si.a['length'] == n, start.t == start0, start0 >= -1, start0 <= idx, start0 < z3.Length(me.s) + z3.If(z3.Length(me.s) == 0, 1, 0), progress,
                          z3.ForAll([j], z3.Implies(z3.And(j >= 0, j < n), z3.And(me.cut_ok(st, j, idx, start0),
                                                                                z3.Implies(j + 1 < n, z3.Select(st.ghost['$pos'], j) + z3.Select(st.ghost['$off'], j) < z3.Select(st.ghost['$pos'], j + 1))))))

        def inv2(st, k):
            start = st.env['start']
            start0 = st.ghost['$start0']
            if start.kind != 'int':
                return z3.BoolVal(False)
            prev = z3.Select(st.ghost['$pos'], k - 1) + z3.Select(st.ghost['$off'], k - 1)
            return z3.And(start.t == z3.If(k == 0, start0, prev), st.ghost['$joined'] == z3.SubString(me.s, start0 + 1, start.t - start0), st.ghost['$nstored'] == k)
        return {1: (None, inv1), 2: (None, inv2)}

    @property
    def ensures(self):
        me = self

        def post(c):
            start0 = c.st.ghost['$start0']
            last = c.st.ghost['$last']
            tail = last.t if last is not None else z3.StringVal('')
            start = c.st.env['start'].t
            n = z3.Length(me.s)
            lemma = me.tiling(me.s, start0 + 1, start - start0, n - start - 1)          # the proved tiling lemma at the last cut
            return z3.Implies(lemma, z3.And(z3.Concat(c.st.ghost['$joined'], tail) == z3.SubString(me.s, start0 + 1, n - start0 - 1), c.st.ghost['$nstored'] == c.st.ghost['$n']))
        return [('_GlobSplit.split.the_stored_values_and_the_separator_spellings_between_them_tile_the_pattern_behind_the_drive_or_root_prefix', ('C02', 'C05'), post)]

    exc_ensures = ()
    obligation_props = {'_GlobSplit.split.': ('C02', 'C05', 'C10'), 'glob._GlobSplit.split.': ('C10',)}


ALL.append(GlobSplitScan())
