"""Contract on glob.Glob._iter - the one place where glob lists a directory (C05 completeness / dir_only filter, C06 is_link, C12 roots).

Abstract view: ENTRY(k) the k-th os.DirEntry of scandir(target); NAME/ISDIR/ISLINK its name / is_dir() / is_symlink(); each of the
two calls may raise OSError (the entry is then skipped).  Obligations:
  * the two fake entries ('.', True, True, False), ('..', True, True, False) are yielded before any real entry, and exactly when the
    directory could be opened for listing (a directory that cannot be listed yields nothing: C12 "every result exists");
  * every yielded real entry is (NAME, ISDIR, _is_hidden(NAME), ISLINK if ISDIR else False) and is yielded iff not dir_only or ISDIR
    (the "only if" at the yield, the "if" by the ghost $owed checked at the end of each iteration);
  * what is listed: curdir itself for absolute patterns, else root_dir[/curdir] - through a descriptor opened relative to dir_fd
    (and closed again on every path) when dir_fd is given;
  * OSError from open / scandir / an entry never escapes."""
import z3

from vlib import pyvc
from vlib.pyvc import V, Int, Bool, Str, U, ObjV, Obj, NONE, Fork, Outcome, AbstractIter
from .base import Contract

I = z3.IntSort()
ENTRY = z3.Function('dir_entry_k', I, Obj)
NAME = z3.Function('entry_name', Obj, Obj)
ISDIR = z3.Function('entry_is_dir', Obj, z3.BoolSort())
ISLNK = z3.Function('entry_is_symlink', Obj, z3.BoolSort())
HIDDEN = z3.Function('glob_is_hidden', Obj, z3.BoolSort())


def selfobj():
    return ObjV(z3.Const('self', Obj))


class GlobIter(Contract):
    module, qual, props = 'glob', 'Glob._iter', ('C05', 'C06', 'C12', 'C03')
    assumptions = ('os.scandir / os.open / os.close / DirEntry.is_dir / is_symlink are the file system (abstract; each may raise OSError)',
                   'the context manager returned by os.scandir is the iterator itself and closing it has no effect on the contract',
                   '`deep` is unused by the body (it is a parameter kept for the caller)')
    forking = ('os.open', 'os.scandir', 'f.is_dir', 'f.is_symlink')

    def inputs(self):
        self.abs = z3.Bool('self_is_abs_pattern')
        self.fd_none = z3.Bool('self_dir_fd_is_None')
        self.dir_only = z3.Bool('dir_only')
        self.root_bytes, self.name_is_str = z3.Bool('self_root_dir_is_bytes'), z3.Bool('entry_name_is_str')
        self.curdir = ObjV(z3.Const('curdir', Obj))
        self.cur_none = z3.Bool('curdir_is_None')
        cur = V('opt', None, isnone=self.cur_none, inner=self.curdir)
        fields = dict(is_abs_pattern=Bool(self.abs), dir_fd=V('opt', None, isnone=self.fd_none, inner=ObjV(z3.Const('self_dir_fd', Obj))),
                      root_dir=ObjV(z3.Const('self_root_dir', Obj)), specials=V('tuple', None, items=[Str('.'), Str('..')]))
        ghost = {'$opened': None, '$closed': False, '$scan_arg': None, '$owed': z3.BoolVal(False), '$specials_yielded': 0, '$scanning': False}
        return dict(params=dict(self=selfobj(), curdir=cur, dir_only=Bool(self.dir_only), deep=Bool(z3.Bool('deep'))), fields=fields, pre=[], ghost=ghost)

    def target_path(self):
        cur_truthy = z3.And(z3.Not(self.cur_none), pyvc.truth_term(self.curdir.t))
        joined = U('join', ObjV(z3.Const('self_root_dir', Obj)), self.curdir).t
        return cur_truthy, z3.If(cur_truthy, joined, z3.Const('self_root_dir', Obj))

    @property
    def hooks(self):
        me = self

        def h_join(eng, node, st, args):
            return U('join', *args)

        def h_open(eng, node, st, args):
            kw = {k.arg: eng.ev(k.value, st) for k in node.keywords}
            cur_truthy, tgt = me.target_path()
            eng.oblige('Glob._iter.dir_fd_root:opens_root_dir[/curdir]_relative_to_dir_fd_with_DIR_FLAGS', st,
                       z3.And(pyvc.to_obj(args[0]) == tgt, pyvc.eq(kw.get('dir_fd', NONE), st.fields['dir_fd']), z3.Not(me.fd_none),
                              pyvc.eq(args[1], ObjV(z3.Const('DIR_FLAGS', Obj))) if len(args) > 1 else z3.BoolVal(False)), node)
            fd = ObjV(z3.Const(pyvc.fresh('fd'), Obj))

            def opened(s2):
                s2.ghost['$opened'] = fd
                s2.pc.append(fd.t != pyvc.NONE_OBJ)          # a file descriptor is an int, never None
            return Fork([(z3.Bool(pyvc.fresh('open_ok')), fd, opened), (z3.Bool(pyvc.fresh('open_fails')), Outcome('raise', exc='OSError'), None)])

        def h_scandir(eng, node, st, args):
            cur_truthy, tgt = me.target_path()
            arg = pyvc.to_obj(args[0])
            opened = st.ghost['$opened']
            want = z3.If(z3.And(me.abs, cur_truthy), arg == me.curdir.t,
                         (arg == opened.t) if opened is not None else z3.And(me.fd_none, arg == tgt))
            eng.oblige('Glob._iter.lists_curdir_itself_for_absolute_patterns_else_root_dir[/curdir]_(through_the_opened_descriptor_under_dir_fd)', st, want, node)
            scan = ObjV(z3.Const(pyvc.fresh('scan'), Obj))

            def ok(s2):
                s2.ghost['$scanning'] = True
            return Fork([(z3.Bool(pyvc.fresh('scandir_ok')), scan, ok), (z3.Bool(pyvc.fresh('scandir_fails')), Outcome('raise', exc='OSError'), None)])

        def h_close(eng, node, st, args):
            opened = st.ghost['$opened']
            eng.oblige('Glob._iter.closes_only_the_descriptor_it_opened_once', st,
                       z3.And(z3.BoolVal(opened is not None and not st.ghost['$closed']), pyvc.eq(args[0], opened) if opened is not None else z3.BoolVal(False)), node)
            st.ghost['$closed'] = True
            return NONE

        def h_is_hidden(eng, node, st, args):
            return Bool(HIDDEN(pyvc.to_obj(args[0])))

        def entry(st):
            return ENTRY(st.ghost['$k2'])

        def unowed(s2):
            s2.ghost['$owed'] = z3.BoolVal(False)          # an entry whose stat call fails is skipped (the except clause of the body)

        def h_is_dir(eng, node, st, args):
            e = entry(st)
            def not_a_dir(s2):
                # an entry whose is_dir() fails (a link that cannot be resolved: a loop) is NOT a directory - and still owed to the caller
                # (fix 04f5455; before it the entry was dropped although it exists)
                s2.pc.append(z3.Not(ISDIR(e)))
            return Fork([(z3.Bool(pyvc.fresh('is_dir_ok')), Bool(ISDIR(e)), None), (z3.Bool(pyvc.fresh('is_dir_fails')), Outcome('raise', exc='OSError'), not_a_dir)])

        def h_is_symlink(eng, node, st, args):
            e = entry(st)
            return Fork([(z3.Bool(pyvc.fresh('is_symlink_ok')), Bool(ISLNK(e)), None), (z3.Bool(pyvc.fresh('is_symlink_fails')), Outcome('raise', exc='OSError'), unowed)])

        def h_flags(eng, node, st, args):
            return ObjV(z3.Const('DIR_FLAGS', Obj))

        def h_isinstance(eng, node, st, args):
            what, cls = eng.dotted(node.args[0]), eng.dotted(node.args[1])
            if what == 'self.root_dir' and cls == 'bytes':
                return Bool(me.root_bytes)
            if what == 'f.name' and cls == 'str':
                return Bool(me.name_is_str)
            raise pyvc.Unsupported(f'isinstance({what}, {cls})')

        def h_fsencode(eng, node, st, args):
            return U('fsencode', *args)
        return {'os.path.join': h_join, 'os.open': h_open, 'os.scandir': h_scandir, 'os.close': h_close, 'self._is_hidden': h_is_hidden,
                'f.is_dir': h_is_dir, 'f.is_symlink': h_is_symlink, '_wcmatch.DIR_FLAGS': h_flags, 'isinstance': h_isinstance, 'os.fsencode': h_fsencode}

    @property
    def iters(self):
        def it2(eng, node, st):
            n = z3.Int('n_dir_entries')
            st.pc.append(n >= 0)
            return AbstractIter(n, lambda k: ObjV(ENTRY(k)))
        return {2: it2}

    @property
    def invariants(self):
        return {1: ('self.specials', lambda st, k: z3.BoolVal(True)), 2: ('scan', lambda st, k: z3.Not(st.ghost['$owed']))}

    loop_ghosts = {2: ('$owed',)}

    @property
    def on_iter(self):
        me = self

        def o2(eng, st, k):
            # the entry is owed to the caller iff it passes the dir_only filter - unless one of its stat calls fails
            eng.oblige('Glob._iter.fake_entries_._and_.._are_yielded_before_the_first_real_entry', st, z3.BoolVal(st.ghost['$specials_yielded'] == 2), None)
            st.ghost['$owed'] = z3.Or(z3.Not(me.dir_only), ISDIR(ENTRY(k)))
        return {2: o2}

    @property
    def at(self):
        me = self

        def y(st):
            v = st.ghost['$point_value']
            if v.kind != 'tuple' or len(v.a['items']) != 4:
                return z3.BoolVal(False)
            name, is_dir, hidden, is_link = v.a['items']
            if st.ghost['$specials_yielded'] < 2:
                k = st.ghost['$specials_yielded']
                want = ['.', '..'][k]
                return z3.And(pyvc.eq(name, Str(want)), pyvc.truthy(is_dir), pyvc.truthy(hidden), z3.Not(pyvc.truthy(is_link)))
            e = ENTRY(st.ghost['$k2'])
            raw = U('attr.name', ObjV(e))
            # names have the type of the root: a str name (a descriptor scan always yields str) is encoded when the root is bytes
            nm = ObjV(z3.If(z3.And(me.root_bytes, me.name_is_str), U('fsencode', raw).t, raw.t))
            return z3.And(pyvc.eq(name, nm), pyvc.truthy(is_dir) == ISDIR(e), pyvc.truthy(hidden) == HIDDEN(nm.t),
                          pyvc.truthy(is_link) == z3.And(ISDIR(e), ISLNK(e)), z3.Or(z3.Not(me.dir_only), ISDIR(e)))
        return {'yield:': [('Glob._iter.yields_(name,is_dir,hidden,is_link_only_for_directories)_of_the_entry_and_only_entries_passing_dir_only', y)]}

    @property
    def ghost_update(self):
        def on_yield(st, result):
            if st.ghost['$specials_yielded'] < 2:
                st.ghost['$specials_yielded'] = st.ghost['$specials_yielded'] + 1
            else:
                st.ghost['$owed'] = z3.BoolVal(False)
        return {'yield:': on_yield}

    @property
    def ensures(self):
        me = self

        def closed(c):
            return z3.BoolVal((c.st.ghost['$opened'] is None) == (not c.st.ghost['$closed']))

        def fakes(c):
            return z3.BoolVal(c.st.ghost['$specials_yielded'] == (2 if c.st.ghost['$scanning'] else 0))
        return [('Glob._iter.descriptor_opened_iff_closed_on_every_path', ('C12', 'C19'), closed),
                ('Glob._iter.fake_entries_._and_.._are_yielded_iff_the_directory_could_be_opened_for_listing', ('C12', 'C05'), fakes)]

    obligation_props = {'Glob._iter.dir_fd_root': ('C12',), 'Glob._iter.lists_curdir': ('C05', 'C12'), 'Glob._iter.fake_entries': ('C05', 'C03'),
                        'Glob._iter.closes': ('C12', 'C19'), 'Glob._iter.yields': ('C05', 'C06', 'C03'), 'Glob._iter.loop': ('C05', 'C06')}


ALL = [GlobIter()]
