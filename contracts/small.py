"""Contracts on the small helpers of glob.Glob that sit between the walker contracts and the file system / the exclusion regexes:
_match_excluded, _is_excluded, _lexists, _prepend_base, _match_literal, _is_this, _is_parent (C05, C12, C13, C03)."""
import z3

from vlib import pyvc
from vlib.pyvc import V, Int, Bool, Str, U, ObjV, Obj, NONE, Fork, Outcome
from .base import Contract

NPAT = z3.Function('npattern_k', z3.IntSort(), Obj)
LOWER = pyvc.STR_LOWER


def selfobj():
    return ObjV(z3.Const('self', Obj))


def FULL(p, name):
    return pyvc.truthy(U('method.fullmatch', ObjV(p), name))


class MatchExcluded(Contract):
    """exclusion regexes see directories WITH a trailing separator (added iff missing) and must FULLY match"""
    module, qual, props = 'glob', 'Glob._match_excluded', ('C13', 'C07', 'C12', 'C03')
    assumptions = ('re.Pattern.fullmatch is the uninterpreted full-match relation (its language is the business of relang)',)

    def inputs(self):
        self.fname, self.sep = z3.String('filename'), z3.String('self_sep')
        self.is_dir = z3.Bool('is_dir')
        self.n = z3.Int('n_npatterns')
        fields = dict(sep=Str(self.sep), npatterns=V('list', None, length=self.n, elem=lambda k: ObjV(NPAT(k))))
        return dict(params=dict(self=selfobj(), filename=Str(self.fname), is_dir=Bool(self.is_dir)), fields=fields, pre=[self.n >= 0, z3.Length(self.sep) == 1])

    def shown(self):
        return z3.If(z3.And(self.is_dir, z3.Not(z3.SuffixOf(self.sep, self.fname))), z3.Concat(self.fname, self.sep), self.fname)

    @property
    def invariants(self):
        me = self
        i = z3.Int('i!inv')
        return {1: ('self.npatterns', lambda st, k: z3.And(z3.Not(pyvc.truthy(st.env['matched'])), st.env['filename'].t == me.shown(),
                                                            z3.ForAll([i], z3.Implies(z3.And(i >= 0, i < k), z3.Not(FULL(NPAT(i), Str(me.shown())))))))}

    @property
    def ensures(self):
        me = self
        i = z3.Int('i!post')
        return [('Glob._match_excluded.true_iff_some_exclusion_regex_FULLY_matches_the_path_(directories_shown_with_one_trailing_separator)', ('C13', 'C07', 'C12', 'C03'),
                 lambda c: pyvc.truthy(c.ret) == z3.Exists([i], z3.And(i >= 0, i < me.n, FULL(NPAT(i), Str(me.shown())))))]

    obligation_props = {'Glob._match_excluded.loop': ('C13', 'C07')}


class IsExcluded(Contract):
    module, qual, props = 'glob', 'Glob._is_excluded', ('C13', 'C07', 'C12')
    pure = ('_match_excluded',)

    def inputs(self):
        self.n = z3.Int('n_npatterns')
        fields = dict(npatterns=V('list', None, length=self.n))
        return dict(params=dict(self=selfobj(), path=ObjV(z3.Const('path', Obj)), is_dir=Bool(z3.Bool('is_dir'))), fields=fields, pre=[self.n >= 0])

    @property
    def ensures(self):
        me = self
        return [('Glob._is_excluded.is_bool(exclusions_exist_and__match_excluded(path,is_dir))', ('C13', 'C07', 'C12'),
                 lambda c: z3.And(z3.BoolVal(c.ret.kind == 'bool'),
                                  pyvc.truthy(c.ret) == z3.And(me.n > 0, pyvc.truthy(U('method._match_excluded', c.p['self'], c.p['path'], c.p['is_dir'])))))]


class PrependBase(Contract):
    module, qual, props = 'glob', 'Glob._prepend_base', ('C12', 'C05')

    def inputs(self):
        self.abs = z3.Bool('self_is_abs_pattern')
        fields = dict(is_abs_pattern=Bool(self.abs), root_dir=ObjV(z3.Const('self_root_dir', Obj)))
        return dict(params=dict(self=selfobj(), path=ObjV(z3.Const('path', Obj))), fields=fields, pre=[])

    hooks = {'os.path.join': lambda eng, node, st, args: U('join', *args)}

    @property
    def ensures(self):
        me = self
        return [('Glob._prepend_base.absolute_patterns_as_written_relative_ones_joined_to_root_dir', ('C12', 'C05'),
                 lambda c: pyvc.eq(c.ret, pyvc.Engine.ite(None, me.abs, c.p['path'], U('join', c.st.fields['root_dir'], c.p['path']))))]


class LExists(Contract):
    """existence is decided WITHOUT following the last component (a dangling symlink exists), relative to root_dir or dir_fd"""
    module, qual, props = 'glob', 'Glob._lexists', ('C12', 'C05')
    pure = ('_prepend_base',)
    forking = ('os.lstat',)
    assumptions = ('os.path.lexists / os.lstat tell the truth about the file system (LEXISTS); a failing lstat means "does not exist"',)
    LEX = z3.Function('fs_lexists', Obj, z3.BoolSort())

    def inputs(self):
        self.fd_none, self.fd_zero = z3.Bool('self_dir_fd_is_None'), z3.Bool('self_dir_fd_is_0')
        fd = V('opt', None, isnone=self.fd_none, inner=Int(z3.Int('self_dir_fd')))
        return dict(params=dict(self=selfobj(), path=ObjV(z3.Const('path', Obj))), fields=dict(dir_fd=fd), pre=[], ghost={'$stat_calls': []})

    @property
    def hooks(self):
        me = self

        def h_lexists(eng, node, st, args):
            st.ghost['$stat_calls'] = st.ghost['$stat_calls'] + [('lexists', args[0], None)]
            return Bool(me.LEX(pyvc.to_obj(args[0])))

        def h_lstat(eng, node, st, args):
            kw = {k.arg: eng.ev(k.value, st) for k in node.keywords}
            st.ghost['$stat_calls'] = st.ghost['$stat_calls'] + [('lstat', args[0], kw.get('dir_fd'))]
            ok = me.LEX(pyvc.to_obj(args[0]))
            return Fork([(ok, ObjV(z3.Const(pyvc.fresh('st'), Obj)), None), (z3.Not(ok), Outcome('raise', exc='OSError'), None)])

        def h_stat(eng, node, st, args):
            st.ghost['$stat_calls'] = st.ghost['$stat_calls'] + [('stat', args[0], None)]
            ok = z3.Bool(pyvc.fresh('stat_ok'))
            return Fork([(ok, ObjV(z3.Const(pyvc.fresh('st'), Obj)), None), (z3.Not(ok), Outcome('raise', exc='OSError'), None)])
        return {'os.path.lexists': h_lexists, 'os.lstat': h_lstat, 'os.stat': h_stat, 'os.path.exists': h_stat}

    @property
    def ensures(self):
        me = self

        def post(c):
            calls = c.st.ghost['$stat_calls']
            if len(calls) != 1 or calls[0][0] not in ('lexists', 'lstat'):
                return z3.BoolVal(False)
            kind, arg, fd = calls[0]
            target = U('method._prepend_base', c.p['self'], c.p['path'])
            ok = z3.And(pyvc.eq(arg, target), pyvc.truthy(c.ret) == me.LEX(target.t))
            if kind == 'lstat':
                ok = z3.And(ok, pyvc.eq(fd, c.st.fields['dir_fd']) if fd is not None else z3.BoolVal(False))
            return ok
        return [('Glob._lexists.asks_lexists/lstat_(never_stat)_once_about__prepend_base(path)_relative_to_dir_fd_when_given', ('C12', 'C05'), post)]


class MatchLiteral(Contract):
    module, qual, props = 'glob', 'Glob._match_literal', ('C05', 'C17')
    # no CPython cross-check here: str.lower is an uninterpreted function in the model, so a model's `lower` need not be Python's

    def inputs(self):
        self.a, self.b, self.cs = z3.String('a'), z3.String('b'), z3.Bool('self_case_sensitive')
        return dict(params=dict(self=selfobj(), a=Str(self.a), b=Str(self.b)), fields=dict(case_sensitive=Bool(self.cs)), pre=[])

    @property
    def ensures(self):
        me = self
        return [('Glob._match_literal.case_sensitive:a==b;insensitive:lower(a)==b_(b_is_pre-folded_by__get_matcher)', ('C05', 'C17'),
                 lambda c: pyvc.truthy(c.ret) == z3.If(me.cs, me.a == me.b, LOWER(me.a) == me.b))]


class IsThis(Contract):
    module, qual, props = 'glob', 'Glob._is_this', ('C05', 'C03')

    def crosscheck(self, eng, paths, inp):
        from .base import simple_crosscheck
        return simple_crosscheck(self, eng, paths, inp)

    def inputs(self):
        self.name, self.sep = z3.String('name'), z3.String('self_sep')
        fields = dict(specials=V('tuple', None, items=[Str('.'), Str('..')]), sep=Str(self.sep))
        return dict(params=dict(self=selfobj(), name=Str(self.name)), fields=fields, pre=[])

    @property
    def ensures(self):
        me = self
        return [('Glob._is_this.name_is_._or_the_separator', ('C05', 'C03'), lambda c: pyvc.truthy(c.ret) == z3.Or(me.name == z3.StringVal('.'), me.name == me.sep))]


class IsParent(Contract):
    module, qual, props = 'glob', 'Glob._is_parent', ('C05', 'C03')

    def crosscheck(self, eng, paths, inp):
        from .base import simple_crosscheck
        return simple_crosscheck(self, eng, paths, inp)

    def inputs(self):
        self.name = z3.String('name')
        return dict(params=dict(self=selfobj(), name=Str(self.name)), fields=dict(specials=V('tuple', None, items=[Str('.'), Str('..')])), pre=[])

    @property
    def ensures(self):
        me = self
        return [('Glob._is_parent.name_is_..', ('C05', 'C03'), lambda c: pyvc.truthy(c.ret) == (me.name == z3.StringVal('..')))]


ALL = [MatchExcluded(), IsExcluded(), PrependBase(), LExists(), MatchLiteral(), IsThis(), IsParent()]


class WcMatchInit(Contract):
    """WcMatch.__init__: limit stored as given (0 stays 0), run state initialised, both patterns must have the type of the root,
    missing patterns become the empty pattern OF THE ROOT'S TYPE, on_init runs before the patterns are compiled."""
    module, qual, props = 'wcmatch', 'WcMatch.__init__', ('C11', 'C14', 'C15', 'C18')
    allowed_raises = ('TypeError',)
    obligation_props = {'WcMatch.__init__.run_state_is_initialised': ('C15',)}
    assumptions = ('_norm_slash / _parse_flags / _add_sep / _get_cwd / on_init / _compile are abstract here (own contracts or the harness)',)

    def inputs(self):
        self.root_bytes = z3.Bool('root_dir_is_bytes')
        self.fp_none, self.fp_bytes = z3.Bool('file_pattern_is_None'), z3.Bool('file_pattern_is_bytes')
        self.ep_none, self.ep_bytes = z3.Bool('exclude_pattern_is_None'), z3.Bool('exclude_pattern_is_bytes')
        self.L = z3.Int('limit')
        params = dict(self=selfobj(), root_dir=ObjV(z3.Const('root_dir', Obj)),
                      file_pattern=V('opt', None, isnone=self.fp_none, inner=ObjV(z3.Const('file_pattern', Obj))),
                      exclude_pattern=V('opt', None, isnone=self.ep_none, inner=ObjV(z3.Const('exclude_pattern', Obj))),
                      flags=pyvc.Flags(z3.BitVec('flags', pyvc.BV)), limit=Int(self.L), kwargs=ObjV(z3.Const('kwargs', Obj)))
        return dict(params=params, fields={}, pre=[], ghost={'$order': []})

    @property
    def hooks(self):
        me = self

        def h_isinstance(eng, node, st, args):
            what, cls = eng.dotted(node.args[0]), eng.dotted(node.args[1])
            if cls != 'bytes':
                raise pyvc.Unsupported(f'isinstance(_, {cls})')
            if what == 'root_dir':
                return Bool(me.root_bytes)
            v = st.env.get(what)
            if v is not None:
                if v.kind == 'opt':
                    v = v.a['inner']          # isinstance is asked under `is not None`
                t = pyvc.to_obj(v)
                if t.eq(z3.Const('file_pattern', Obj)):
                    return Bool(me.fp_bytes)
                if t.eq(z3.Const('exclude_pattern', Obj)):
                    return Bool(me.ep_bytes)
            raise pyvc.Unsupported(f'isinstance({what}, bytes)')

        def opaque(name):
            def h(eng, node, st, args):
                if name == 'on_init':
                    f = st.fields
                    ready = z3.And(z3.Not(pyvc.truthy(f['_abort'])), pyvc.eq(f['_skipped'], Int(0))) if '_abort' in f and '_skipped' in f else z3.BoolVal(False)
                    eng.oblige('WcMatch.__init__.run_state_is_initialised_before_the_on_init_hook_runs_(a_kill_from_on_init_survives_construction)', st, ready, node)
                st.ghost['$order'] = st.ghost['$order'] + [(name, list(args))]
                return U('call.' + name, *args) if args else ObjV(z3.Const('call.' + name, Obj))
            return h

        def h_fsencode(eng, node, st, args):
            return U('fsencode', *args)
        return {'isinstance': h_isinstance, 'self._norm_slash': opaque('_norm_slash'), 'self._parse_flags': opaque('_parse_flags'), 'self._add_sep': opaque('_add_sep'),
                'self._get_cwd': opaque('_get_cwd'), 'self.on_init': opaque('on_init'), 'self._compile': opaque('_compile'), 'os.fsencode': h_fsencode,
                'os.sep': lambda eng, node, st, args: pyvc.Str('/')}

    def crosscheck(self, eng, paths, inp):
        from .base import init_crosscheck
        from wcmatch import wcmatch

        def build(m):
            ev = lambda t: z3.is_true(m.eval(t, model_completion=True))      # noqa: E731
            rb = ev(self.root_bytes)
            fp = None if ev(self.fp_none) else (b'*.x' if ev(self.fp_bytes) else '*.x')
            ep = None if ev(self.ep_none) else (b'd' if ev(self.ep_bytes) else 'd')
            return wcmatch.WcMatch(b'.' if rb else '.', fp, ep, flags=0, limit=m.eval(self.L, model_completion=True).as_long())
        return init_crosscheck(self, eng, paths, inp, build, extra=[self.L >= 0, self.L < 5000, z3.BitVec('flags', pyvc.BV) == 0],
                               vary=[self.L, self.root_bytes, self.fp_none, self.ep_none])

    @property
    def invariants(self):
        return {1: ('(file_pattern, exclude_pattern)', lambda st, k: z3.BoolVal(True))}

    @property
    def ensures(self):
        me = self

        def types_agree(c):
            return z3.And(z3.Or(me.fp_none, me.fp_bytes == me.root_bytes), z3.Or(me.ep_none, me.ep_bytes == me.root_bytes))

        def state(c):
            f = c.st.fields
            need = ('limit', '_abort', '_skipped', 'pattern_file', 'pattern_folder_exclude', 'file_check', 'folder_exclude_check')
            if any(k not in f for k in need):
                return z3.BoolVal(False)
            empty = pyvc.Engine.ite(None, me.root_bytes, U('fsencode', pyvc.Str('')), pyvc.Str(''))
            return z3.And(pyvc.eq(f['limit'], Int(me.L)), z3.Not(pyvc.truthy(f['_abort'])), pyvc.eq(f['_skipped'], Int(0)),
                          pyvc.eq(f['pattern_file'], pyvc.Engine.ite(None, me.fp_none, empty, c.p['file_pattern'].a['inner'])),
                          pyvc.eq(f['pattern_folder_exclude'], pyvc.Engine.ite(None, me.ep_none, empty, c.p['exclude_pattern'].a['inner'])),
                          pyvc.eq(f['file_check'], NONE), pyvc.eq(f['folder_exclude_check'], NONE))

        def order(c):
            names = [n for n, _ in c.st.ghost['$order']]
            if 'on_init' not in names or '_compile' not in names or names.index('on_init') > names.index('_compile') or names.count('_compile') != 1:
                return z3.BoolVal(False)
            args = dict(c.st.ghost['$order'])['_compile']
            f = c.st.fields
            return z3.And(z3.BoolVal(len(args) == 2), pyvc.eq(args[0], f['pattern_file']), pyvc.eq(args[1], f['pattern_folder_exclude'])) if len(args) == 2 else z3.BoolVal(False)
        return [('WcMatch.__init__.returns_only_if_patterns_have_the_type_of_root_dir', ('C18',), types_agree),
                ('WcMatch.__init__.limit_stored_as_given;run_state_initialised;missing_patterns_are_the_empty_pattern_of_the_root_type', ('C11', 'C14', 'C15', 'C18'), state),
                ('WcMatch.__init__.on_init_runs_before_the_patterns_are_compiled_with_(pattern_file,pattern_folder_exclude)', ('C14',), order)]

    @property
    def exc_ensures(self):
        me = self
        return [('WcMatch.__init__.TypeError_only_for_a_pattern_of_the_other_type', ('C18',),
                 lambda c: z3.Not(z3.And(z3.Or(me.fp_none, me.fp_bytes == me.root_bytes), z3.Or(me.ep_none, me.ep_bytes == me.root_bytes))))]


ALL.append(WcMatchInit())
