"""Contracts on the pattern compiler's own small functions (round 3): the segment-start state machine of WcParse
(set_after_start / set_start_dir / reset_dir_track / update_dir_state), the guards it selects (_restrict_sequence,
_restrict_extended_slash), the frame of the translation (WcParse._parse: implicit MATCHBASE / rglob prefix, case flag, DOTALL,
anchors, lone backslash) and WcParse.parse (latin-1 both ways for bytes).  The token handlers reached through `root()` stay
abstract (their meaning is decided per pattern by relang)."""
import z3

from vlib import pyvc
from vlib.pyvc import V, Int, Flags, Bool, Str, U, ObjV, Obj, BV, NONE, Fork, Outcome
from .base import Contract
from . import flags as FL

has = FL.has


def selfobj():
    return ObjV(z3.Const('self', Obj))


def T(v):
    return pyvc.truthy(v)


class _DirState(Contract):
    """Shared inputs: the two tracker bits plus bystander fields for the frame."""
    module = '_wcparse'
    props = ('C03', 'C02')

    def inputs(self):
        self.ds, self.as_ = z3.Bool('self_dir_start'), z3.Bool('self_after_start')
        self.dot, self.pn = z3.Bool('self_dot'), z3.Bool('self_pathname')
        fields = dict(dir_start=Bool(self.ds), after_start=Bool(self.as_), dot=Bool(self.dot), pathname=Bool(self.pn))
        return dict(params=dict(self=selfobj()), fields=fields, pre=[])

    def frame(self, c, changed=('dir_start', 'after_start')):
        ok = [z3.BoolVal(set(c.st.fields) == {'dir_start', 'after_start', 'dot', 'pathname'})]
        if 'dot' not in changed:
            ok.append(T(c.st.fields['dot']) == self.dot)
        if 'pathname' not in changed:
            ok.append(T(c.st.fields['pathname']) == self.pn)
        return z3.And(*ok)

    def state_is(self, c, ds, as_):
        return z3.And(T(c.st.fields['dir_start']) == ds, T(c.st.fields['after_start']) == as_, self.frame(c))

    @property
    def hooks(self):
        def setter(ds, as_):
            def h(eng, node, st, args):
                st.fields['dir_start'], st.fields['after_start'] = Bool(ds), Bool(as_)
                return NONE
            return h
        # callees replaced by their contracts (each is proved below)
        return {'self.set_after_start': setter(False, True), 'self.set_start_dir': setter(True, False), 'self.reset_dir_track': setter(False, False)}


class SetAfterStart(_DirState):
    qual = 'WcParse.set_after_start'

    @property
    def ensures(self):
        return [('WcParse.set_after_start.state_is_(dir_start=False,after_start=True)_nothing_else_assigned', ('C03', 'C02'),
                 lambda c: self.state_is(c, False, True))]


class SetStartDir(_DirState):
    qual = 'WcParse.set_start_dir'

    @property
    def ensures(self):
        return [('WcParse.set_start_dir.state_is_(dir_start=True,after_start=False)_nothing_else_assigned', ('C03', 'C02'),
                 lambda c: self.state_is(c, True, False))]


class ResetDirTrack(_DirState):
    qual = 'WcParse.reset_dir_track'

    @property
    def ensures(self):
        return [('WcParse.reset_dir_track.state_is_(False,False)_nothing_else_assigned', ('C03', 'C02'),
                 lambda c: self.state_is(c, False, False))]


class UpdateDirState(_DirState):
    """start-of-segment -> first-character-of-segment -> inside; every other state is left alone"""
    qual = 'WcParse.update_dir_state'

    @property
    def ensures(self):
        me = self

        def post(c):
            ds, as_ = T(c.st.fields['dir_start']), T(c.st.fields['after_start'])
            at_start = z3.And(me.ds, z3.Not(me.as_))
            first = z3.And(z3.Not(me.ds), me.as_)
            return z3.And(me.frame(c),
                          z3.Implies(at_start, z3.And(z3.Not(ds), as_)),
                          z3.Implies(first, z3.And(z3.Not(ds), z3.Not(as_))),
                          z3.Implies(z3.And(z3.Not(at_start), z3.Not(first)), z3.And(ds == me.ds, as_ == me.as_)))
        return [('WcParse.update_dir_state.segment_start_becomes_first_character_becomes_inside_else_unchanged', ('C03', 'C02'), post)]


class RestrictSequence(_DirState):
    """The guard placed before `?` / a bracket: no separator in path mode; no leading dot exactly when the token stands first in
    its segment and DOTMATCH is off; the `.`/`..` guard exactly when it stands first in a path segment; the tracker is reset."""
    qual = 'WcParse._restrict_sequence'

    def inputs(self):
        inp = super().inputs()
        self.sp, self.spd, self.nd = z3.String('self_seq_path'), z3.String('self_seq_path_dot'), z3.String('self_no_dir')
        inp['fields'].update(seq_path=Str(self.sp), seq_path_dot=Str(self.spd), no_dir=Str(self.nd))
        return inp

    @property
    def ensures(self):
        me = self

        def post(c):
            consts, _ = pyvc.consts_of('_wcparse')
            nodot = z3.StringVal(consts['_NO_DOT'])
            hide = z3.And(me.as_, z3.Not(me.dot))
            want = z3.If(me.pn,
                         z3.Concat(z3.If(me.as_, me.nd, z3.StringVal('')), z3.If(hide, me.spd, me.sp)),
                         z3.If(hide, nodot, z3.StringVal('')))
            return z3.And(z3.BoolVal(c.ret.kind == 'str'), c.ret.t == want)

        def state(c):
            f = c.st.fields
            return z3.And(z3.Not(T(f['dir_start'])), z3.Not(T(f['after_start'])), T(f['dot']) == me.dot, T(f['pathname']) == me.pn,
                          f['seq_path'].t == me.sp, f['seq_path_dot'].t == me.spd, f['no_dir'].t == me.nd)
        return [('WcParse._restrict_sequence.dot_guard_iff_first_in_segment_and_not_DOTMATCH;dot-directory_guard_iff_first_in_a_path_segment;separator_guard_iff_path_mode', ('C03', 'C02'), post),
                ('WcParse._restrict_sequence.tracker_reset_and_no_other_field_changed', ('C03', 'C02'), state)]


class RestrictExtendedSlash(_DirState):
    qual = 'WcParse._restrict_extended_slash'

    def inputs(self):
        inp = super().inputs()
        self.sp = z3.String('self_seq_path')
        inp['fields'].update(seq_path=Str(self.sp))
        return inp

    @property
    def ensures(self):
        me = self
        return [('WcParse._restrict_extended_slash.separator_guard_iff_path_mode', ('C02',),
                 lambda c: z3.And(z3.BoolVal(c.ret.kind == 'str'), c.ret.t == z3.If(me.pn, me.sp, z3.StringVal('')),
                                  T(c.st.fields['dir_start']) == me.ds, T(c.st.fields['after_start']) == me.as_))]


# --------------------------------------------------------------------------------------------------------------- WcParse._parse
JOINED = z3.Function('joined_text', Obj, z3.StringSort())          # ''.join(list)
STRIPPED = z3.Function('without_regex_comments', z3.StringSort(), z3.StringSort())   # s.replace('(?#)', '')
AFTER_ROOT = z3.Function('list_after_root', Obj, Obj, Obj)      # the list `current` after root(pattern, current)


class ParseFrame(Contract):
    """WcParse._parse: what is wrapped around the translation of the pattern text.  `root()` (the token handlers) is abstract: it
    turns the list it is given into some other list; the contract pins WHICH texts are handed to it, under which globstar setting,
    and how the pieces are assembled."""
    module, qual, props = '_wcparse', 'WcParse._parse', ('C02', 'C06', 'C17', 'C16', 'C10', 'C01', 'C08')
    concrete_fstrings = True
    assumptions = ("WcParse.root(p, current) is abstract in the _parse contract: it only mutates `current`, `self.matchbase` / `self.extmatchbase` (cleared at a separator) and the tracker fields; "
                   "str.join / str.replace / Pattern.subn are uninterpreted",)

    def inputs(self):
        b = lambda n: z3.Bool('self_' + n)      # noqa: E731
        self.f = {n: b(n) for n in ('anchor', 'win_drive_detect', 'matchbase', 'extmatchbase', 'globstarlong', 'follow', 'globstar', 'case_sensitive', 'capture')}
        self.p = z3.String('p')
        fields = {n: Bool(t) for n, t in self.f.items()}
        # the object invariant WcParse.__init__ establishes (its own contract proves it) for the fields a rewrite might recompute from the flag word
        self.F, self.pn = z3.BitVec('self_flags', BV), z3.Bool('self_pathname')
        fields.update(flags=Flags(self.F), pathname=Bool(self.pn))
        f = self.f
        inv = [self.pn == has(self.F, 'PATHNAME'), f['globstarlong'] == z3.And(self.pn, has(self.F, 'GLOBSTARLONG')),
               f['globstar'] == z3.And(self.pn, z3.Or(has(self.F, 'GLOBSTARLONG'), has(self.F, 'GLOBSTAR'))), f['follow'] == has(self.F, 'FOLLOW'),
               f['matchbase'] == has(self.F, 'MATCHBASE'), f['extmatchbase'] == has(self.F, '_EXTMATCHBASE'), f['anchor'] == has(self.F, '_ANCHOR'),
               f['capture'] == has(self.F, '_TRANSLATE')]
        return dict(params=dict(self=selfobj(), p=Str(self.p)), fields=fields, pre=inv, ghost={'$root_calls': []})

    @property
    def hooks(self):
        me = self

        def h_root(eng, node, st, args):
            pat, cur = args
            name = node.args[1].id
            before = pyvc.to_obj(cur)
            st.ghost['$root_calls'] = st.ghost['$root_calls'] + [dict(pattern=pat, list=name, globstar=T(st.fields['globstar']), n=len(st.ghost['$root_calls']))]
            st.env[name] = ObjV(AFTER_ROOT(pyvc.to_obj(pat), before))
            # root() clears matchbase / extmatchbase when the text has a separator, and moves the tracker: havoc what it may assign
            for fld in ('matchbase', 'extmatchbase'):
                was = T(st.fields[fld])
                now = z3.Bool(pyvc.fresh('self_' + fld + '_after_root'))
                st.pc.append(z3.Implies(now, was))          # root() only ever CLEARS these (lemma `only_cleared` below: complete scan of the class)
                st.fields[fld] = Bool(now)
            st.ghost.setdefault('$mb_after', []).append((T(st.fields['matchbase']), T(st.fields['extmatchbase'])))
            return NONE

        def h_subn(eng, node, st, args):
            # (RE_ANCHOR | RE_WIN_ANCHOR).subn('', p) -> (text without the anchors, how many were removed)
            st.ghost['$subn_regex'] = eng.ev(node.func.value, st)
            n = z3.Int(pyvc.fresh('n_anchors'))
            st.pc.append(n >= 0)
            st.ghost['$n_anchors'] = n
            out = z3.String(pyvc.fresh('p_without_anchors'))
            st.pc.append(z3.Implies(n == 0, out == args[1].t))
            return V('tuple', None, items=[Str(out), Int(n)])

        def h_join(eng, node, st, args):
            return Str(JOINED(pyvc.to_obj(args[0])))

        def h_replace(eng, node, st, args):
            st.ghost['$replace_args'] = args
            return Str(STRIPPED(eng.ev(node.func.value, st).t))
        return {'self.root': h_root, '.join': h_join, '.replace': h_replace, '.subn': h_subn}

    def lemmas(self):
        """Frame of the mode fields, by a complete scan of class WcParse: outside __init__ and _parse, `matchbase` / `extmatchbase` are only ever assigned
        the constant False, and globstar / globstarlong / follow / case_sensitive / capture / anchor / win_drive_detect are never assigned."""
        import ast
        cls, _ = pyvc.find_def('_wcparse', 'WcParse')
        bad = []
        for fn in cls.body:
            if not isinstance(fn, ast.FunctionDef) or fn.name in ('__init__', '_parse'):
                continue
            for n in ast.walk(fn):
                tgts = n.targets if isinstance(n, ast.Assign) else ([n.target] if isinstance(n, (ast.AugAssign, ast.AnnAssign)) else [])
                for t in tgts:
                    for x in ast.walk(t):
                        if isinstance(x, ast.Attribute) and isinstance(x.value, ast.Name) and x.value.id == 'self':
                            if x.attr in ('matchbase', 'extmatchbase'):
                                if not (isinstance(n, ast.Assign) and isinstance(n.value, ast.Constant) and n.value.value is False):
                                    bad.append(f'{fn.name}:{n.lineno}')
                            elif x.attr in ('globstar', 'globstarlong', 'follow', 'case_sensitive', 'capture', 'anchor', 'win_drive_detect'):
                                bad.append(f'{fn.name}:{n.lineno}')
                if isinstance(n, ast.Call) and isinstance(n.func, ast.Name) and n.func.id in ('setattr', 'delattr'):
                    bad.append(f'{fn.name}:{n.lineno}')
        self.frame_bad = bad
        return [('WcParse.frame.token_handlers_only_clear_matchbase/extmatchbase_and_never_assign_the_other_mode_fields', ('C02', 'C06', 'C16', 'C17'), z3.BoolVal(not bad))]

    @property
    def ensures(self):
        me = self
        f = self.f

        def mb0(c):
            """implicit-prefix flags in force after the anchor step"""
            n = c.st.ghost.get('$n_anchors')
            cancel = z3.And(f['anchor'], n > 0) if n is not None else z3.BoolVal(False)
            return z3.And(z3.Or(f['matchbase'], f['extmatchbase']), z3.Not(cancel))

        def prefix_calls(c):
            return [r for r in c.st.ghost['$root_calls'] if r['list'] == 'prepend']

        def body_calls(c):
            return [r for r in c.st.ghost['$root_calls'] if r['list'] == 'result']

        def post_prefix(c):
            pc = prefix_calls(c)
            others = [r for r in c.st.ghost['$root_calls'] if r['list'] not in ('prepend', 'result')]
            if others or len(pc) > 1:
                return z3.BoolVal(False)
            if not pc:
                return z3.Not(mb0(c))
            r = pc[0]
            if r['n'] != 0 or r['pattern'].kind != 'str':
                return z3.BoolVal(False)
            long_ = z3.And(f['globstarlong'], f['follow'])
            return z3.And(mb0(c),
                          r['pattern'].t == z3.If(long_, z3.StringVal('***'), z3.StringVal('**')),
                          z3.Implies(z3.Not(long_), r['globstar']))                       # `**` is parsed as a globstar whatever the flags say
        def post_globstar_restored(c):
            bc = body_calls(c)
            ok = [T(c.st.fields['globstar']) == f['globstar'], T(c.st.fields['globstarlong']) == f['globstarlong'], T(c.st.fields['follow']) == f['follow'],
                  T(c.st.fields['case_sensitive']) == f['case_sensitive']]
            for r in bc:
                ok.append(r['globstar'] == f['globstar'])           # the pattern's own text is parsed under the caller's globstar setting
            return z3.And(*ok)

        def text_given(c):
            """the text handed to root for the pattern itself: p without anchors, '' for a lone backslash"""
            bc = body_calls(c)
            if len(bc) > 1:
                return None
            return bc

        def post_body(c):
            bc = text_given(c)
            if bc is None:
                return z3.BoolVal(False)
            # p after the anchor step
            n = c.st.ghost.get('$n_anchors')
            lone = z3.StringVal('\\')
            if not bc:
                # no body call: the text (after anchors) is empty or the lone backslash
                cur = c.st.env['p']
                return z3.And(z3.BoolVal(cur.kind == 'str'), cur.t == z3.StringVal(''))
            r = bc[0]
            cur = c.st.env['p']
            return z3.And(z3.BoolVal(r['pattern'].kind == 'str'), r['pattern'].t == cur.t, cur.t != z3.StringVal(''), cur.t != lone,
                          z3.Implies(z3.Not(f['anchor']), cur.t == me.p))

        def post_wrapper(c):
            if c.ret.kind != 'str':
                return z3.BoolVal(False)
            bc, pcs = body_calls(c), prefix_calls(c)
            empty_list = pyvc.to_obj(V('tuple', None, items=[Str('')]))
            res = AFTER_ROOT(pyvc.to_obj(bc[0]['pattern']), empty_list) if bc else empty_list
            if pcs and bc:
                mb_after = c.st.ghost['$mb_after'][-1]                   # the flags as root() left them after the pattern's own text
                pre = AFTER_ROOT(pyvc.to_obj(pcs[0]['pattern']), empty_list)
                both = U('concat', ObjV(pre), ObjV(res)).t
                final = z3.If(z3.Or(*mb_after), both, res)
            else:
                final = res
            inner = z3.Concat(z3.StringVal('^(?s'), z3.If(f['case_sensitive'], z3.StringVal(''), z3.StringVal('i')), z3.StringVal(':'), JOINED(final), z3.StringVal(')$'))
            return c.ret.t == z3.If(f['capture'], STRIPPED(inner), inner)

        def post_anchor(c):
            n = c.st.ghost.get('$n_anchors')
            rx = c.st.ghost.get('$subn_regex')
            if n is None:
                return z3.Not(f['anchor'])
            want = z3.If(f['win_drive_detect'], pyvc.to_obj(ObjV(z3.Const('global:RE_WIN_ANCHOR', Obj))), pyvc.to_obj(ObjV(z3.Const('global:RE_ANCHOR', Obj))))
            return z3.And(f['anchor'], pyvc.to_obj(rx) == want)

        def post_replace(c):
            a = c.st.ghost.get('$replace_args')
            if a is None:
                return z3.Not(f['capture'])
            return z3.And(f['capture'], a[0].t == z3.StringVal('(?#)'), a[1].t == z3.StringVal(''))
        return [
            ('WcParse._parse.implicit_prefix_parsed_first_iff_MATCHBASE_or_rglob_flag_survive_the_anchor_step;***_iff_GLOBSTARLONG_and_FOLLOW_else_**_as_a_globstar', ('C02', 'C06', 'C16'), post_prefix),
            ('WcParse._parse.own_text_parsed_under_the_callers_globstar_setting_which_is_restored', ('C02', 'C06'), post_globstar_restored),
            ('WcParse._parse.text_parsed_is_the_pattern_(anchors_removed_only_under__ANCHOR)_and_a_lone_backslash_or_empty_text_is_not_parsed', ('C10', 'C01', 'C02'), post_body),
            ('WcParse._parse.regex_is_^(?s[i]:PREFIX_if_still_floating+BODY)$_with_i_iff_not_case_sensitive', ('C17', 'C01', 'C02', 'C16'), post_wrapper),
            ('WcParse._parse.anchor_regex_follows_drive_detection_and_runs_only_under__ANCHOR', ('C16', 'C17'), post_anchor),
            ('WcParse._parse.regex_comments_stripped_iff_capture_mode', ('C08',), post_replace),
        ]


class ParseBytes(Contract):
    """WcParse.parse: a bytes pattern is translated as its latin-1 text and the regex encoded back with latin-1; a str pattern is passed as is."""
    module, qual, props = '_wcparse', 'WcParse.parse', ('C18', 'C01')
    PARSED = z3.Function('parsed_regex', z3.StringSort(), z3.StringSort())

    def inputs(self):
        self.isb = z3.Bool('pattern_is_bytes')
        self.pat = z3.String('self_pattern_text')
        return dict(params=dict(self=selfobj()), fields=dict(pattern=ObjV(z3.Const('self_pattern', Obj))), pre=[], ghost={'$codecs': []})

    @property
    def hooks(self):
        me = self

        def h_isinstance(eng, node, st, args):
            return Bool(me.isb)

        def h_decode(eng, node, st, args):
            st.ghost['$codecs'] = st.ghost['$codecs'] + [('decode', args[0] if args else None)]
            return Str(me.pat)

        def h_parse(eng, node, st, args):
            if args[0].kind != 'str':
                st.ghost['$codecs'] = st.ghost['$codecs'] + [('parse-raw', None)]
                return ObjV(z3.Const('parsed_raw', Obj))
            return Str(me.PARSED(args[0].t))
        return {'isinstance': h_isinstance, 'self.pattern.decode': h_decode, 'self._parse': h_parse}

    @property
    def ensures(self):
        me = self

        def post(c):
            cod = c.st.ghost['$codecs']
            latin = z3.StringVal('latin-1')
            is_b = [x for x in cod if x[0] == 'decode']
            ok_dec = z3.And(*[z3.BoolVal(x[1] is not None and x[1].kind == 'str') for x in is_b] + [x[1].t == latin for x in is_b if x[1] is not None and x[1].kind == 'str'])
            # the return value on the bytes path is `<str>.encode('latin-1')`, an uninterpreted method application on the parsed text
            enc = U('method.encode', Str(me.PARSED(me.pat)), Str('latin-1'))
            return z3.And(z3.BoolVal(len(is_b) == (1 if any(True for _ in is_b) else 0)),
                          z3.If(me.isb, z3.And(z3.BoolVal(len(is_b) == 1), ok_dec, pyvc.to_obj(c.ret) == enc.t),
                                z3.And(z3.BoolVal(len(is_b) == 0), pyvc.to_obj(c.ret) == z3.Const('parsed_raw', Obj))))
        return [('WcParse.parse.bytes_patterns_are_decoded_and_the_regex_encoded_with_latin-1;str_patterns_pass_unchanged', ('C18', 'C01'), post)]



# --------------------------------------------------------------------------------------------------------------- expansion helpers


class IterPatternsFn(Contract):
    """iter_patterns: a single str / bytes is ONE pattern (never iterated character by character); anything else is iterated as given."""
    module, qual, props = '_wcparse', 'iter_patterns', ('C07', 'C18', 'C11')
    single = True
    is_bytes = False

    def inputs(self):
        v = Str(z3.String('patterns'), is_bytes=self.is_bytes) if self.single else ObjV(z3.Const('patterns', Obj))
        return dict(params=dict(patterns=v), pre=[], ghost={'$yf': []})

    @property
    def hooks(self):
        def h_yf(eng, y, st):
            st.ghost['$yf'] = st.ghost['$yf'] + [eng.ev(y.value, st)]
            return [(st, Outcome('normal'))]
        h = {'yield from': h_yf}
        if not self.single:
            h['isinstance'] = lambda eng, node, st, args: Bool(False)
        return h

    @property
    def ensures(self):
        me = self

        def post(c):
            n, yf = c.st.ghost['$yields'], c.st.ghost['$yf']
            if me.single:
                if c.st.ghost.get('$last_yield') is None:
                    return z3.BoolVal(False)
                return z3.And(n == 1, z3.BoolVal(not yf), pyvc.eq(c.st.ghost['$last_yield'], c.p['patterns']))
            return z3.And(n == 0, z3.BoolVal(len(yf) == 1), pyvc.eq(yf[0], c.p['patterns']) if len(yf) == 1 else z3.BoolVal(False))
        nm = ('iter_patterns.a_single_string_is_one_pattern' + ('[bytes]' if self.is_bytes else '')) if self.single else 'iter_patterns.a_sequence_is_iterated_as_given'
        return [(nm, ('C07', 'C18', 'C11'), post)]


class IterPatternsSeq(IterPatternsFn):
    single = False


class IterPatternsBytes(IterPatternsFn):
    is_bytes = True


class TildePos(Contract):
    """tilde_pos: -1 unless GLOBTILDE and REALPATH; 0 for a leading `~`; 1 for a `~` right behind the negation character that is in force."""
    module, qual, props = '_wcparse', 'tilde_pos', ('C13', 'C07', 'C10')
    is_bytes = False

    def inputs(self):
        self.F, self.pat = z3.BitVec('flags', BV), z3.String('pattern')
        return dict(params=dict(pattern=Str(self.pat, is_bytes=self.is_bytes), flags=Flags(self.F)), pre=[])

    @property
    def hooks(self):
        return {'is_negative': lambda eng, node, st, args: Bool(FL.IsNegative.spec(args[0].t, args[1].t))}

    @property
    def ensures(self):
        me = self

        def post(c):
            c0, c1 = z3.SubString(me.pat, 0, 1), z3.SubString(me.pat, 1, 1)
            til = z3.StringVal('~')
            on = z3.And(has(me.F, 'GLOBTILDE'), has(me.F, 'REALPATH'))
            want = z3.If(z3.Not(on), -1,
                         z3.If(c0 == til, 0,
                               z3.If(z3.And(has(me.F, 'NEGATE'), FL.IsNegative.spec(me.pat, me.F), c1 == til), 1, -1)))
            return z3.And(z3.BoolVal(c.ret.kind == 'int'), c.ret.t == want)
        return [('tilde_pos.0_for_a_leading_tilde_1_behind_the_negation_character_in_force_else_-1;only_under_GLOBTILDE_and_REALPATH' + ('[bytes]' if self.is_bytes else ''),
                 ('C13', 'C07', 'C10'), post)]


class TildePosBytes(TildePos):
    is_bytes = True


class ExpandBraces(Contract):
    """expand_braces: under BRACE every pattern goes through bracex.iexpand(p, keep_escapes=True, limit=<the caller's limit>) and an
    ExpansionLimitException is never swallowed; without BRACE every pattern is yielded unchanged."""
    module, qual, props = '_wcparse', 'expand_braces', ('C11', 'C07')
    assumptions = ('bracex.iexpand is abstract: it yields some items and may raise ExpansionLimitException or another exception at any point',)
    P = z3.Function('pattern_k', z3.IntSort(), Obj)

    def inputs(self):
        self.F, self.lim, self.n = z3.BitVec('flags', BV), z3.Int('limit'), z3.Int('n_patterns')
        me = self
        pats = V('list', None, length=self.n, elem=lambda k: ObjV(me.P(k)))
        return dict(params=dict(patterns=pats, flags=Flags(self.F), limit=Int(self.lim)), pre=[self.n >= 0], ghost={'$lim': z3.BoolVal(False)})

    @property
    def hooks(self):
        me = self

        def h_yf(eng, y, st):
            call = y.value
            if not (isinstance(call, __import__('ast').Call) and eng.dotted(call.func) == 'bracex.iexpand'):
                raise pyvc.Unsupported('yield from something other than bracex.iexpand')
            args = [eng.ev(a, st) for a in call.args]
            kws = {k.arg: eng.ev(k.value, st) for k in call.keywords}
            k = st.ghost.get('$k1')
            ok = z3.And(z3.BoolVal(len(args) == 1 and set(kws) == {'keep_escapes', 'limit'}),
                        pyvc.eq(args[0], ObjV(me.P(k))) if args else z3.BoolVal(False),
                        pyvc.truthy(kws['keep_escapes']) if 'keep_escapes' in kws else z3.BoolVal(False),
                        pyvc.eq(kws['limit'], Int(me.lim)) if 'limit' in kws else z3.BoolVal(False))
            eng.oblige('expand_braces.each_pattern_is_expanded_by_bracex.iexpand(p,keep_escapes=True,limit=the_callers_limit)', st, ok, y)
            eng.oblige('expand_braces.bracex_runs_only_under_BRACE', st, has(me.F, 'BRACE'), y)
            out = []
            a = st.fork(None, 'iexpand:ok')
            out.append((a, Outcome('normal')))
            b = st.fork(None, 'iexpand:limit')
            b.ghost['$lim'] = z3.BoolVal(True)
            out.append((b, Outcome('raise', exc='bracex.ExpansionLimitException')))
            d = st.fork(None, 'iexpand:other-exception')
            out.append((d, Outcome('raise', exc='Exception')))
            return out
        return {'yield from': h_yf, 'isinstance': lambda eng, node, st, args: Bool(False)}

    @property
    def invariants(self):
        # no iteration continues after bracex signalled the limit (the exception is not swallowed by the catch-all handler)
        t = lambda st, k: z3.Not(st.ghost['$lim'])     # noqa: E731
        return {1: (None, t), 2: (None, t)}

    loop_ghosts = {1: ('$lim',), 2: ('$lim',)}

    @property
    def at(self):
        me = self

        def y(st):
            # a plain `yield` (not from iexpand): the pattern of this iteration, unchanged
            k = st.ghost.get('$k1') if 1 in st.ghost.get('$loops', ()) else st.ghost.get('$k2')
            return pyvc.eq(st.ghost['$point_value'], ObjV(me.P(k)))
        return {'yield:': [('expand_braces.a_pattern_that_is_not_brace-expanded_is_yielded_unchanged', y),
                           ('expand_braces.patterns_pass_unexpanded_only_without_BRACE_or_after_a_bracex_failure',
                            lambda st: z3.Or(z3.Not(has(me.F, 'BRACE')), z3.BoolVal(st.ghost.get('$handling') is not None)))]}

    @property
    def exc_ensures(self):
        return [('expand_braces.only_the_expansion_limit_exception_escapes', ('C11', 'C10'),
                 lambda c: z3.And(z3.BoolVal(pyvc.isa(c.exc, 'bracex.ExpansionLimitException')), c.st.ghost['$lim']))]

    @property
    def ensures(self):
        me = self

        def post(c):
            # a normal end never follows a raised ExpansionLimitException (it is not swallowed by the catch-all handler)
            return z3.Not(c.st.ghost['$lim'])
        return [('expand_braces.an_expansion_limit_exception_is_never_swallowed', ('C11',), post)]

    obligation_props = {'expand_braces.loop': ('C11',), 'expand_braces.': ('C11', 'C07')}



# --------------------------------------------------------------------------------------------------------------- escape
REPLALL = z3.Function('str_replace_all', z3.StringSort(), z3.StringSort(), z3.StringSort(), z3.StringSort())
RSUB = z3.Function('regex_sub', Obj, z3.StringSort(), z3.StringSort(), z3.StringSort())        # regex.sub(repl, text)
RMATCHES = z3.Function('regex_matches_at_0', Obj, z3.StringSort(), z3.BoolSort())
RGROUP0 = z3.Function('regex_group0', Obj, z3.StringSort(), z3.StringSort())


class EscapeFn(Contract):
    """_wcparse.escape: every backslash is doubled first; the Windows drive prefix is cut off and escaped with the drive rules exactly when
    path logic is on and the Windows rules are selected (unix=False, or unix=None on a Windows host); the rest is escaped with the magic
    table; str inputs use the str tables and constants, bytes inputs the bytes ones."""
    module, qual, props = '_wcparse', 'escape', ('C09', 'C17', 'C18')
    is_bytes = False
    assumptions = ('re.Pattern.match / sub / str.replace are uninterpreted in the escape contract (what the tables denote is decided by the C09 language checks)',)

    def inputs(self):
        self.pat = z3.String('pattern')
        self.unix_none, self.unix_val, self.pn = z3.Bool('unix_is_None'), z3.Bool('unix_value'), z3.Bool('pathname')
        unix = V('opt', None, isnone=self.unix_none, inner=Bool(self.unix_val))
        return dict(params=dict(pattern=Str(self.pat, is_bytes=self.is_bytes), unix=unix, pathname=Bool(self.pn)), pre=list(FL.PLATFORM_PRE), ghost={'$m': None, '$calls': []})

    def table(self, name):
        idx = pyvc.Flags(1 if self.is_bytes else 0)
        return U('getitem', ObjV(z3.Const('global:' + name, Obj)), idx).t

    @property
    def hooks(self):
        me = self
        h = dict(FL.PLATFORM_HOOKS)

        def h_replace(eng, node, st, args):
            recv = eng.ev(node.func.value, st)
            st.ghost['$calls'] = st.ghost['$calls'] + [('replace', recv, args)]
            if recv.kind != 'str' or any(a.kind != 'str' for a in args):
                raise pyvc.Unsupported('replace on non-strings')
            ok = all(a.a.get('is_bytes', False) == me.is_bytes for a in args)
            st.ghost['$typed_ok'] = st.ghost.get('$typed_ok', True) and ok
            return Str(REPLALL(recv.t, args[0].t, args[1].t), is_bytes=me.is_bytes)

        def h_match(eng, node, st, args):
            rx = eng.ev(node.func.value, st)
            txt = args[0]
            st.ghost['$calls'] = st.ghost['$calls'] + [('match', rx, args)]
            hit = RMATCHES(pyvc.to_obj(rx), txt.t)
            mobj = ObjV(z3.Const(pyvc.fresh('match'), Obj))

            def upd(s2):
                s2.ghost['$m'] = (rx, txt)
                s2.pc.append(pyvc.truthy(mobj))          # a match object is truthy
            return Fork([(hit, mobj, upd), (z3.Not(hit), NONE, None)])

        def h_group(eng, node, st, args):
            rx, txt = st.ghost['$m']
            if not (args and args[0].kind in ('int', 'bv') and z3.is_true(z3.simplify(pyvc.eq(args[0], Int(0))))):
                raise pyvc.Unsupported('group other than 0')
            return Str(RGROUP0(pyvc.to_obj(rx), txt.t), is_bytes=me.is_bytes)

        def h_sub(eng, node, st, args):
            rx = eng.ev(node.func.value, st)
            st.ghost['$calls'] = st.ghost['$calls'] + [('sub', rx, args)]
            ok = all(a.kind == 'str' and a.a.get('is_bytes', False) == me.is_bytes for a in args)
            st.ghost['$typed_ok'] = st.ghost.get('$typed_ok', True) and ok
            if not ok:
                return ObjV(z3.Const(pyvc.fresh('mistyped_sub'), Obj))
            return Str(RSUB(pyvc.to_obj(rx), args[0].t, args[1].t), is_bytes=me.is_bytes)
        h.update({'.replace': h_replace, '.match': h_match, '.group': h_group, '.sub': h_sub})
        return h

    forking = ('drive_pat.match',)

    @property
    def ensures(self):
        me = self
        bs, bs2 = z3.StringVal('\\'), z3.StringVal('\\\\')
        repl = z3.StringVal('\\\\\\1')          # the two characters backslash backslash, then \1:  r'\\\1'

        def post(c):
            if c.ret.kind != 'str' or c.ret.a.get('is_bytes', False) != me.is_bytes or c.st.ghost.get('$typed_ok', True) is not True:
                return z3.BoolVal(False)
            doubled = REPLALL(me.pat, bs, bs2)
            win = z3.And(me.pn, z3.Or(z3.And(me.unix_none, FL.PLAT_WIN), z3.And(z3.Not(me.unix_none), z3.Not(me.unix_val))))
            dp, magic, dm = me.table('RE_WIN_DRIVE'), me.table('RE_MAGIC_ESCAPE'), me.table('RE_WIN_DRIVE_MAGIC')
            hit = z3.And(win, RMATCHES(dp, doubled))
            g0 = RGROUP0(dp, doubled)
            n = z3.Length(g0)
            rest = z3.SubString(doubled, z3.If(n > z3.Length(doubled), z3.Length(doubled), n), z3.Length(doubled))
            want = z3.If(hit, z3.Concat(RSUB(dm, repl, g0), RSUB(magic, repl, rest)), RSUB(magic, repl, doubled))
            return c.ret.t == want
        nm = '_wcparse.escape.backslashes_doubled_then_drive_prefix_(Windows_rules_and_path_logic_only)_escaped_by_the_drive_table_and_the_rest_by_the_magic_table;tables_of_the_input_type'
        return [(nm + ('[bytes]' if self.is_bytes else ''), ('C09', 'C17', 'C18'), post)]


class EscapeFnBytes(EscapeFn):
    is_bytes = True


# --------------------------------------------------------------------------------------------------------------- scanner index discipline
class _SI(Contract):
    """util.StringIter under the representation invariant 0 <= _index <= len(_string)."""
    module = 'util'
    props = ('C10', 'C02')
    index_forks = True

    def inputs(self):
        self.s, self.i = z3.String('self__string'), z3.Int('self__index')
        return dict(params=dict(self=selfobj()), fields=dict(_string=Str(self.s), _index=Int(self.i)), pre=[self.i >= 0, self.i <= z3.Length(self.s)])

    def inv(self, c):
        i = c.st.fields['_index']
        return z3.And(z3.BoolVal(i.kind == 'int'), i.t >= 0, i.t <= z3.Length(self.s), c.st.fields['_string'].t == self.s)


class SIInit(_SI):
    qual = 'StringIter.__init__'

    def inputs(self):
        self.s = z3.String('string')
        return dict(params=dict(self=selfobj(), string=Str(self.s)), fields={}, pre=[])

    @property
    def ensures(self):
        return [('StringIter.__init__.starts_at_index_0_of_the_given_string', ('C10', 'C02'),
                 lambda c: z3.And(c.st.fields['_string'].t == self.s, c.st.fields['_index'].t == 0))]


class SINext(_SI):
    qual = 'StringIter.iternext'
    allowed_raises = ('StopIteration',)

    @property
    def ensures(self):
        me = self
        return [('StringIter.iternext.returns_the_character_at_the_index_and_advances_by_one', ('C10', 'C02'),
                 lambda c: z3.And(me.inv(c), me.i < z3.Length(me.s), c.st.fields['_index'].t == me.i + 1, z3.BoolVal(c.ret.kind == 'str'), c.ret.t == z3.SubString(me.s, me.i, 1)))]

    @property
    def exc_ensures(self):
        me = self
        return [('StringIter.iternext.raises_StopIteration_exactly_at_the_end_and_leaves_the_index', ('C10', 'C02'),
                 lambda c: z3.And(z3.BoolVal(pyvc.isa(c.exc, 'StopIteration')), me.inv(c), me.i == z3.Length(me.s), c.st.fields['_index'].t == me.i))]


class SIRewind(_SI):
    qual = 'StringIter.rewind'
    allowed_raises = ('ValueError',)

    def inputs(self):
        inp = super().inputs()
        self.n = z3.Int('count')
        inp['params']['count'] = Int(self.n)
        inp['pre'].append(self.n >= 0)
        return inp

    @property
    def ensures(self):
        me = self
        return [('StringIter.rewind.moves_the_index_back_by_count_when_count_does_not_exceed_it', ('C10', 'C02'),
                 lambda c: z3.And(me.inv(c), me.n <= me.i, c.st.fields['_index'].t == me.i - me.n))]

    @property
    def exc_ensures(self):
        me = self
        return [('StringIter.rewind.raises_ValueError_exactly_when_count_exceeds_the_index_and_leaves_it', ('C10', 'C02'),
                 lambda c: z3.And(z3.BoolVal(pyvc.isa(c.exc, 'ValueError')), me.inv(c), me.n > me.i, c.st.fields['_index'].t == me.i))]


class SIMatch(_SI):
    qual = 'StringIter.match'
    assumptions = ('re.Pattern.match(text, pos) returns None or a match object m with pos <= m.end() <= len(text)',)
    forking = ('pattern.match',)

    def inputs(self):
        inp = super().inputs()
        inp['params']['pattern'] = ObjV(z3.Const('pattern', Obj))
        inp['ghost'] = {}
        return inp

    @property
    def hooks(self):
        me = self

        def h_match(eng, node, st, args):
            ok = z3.And(z3.BoolVal(len(args) == 2 and args[0].kind == 'str' and args[1].kind == 'int'))
            eng.oblige('StringIter.match.the_regex_is_applied_to_the_string_at_the_current_index', st,
                       z3.And(ok, args[0].t == me.s, args[1].t == me.i) if len(args) == 2 and args[0].kind == 'str' and args[1].kind == 'int' else z3.BoolVal(False), node)
            hit = z3.Bool(pyvc.fresh('regex_hits'))
            mobj = ObjV(z3.Const(pyvc.fresh('match'), Obj))
            end = z3.Int(pyvc.fresh('m_end'))

            def upd(s2):
                s2.ghost['$m'] = (mobj, end)
                s2.pc += [pyvc.truthy(mobj), end >= me.i, end <= z3.Length(me.s)]
            return Fork([(hit, mobj, upd), (z3.Not(hit), NONE, None)])

        def h_end(eng, node, st, args):
            return Int(st.ghost['$m'][1])
        return {'.match': h_match, '.end': h_end}

    @property
    def ensures(self):
        me = self

        def post(c):
            m = c.st.ghost.get('$m')
            i = c.st.fields['_index'].t
            if m is None:
                return z3.And(me.inv(c), i == me.i, pyvc.eq(c.ret, NONE))
            return z3.And(me.inv(c), i == m[1], pyvc.eq(c.ret, m[0]))
        return [('StringIter.match.index_moves_to_the_end_of_a_match_and_stays_without_one;invariant_kept', ('C10', 'C02'), post)]


SEPS = ('/', '\\')


def _at(s, j):
    return z3.SubString(s, j, 1)


class ConsumePathSep(Contract):
    """WcParse.consume_path_sep(i): skips the run of separators that follows the one just parsed.  `next(i)` and `i.rewind(n)` are replaced by
    the StringIter contracts above (rewind's precondition `n <= index` is an obligation here: no ValueError can escape).
    Unix rules: the index ends at the first character that is not `/` (or at the end).
    Windows rules: only `/` and backslash characters are skipped, the index never moves backwards, and it stops at the end, at a character that
    is neither, or at a backslash that escapes such a character (the escape is left for the caller)."""
    module, qual, props = '_wcparse', 'WcParse.consume_path_sep', ('C02', 'C17', 'C10')
    allowed_raises = ()
    win = False

    def inputs(self):
        self.s, self.i0 = z3.String('i__string'), z3.Int('i__index')
        return dict(params=dict(self=selfobj(), i=ObjV(z3.Const('i', Obj))), fields=dict(bslash_abort=Bool(self.win)),
                    pre=[self.i0 >= 0, self.i0 <= z3.Length(self.s)], ghost={'$idx': self.i0})

    @property
    def hooks(self):
        me = self

        def h_next(eng, node, st, args):
            idx = st.ghost['$idx']
            n = z3.Length(me.s)

            def upd(s2):
                s2.ghost['$idx'] = idx + 1
            return Fork([(idx < n, Str(_at(me.s, idx)), upd), (idx >= n, Outcome('raise', exc='StopIteration'), None)])

        def h_rewind(eng, node, st, args):
            idx = st.ghost['$idx']
            eng.oblige('WcParse.consume_path_sep.rewind_never_goes_past_the_beginning_(no_ValueError)', st, z3.And(args[0].t >= 0, args[0].t <= idx), node)
            st.ghost['$idx'] = idx - args[0].t
            return NONE
        return {'next': h_next, 'i.rewind': h_rewind}

    forking = ('next',)
    loop_ghosts = {1: ('$idx',), 2: ('$idx',)}

    @property
    def invariants(self):
        me = self
        j = z3.Int('j!inv')

        def issep(t):
            return z3.Or(t == z3.StringVal('/'), t == z3.StringVal('\\'))

        def unix(st, k):
            idx, c = st.ghost['$idx'], st.env['c']
            if c.kind != 'str':
                return z3.BoolVal(False)
            return z3.And(idx >= me.i0, idx <= z3.Length(me.s),
                          z3.Or(z3.And(idx == me.i0, c.t == z3.StringVal('/')),
                                z3.And(idx > me.i0, c.t == _at(me.s, idx - 1), z3.ForAll([j], z3.Implies(z3.And(j >= me.i0, j < idx - 1), _at(me.s, j) == z3.StringVal('/'))))))

        def win(st, k):
            idx, c, cnt = st.ghost['$idx'], st.env['c'], st.env['count']
            if c.kind != 'str' or cnt.kind != 'int':
                return z3.BoolVal(False)
            return z3.And(idx >= me.i0, idx <= z3.Length(me.s), cnt.t >= -1,
                          z3.Implies(cnt.t == -1, z3.And(idx == me.i0, c.t == z3.StringVal('\\'))),
                          z3.Implies(cnt.t >= 0, z3.And(idx >= me.i0 + 1, c.t == _at(me.s, idx - 1))),
                          z3.Implies(z3.And(cnt.t >= 0, cnt.t % 2 == 1), z3.And(idx >= me.i0 + 2, _at(me.s, idx - 2) == z3.StringVal('\\'))),
                          z3.ForAll([j], z3.Implies(z3.And(j >= me.i0, j < idx - 1), issep(_at(me.s, j)))))
        return {1: (None, win), 2: (None, unix)}

    @property
    def ensures(self):
        me = self
        j = z3.Int('j!post')
        n = z3.Length(me.s)

        def issep(t):
            return z3.Or(t == z3.StringVal('/'), t == z3.StringVal('\\'))

        def post(c):
            idx = c.st.ghost['$idx']
            bounds = z3.And(idx >= me.i0, idx <= n)
            if not me.win:
                return z3.And(bounds, z3.ForAll([j], z3.Implies(z3.And(j >= me.i0, j < idx), _at(me.s, j) == z3.StringVal('/'))),
                              z3.Or(idx == n, _at(me.s, idx) != z3.StringVal('/')))
            stop = z3.Or(idx == n, z3.Not(issep(_at(me.s, idx))),
                         z3.And(_at(me.s, idx) == z3.StringVal('\\'), idx + 1 < n, z3.Not(issep(_at(me.s, idx + 1)))))
            return z3.And(bounds, z3.ForAll([j], z3.Implies(z3.And(j >= me.i0, j < idx), issep(_at(me.s, j)))), stop)
        nm = ('WcParse.consume_path_sep.Windows_rules:skips_only_separator_characters_never_moves_back_and_stops_at_the_end_a_non-separator_or_an_escape_of_one'
              if self.win else 'WcParse.consume_path_sep.Unix_rules:index_ends_at_the_first_character_that_is_not_a_slash')
        return [(nm, ('C02', 'C17', 'C10'), post)]

    @property
    def obligation_props(self):
        return {'WcParse.consume_path_sep.': ('C02', 'C17', 'C10')}


class ConsumePathSepWin(ConsumePathSep):
    win = True


ALL_SCAN = [SIInit(), SINext(), SIRewind(), SIMatch(), ConsumePathSep(), ConsumePathSepWin()]


# --------------------------------------------------------------------------------------------------------------- util.norm_pattern
class NormPattern(Contract):
    """util.norm_pattern: nothing is touched unless separator normalisation or RAWCHARS is asked for; otherwise every token the table of the
    pattern's own type (RE_NORM for str, RE_BNORM for bytes) finds is rewritten by `norm`."""
    module, qual, props = 'util', 'norm_pattern', ('C20', 'C18', 'C17')
    is_bytes = False
    SUBN = z3.Function('normalised_by', Obj, z3.StringSort(), z3.StringSort())

    def inputs(self):
        self.pat, self.norm, self.raw = z3.String('pattern'), z3.Bool('normalize'), z3.Bool('is_raw_chars')
        return dict(params=dict(pattern=Str(self.pat, is_bytes=self.is_bytes), normalize=Bool(self.norm), is_raw_chars=Bool(self.raw)), pre=[], ghost={'$sub': None})

    @property
    def hooks(self):
        me = self

        def h_sub(eng, node, st, args):
            rx = eng.ev(node.func.value, st)
            fn = args[0]
            st.ghost['$sub'] = (rx, fn, args[1], dict(st.env))
            if args[1].kind != 'str':
                raise pyvc.Unsupported('sub on a non-string')
            return Str(me.SUBN(pyvc.to_obj(rx), args[1].t), is_bytes=args[1].a.get('is_bytes', False))
        return {'.sub': h_sub}

    @property
    def ensures(self):
        me = self

        def post(c):
            sub = c.st.ghost['$sub']
            if c.ret.kind != 'str' or c.ret.a.get('is_bytes', False) != me.is_bytes:
                return z3.BoolVal(False)
            idle = z3.And(z3.Not(me.norm), z3.Not(me.raw))
            if sub is None:
                return z3.And(idle, c.ret.t == me.pat)
            rx, fn, text, env = sub
            table = z3.Const('global:RE_BNORM' if me.is_bytes else 'global:RE_NORM', Obj)
            ok_fn = fn.kind == 'fn' and fn.a['node'].name == 'norm'
            # the closure sees the constants of the pattern's own type
            consts_ok = (env.get('is_bytes') is not None and env['is_bytes'].kind == 'bool' and z3.is_true(z3.simplify(env['is_bytes'].t)) == me.is_bytes and
                         env.get('multi_slash') is not None and env['multi_slash'].kind == 'str' and env['multi_slash'].a.get('is_bytes', False) == me.is_bytes)
            ms = env['multi_slash'].t == z3.StringVal('\\\\\\\\') if consts_ok else z3.BoolVal(False)
            return z3.And(z3.Not(idle), z3.BoolVal(bool(ok_fn and consts_ok)), ms, pyvc.to_obj(rx) == table, text.t == me.pat, c.ret.t == me.SUBN(table, me.pat))
        nm = 'util.norm_pattern.unchanged_unless_normalize_or_RAWCHARS;else_every_token_of_the_table_of_the_patterns_own_type_goes_through_norm' + ('[bytes]' if self.is_bytes else '')
        return [(nm, ('C20', 'C18', 'C17'), post)]


class NormPatternBytes(NormPattern):
    is_bytes = True


INTF = z3.Function('int_of_text', z3.StringSort(), z3.IntSort(), z3.IntSort())


class NormFn(Contract):
    r"""The rewriting callback `norm_pattern.norm` (closure variables are inputs).  A match of RE_NORM / RE_BNORM takes exactly one alternative:
    1 separator (`/` or `\/`), 2 simple escape, 3 numeric escape (4 = its octal digits), then for str 5 `\N{...}`, 6 other escape, 7 incomplete
    `\N \U \u \x`; for bytes 5 other escape, 6 incomplete `\x`.  Absent groups are modelled as empty text (the code only tests their truth value).
    RAWCHARS off: nothing is decoded.  RAWCHARS on: exactly the Python escapes are decoded, other escapes pass, incomplete ones raise SyntaxError."""
    module, qual, props = 'util', 'norm_pattern.norm', ('C20', 'C18', 'C10')
    is_bytes = False
    allowed_raises = ('SyntaxError', 'KeyError')
    assumptions = ('a match of RE_NORM / RE_BNORM takes exactly one top-level alternative, whose group is non-empty; groups that did not take part are modelled as empty text instead of None '
                   '(norm only tests their truth value); int(), chr(), bytes([..]), unicodedata.lookup are uninterpreted (chr of a hexadecimal value may raise ValueError / OverflowError, chr of 1-3 octal digits cannot, lookup may raise KeyError)',)

    @property
    def ngroups(self):
        return 6 if self.is_bytes else 7

    def inputs(self):
        self.norm, self.raw = z3.Bool('normalize'), z3.Bool('is_raw_chars')
        self.which = z3.Int('alternative_taken')
        self.octal = z3.Bool('numeric_escape_is_octal')
        self.g = {i: z3.String(f'group{i}') for i in range(1, self.ngroups + 1)}
        pre = [self.which >= 1, self.which <= self.ngroups, self.which != 4]
        for i, t in self.g.items():
            if i == 4:
                pre.append((z3.Length(t) > 0) == z3.And(self.which == 3, self.octal))
            else:
                pre.append((z3.Length(t) > 0) == (self.which == i))
        pre.append(z3.Implies(self.which == 1, z3.Or(self.g[1] == z3.StringVal('/'), self.g[1] == z3.StringVal('\\/'))))
        params = dict(m=ObjV(z3.Const('m', Obj)), normalize=Bool(self.norm), is_raw_chars=Bool(self.raw), is_bytes=Bool(self.is_bytes),
                      multi_slash=Str('\\\\\\\\', is_bytes=self.is_bytes), slash=Str('\\', is_bytes=self.is_bytes))
        return dict(params=params, pre=pre, ghost={})

    def g0(self):
        t = self.g[self.ngroups]
        for i in range(self.ngroups - 1, 0, -1):
            if i != 4:
                t = z3.If(self.which == i, self.g[i], t)
        return t

    @property
    def forking(self):
        return () if self.is_bytes else ('chr', 'unicodedata.lookup')

    @property
    def hooks(self):
        me = self

        def h_group(eng, node, st, args):
            i = z3.simplify(args[0].t if args[0].kind in ('int', 'bv') else None)
            k = i.as_long()
            if k == 0:
                return Str(me.g0(), is_bytes=me.is_bytes)
            if k not in me.g:
                raise pyvc.Unsupported(f'group {k}')
            return Str(me.g[k], is_bytes=me.is_bytes)

        def h_start(eng, node, st, args):
            return Int(z3.Int(pyvc.fresh('m_start')))

        def h_int(eng, node, st, args):
            if len(args) != 2 or args[0].kind != 'str':
                raise pyvc.Unsupported('int()')
            base = args[1].t if args[1].kind == 'int' else z3.BV2Int(args[1].t)
            return Int(INTF(args[0].t, base))

        def h_chr(eng, node, st, args):
            t = args[0].t
            if z3.is_app(t) and t.decl().name() == 'int_of_text' and z3.is_int_value(t.arg(1)) and t.arg(1).as_long() == 8:
                return U('fn.chr', *args)          # one to three octal digits: at most 0o777, always a character
            ok = z3.Bool(pyvc.fresh('code_point_is_valid'))
            st.ghost['$chr'] = ok
            big = z3.Bool(pyvc.fresh('code_point_overflows'))
            return Fork([(ok, U('fn.chr', *args), None), (z3.And(z3.Not(ok), z3.Not(big)), Outcome('raise', exc='ValueError'), None),
                         (z3.And(z3.Not(ok), big), Outcome('raise', exc='OverflowError'), None)])

        def h_lookup(eng, node, st, args):
            ok = z3.Bool(pyvc.fresh('name_is_known'))
            return Fork([(ok, U('fn.lookup', *args), None), (z3.Not(ok), Outcome('raise', exc='KeyError'), None)])
        return {'.group': h_group, '.start': h_start, 'int': h_int, 'chr': h_chr, 'unicodedata.lookup': h_lookup}

    def incomplete(self):
        return self.which == self.ngroups

    def other_escape(self):
        return self.which == self.ngroups - 1

    @property
    def ensures(self):
        me = self
        g = self.g

        def post(c):
            r = pyvc.to_obj(c.ret)
            S = lambda t: pyvc.to_obj(Str(t, is_bytes=me.is_bytes))      # noqa: E731
            sep = z3.If(z3.And(me.norm, z3.Length(g[1]) > 1), S(z3.StringVal('\\\\\\\\')), S(g[1]))
            bst = U('getitem', ObjV(z3.Const('global:BACK_SLASH_TRANSLATION', Obj)), Str(g[2], is_bytes=me.is_bytes)).t
            if me.is_bytes:
                octal = U('fn.bytes', V('tuple', None, items=[Flags(z3.Int2BV(INTF(g[4], z3.IntVal(8)), BV) & z3.BitVecVal(255, BV))])).t
                hexa = U('fn.bytes', V('tuple', None, items=[Int(INTF(z3.SubString(g[3], 2, z3.Length(g[3]) - 2), z3.IntVal(16)))])).t
            else:
                octal = U('fn.chr', Int(INTF(g[4], z3.IntVal(8)))).t
                hexa = U('fn.chr', Int(INTF(z3.SubString(g[3], 2, z3.Length(g[3]) - 2), z3.IntVal(16)))).t
            whole = S(me.g0())
            cases = [z3.Implies(me.which == 1, r == sep),
                     z3.Implies(me.which == 2, r == z3.If(me.raw, bst, S(g[2]))),
                     z3.Implies(z3.And(me.which == 3, z3.Not(me.raw)), r == whole),
                     z3.Implies(z3.And(me.which == 3, me.raw, me.octal), r == octal),
                     z3.Implies(z3.And(me.which == 3, me.raw, z3.Not(me.octal)), r == hexa),
                     z3.Implies(me.other_escape(), r == whole),
                     z3.Implies(me.incomplete(), z3.And(z3.Not(me.raw), r == whole))]
            if not me.is_bytes:
                lk = U('fn.lookup', Str(z3.SubString(g[5], 3, z3.Length(g[5]) - 4))).t
                cases.append(z3.Implies(me.which == 5, r == z3.If(me.raw, lk, whole)))
            return z3.And(*cases)
        nm = 'norm.RAWCHARS_off:nothing_decoded;on:exactly_the_Python_escapes_decoded_(octal_&0xFF_for_bytes),other_escapes_pass;separator_rewritten_only_under_normalize'
        return [(nm + ('[bytes]' if self.is_bytes else ''), ('C20', 'C18', 'C10'), post)]

    @property
    def exc_ensures(self):
        me = self

        def post(c):
            if pyvc.isa(c.exc, 'KeyError'):
                return z3.And(z3.BoolVal(not me.is_bytes), me.raw, me.which == 5)
            bad_value = z3.And(me.which == 3, z3.Not(me.octal), z3.BoolVal(not me.is_bytes))
            return z3.And(z3.BoolVal(pyvc.isa(c.exc, 'SyntaxError')), me.raw, z3.Or(me.incomplete(), bad_value))
        return [('norm.SyntaxError_only_under_RAWCHARS_for_an_incomplete_escape_or_a_code_point_that_is_no_character;KeyError_only_from_a_name_lookup' + ('[bytes]' if self.is_bytes else ''),
                 ('C20', 'C10'), post)]


class NormFnBytes(NormFn):
    is_bytes = True


ALL_NORM = [NormPattern(), NormPatternBytes(), NormFn(), NormFnBytes()]


# --------------------------------------------------------------------------------------------------------------- WcParse._references
class ParseReferences(Contract):
    """WcParse._references(i, sequence): what a backslash followed by one character means.  The StringIter is ghost state (text s, index), its operations
    are the StringIter contracts.  Escaped backslash: a separator under the Windows path rules (bslash_abort), the separator CLASS under the Windows rules in
    file-name mode, otherwise the two characters `\\`.  Escaped slash: a separator in path mode, the separator class otherwise.  Outside an extended group a
    separator starts a new segment (set_start_dir); inside a group it is the restricted form and the tracker is left alone.  Inside a bracket (sequence) an
    escaped separator ends the bracket attempt (PathNameException).  An escaped dot is handed back (DotException, index rewound by one).  Anything else is
    the escaped character itself."""
    module, qual, props = '_wcparse', 'WcParse._references', ('C02', 'C17', 'C01', 'C10', 'C03')
    allowed_raises = ('StopIteration', 'PathNameException', 'DotException')
    forking = ('next',)

    def inputs(self):
        self.s, self.i0 = z3.String('i__string'), z3.Int('i__index')
        b = lambda n: z3.Bool('self_' + n)     # noqa: E731
        self.f = {n: b(n) for n in ('bslash_abort', 'in_list', 'unix', 'pathname', 'dir_start', 'after_start')}
        self.sep, self.bare, self.seqp = z3.String('self_sep'), z3.String('self_bare_sep'), z3.String('self_seq_path')
        self.seq = z3.Bool('sequence')
        fields = {n: Bool(t) for n, t in self.f.items()}
        fields.update(sep=Str(self.sep), bare_sep=Str(self.bare), seq_path=Str(self.seqp))
        # object invariant of WcParse.__init__ (proved there): a backslash separator only in Windows path mode
        pre = [self.i0 >= 0, self.i0 <= z3.Length(self.s), z3.Implies(self.f['bslash_abort'], z3.And(z3.Not(self.f['unix']), self.f['pathname']))]
        return dict(params=dict(self=selfobj(), i=ObjV(z3.Const('i', Obj)), sequence=Bool(self.seq)), fields=fields, pre=pre, ghost={'$idx': self.i0})

    @property
    def hooks(self):
        me = self

        def h_next(eng, node, st, args):
            idx = st.ghost['$idx']

            def upd(s2):
                s2.ghost['$idx'] = idx + 1
            return Fork([(idx < z3.Length(me.s), Str(_at(me.s, idx)), upd), (idx >= z3.Length(me.s), Outcome('raise', exc='StopIteration'), None)])

        def h_rewind(eng, node, st, args):
            idx = st.ghost['$idx']
            eng.oblige('WcParse._references.rewind_never_goes_past_the_beginning', st, z3.And(args[0].t >= 0, args[0].t <= idx), node)
            st.ghost['$idx'] = idx - args[0].t
            return NONE

        def h_ssd(eng, node, st, args):
            st.fields['dir_start'], st.fields['after_start'] = Bool(True), Bool(False)
            return NONE

        def h_res(eng, node, st, args):
            return Str(z3.If(T(st.fields['pathname']), me.seqp, z3.StringVal('')))
        return {'next': h_next, 'i.rewind': h_rewind, 'self.set_start_dir': h_ssd, 'self._restrict_extended_slash': h_res,
                're.escape': lambda eng, node, st, args: U('fn.re.escape', *args)}

    def ch(self):
        return _at(self.s, self.i0)

    def pne(self):
        f = self.f
        return z3.And(self.seq, z3.Or(z3.And(self.ch() == z3.StringVal('\\'), f['bslash_abort']), z3.And(self.ch() == z3.StringVal('/'), f['pathname'])))

    @property
    def ensures(self):
        me = self
        f = self.f

        def post(c):
            consts, _ = pyvc.consts_of('_wcparse')
            plus = z3.StringVal(consts['_ONE_OR_MORE'])
            ch = me.ch()
            bs, sl, dot = z3.StringVal('\\'), z3.StringVal('/'), z3.StringVal('.')
            S = lambda t: pyvc.to_obj(Str(t))     # noqa: E731
            new_segment = z3.Concat(me.sep, plus)
            in_group = z3.Concat(z3.If(f['pathname'], me.seqp, z3.StringVal('')), me.sep)
            cls = z3.If(me.seq, me.bare, me.sep)
            want_bs = z3.If(f['bslash_abort'], z3.If(f['in_list'], in_group, new_segment), z3.If(z3.Not(f['unix']), cls, z3.StringVal('\\\\')))
            want_sl = z3.If(f['pathname'], z3.If(f['in_list'], in_group, new_segment), cls)
            r = pyvc.to_obj(c.ret)
            value_ok = z3.If(ch == bs, r == S(want_bs), z3.If(ch == sl, r == S(want_sl), r == U('fn.re.escape', Str(ch)).t))
            starts_segment = z3.And(z3.Not(f['in_list']), z3.Or(z3.And(ch == bs, f['bslash_abort']), z3.And(ch == sl, f['pathname'])))
            fs = c.st.fields
            tracker = z3.If(starts_segment, z3.And(T(fs['dir_start']), z3.Not(T(fs['after_start']))), z3.And(T(fs['dir_start']) == f['dir_start'], T(fs['after_start']) == f['after_start']))
            return z3.And(me.i0 < z3.Length(me.s), c.st.ghost['$idx'] == me.i0 + 1, ch != dot, z3.Not(me.pne()), value_ok, tracker)

        return [('WcParse._references.escaped_separator_is_a_separator_of_the_mode_in_force_(new_segment_outside_a_group,restricted_inside,class_in_file-name_mode);other_characters_are_themselves', ('C02', 'C17', 'C01', 'C03'), post)]

    @property
    def exc_ensures(self):
        me = self
        f = self.f

        def post(c):
            fs = c.st.fields
            same = z3.And(T(fs['dir_start']) == f['dir_start'], T(fs['after_start']) == f['after_start'])
            if pyvc.isa(c.exc, 'PathNameException'):
                return z3.And(me.i0 < z3.Length(me.s), c.st.ghost['$idx'] == me.i0 + 1, me.pne(), same)
            if pyvc.isa(c.exc, 'DotException'):
                return z3.And(me.i0 < z3.Length(me.s), me.ch() == z3.StringVal('.'), c.st.ghost['$idx'] == me.i0, same)
            return z3.And(z3.BoolVal(pyvc.isa(c.exc, 'StopIteration')), me.i0 == z3.Length(me.s), c.st.ghost['$idx'] == me.i0, same)
        return [('WcParse._references.StopIteration_at_the_end;PathNameException_for_a_separator_escaped_inside_a_bracket;DotException_hands_an_escaped_dot_back_(index_rewound)', ('C02', 'C10', 'C03'), post)]

    obligation_props = {'WcParse._references.rewind': ('C10',)}


# --------------------------------------------------------------------------------------------------------------- WcParse._sequence_range_check
ORD = z3.Function('ord_of', z3.StringSort(), z3.IntSort())


class SequenceRangeCheck(Contract):
    r"""WcParse._sequence_range_check(result, last): `result` ends in [.., first, '-']; the range first-last is kept (last appended, returns False) iff its end is
    not below its start - compared on the characters themselves, an escaped spelling `\c` counting as `c` -, otherwise start and hyphen are removed and True is
    returned (a reversed range would make the regular expression invalid: C10)."""
    module, qual, props = '_wcparse', 'WcParse._sequence_range_check', ('C01', 'C10')

    def inputs(self):
        self.first, self.last = z3.String('result[-2]'), z3.String('last')
        return dict(params=dict(self=selfobj(), result=V('tuple', None, items=[Str(self.first), Str(z3.String('result[-1]'))]), last=Str(self.last)), fields={}, pre=[z3.Length(self.first) >= 1, z3.Length(self.last) >= 1],
                    ghost={'$pops': 0, '$appended': []})

    @property
    def hooks(self):
        me = self

        def h_pop(eng, node, st, args):
            st.ghost['$pops'] = st.ghost['$pops'] + 1
            return ObjV(z3.Const(pyvc.fresh('popped'), Obj))

        def h_append(eng, node, st, args):
            st.ghost['$appended'] = st.ghost['$appended'] + [args[0]]
            return NONE
        return {'result.pop': h_pop, 'result.append': h_append, 'ord': lambda eng, node, st, args: Int(ORD(args[0].t))}

    def locate(self):
        return pyvc.find_def(self.module, self.qual)

    @property
    def ensures(self):
        me = self

        def post(c):
            def ch(t):
                return z3.If(z3.Length(t) > 1, z3.SubString(t, 1, 1), t)
            reversed_ = ORD(ch(me.last)) < ORD(ch(me.first))
            pops, app = c.st.ghost['$pops'], c.st.ghost['$appended']
            removed = z3.BoolVal(pops == 2 and not app)
            kept = z3.And(z3.BoolVal(pops == 0 and len(app) == 1), app[0].t == me.last) if len(app) == 1 and app[0].kind == 'str' else z3.BoolVal(False)
            return z3.And(T(c.ret) == reversed_, z3.If(reversed_, removed, kept))
        return [('WcParse._sequence_range_check.a_range_is_kept_iff_its_end_is_not_below_its_start_(escaped_spellings_count_as_the_character);a_reversed_one_is_removed_with_its_hyphen', ('C01', 'C10'), post)]


class HandlePosix(Contract):
    r"""WcParse._handle_posix(i, result, end_range): True iff `[:name:]` of one of the POSIX class names stands at the index (the index then moves behind it, otherwise
    it stays); on a match the class text of THAT name for the parser's string type is appended, and a hyphen that was waiting to become a range (end_range set and
    reached) is escaped first - a range cannot end in a class."""
    module, qual, props = '_wcparse', 'WcParse._handle_posix', ('C01', 'C18', 'C10')
    forking = ('i.match',)

    def inputs(self):
        self.s, self.i0, self.er = z3.String('i__string'), z3.Int('i__index'), z3.Int('end_range')
        self.last = z3.String('result[-1]')
        self.isb = z3.Bool('self_is_bytes')
        return dict(params=dict(self=selfobj(), i=ObjV(z3.Const('i', Obj)), result=V('tuple', None, items=[Str(self.last)]), end_range=Int(self.er)), fields=dict(is_bytes=Bool(self.isb)),
                    pre=[self.i0 >= 0, self.i0 <= z3.Length(self.s), self.er >= 0], ghost={'$idx': self.i0, '$set': None, '$app': [], '$m': None})

    @property
    def hooks(self):
        me = self

        def h_match(eng, node, st, args):
            idx = st.ghost['$idx']
            hit = z3.Bool(pyvc.fresh('posix_class_here'))
            end = z3.Int(pyvc.fresh('m_end'))
            mobj = ObjV(z3.Const(pyvc.fresh('match'), Obj))
            rx = args[0]

            def upd(s2):
                s2.pc += [pyvc.truthy(mobj), end > idx, end <= z3.Length(me.s)]
                s2.ghost['$idx'] = end
                s2.ghost['$m'] = (rx, hit)
            st.ghost['$rx'] = rx
            return Fork([(hit, mobj, upd), (z3.Not(hit), NONE, None)])

        def h_setitem(eng, target, st, val):
            st.ghost['$set'] = (eng.ev(target.slice, st), val)

        def h_append(eng, node, st, args):
            st.ghost['$app'] = st.ghost['$app'] + [args[0]]
            return NONE
        return {'i.match': h_match, 'i.index': lambda eng, node, st, args: Int(st.ghost['$idx']), 'setitem': h_setitem, 'result.append': h_append,
                '.group': lambda eng, node, st, args: U('posix_name', *args), 'posix.get_posix_property': lambda eng, node, st, args: U('POSIX_PROPERTY', *args)}

    @property
    def ensures(self):
        me = self

        def post(c):
            m, st_, app, idx = c.st.ghost['$m'], c.st.ghost['$set'], c.st.ghost['$app'], c.st.ghost['$idx']
            rx_ok = pyvc.to_obj(c.st.ghost['$rx']) == z3.Const('global:RE_POSIX', Obj) if c.st.ghost.get('$rx') is not None else z3.BoolVal(False)
            if m is None:
                return z3.And(rx_ok, z3.Not(T(c.ret)), idx == me.i0, z3.BoolVal(st_ is None and not app))
            pending = z3.And(me.er != 0, idx - 1 >= me.er)
            want_prop = U('POSIX_PROPERTY', U('posix_name', Int(1)), Bool(me.isb))
            app_ok = z3.And(z3.BoolVal(len(app) == 1), pyvc.to_obj(app[0]) == want_prop.t) if len(app) == 1 else z3.BoolVal(False)
            if st_ is None:
                esc = z3.Not(pending)
            else:
                key, val = st_
                esc = z3.And(pending, pyvc.eq(key, Int(-1)), z3.BoolVal(val.kind == 'str'), val.t == z3.Concat(z3.StringVal('\\'), me.last) if val.kind == 'str' else z3.BoolVal(False))
            return z3.And(rx_ok, T(c.ret), idx > me.i0, app_ok, esc)
        return [('WcParse._handle_posix.true_iff_a_POSIX_class_stands_at_the_index;its_class_text_for_the_parsers_string_type_is_appended;a_pending_range_hyphen_is_escaped_first', ('C01', 'C18', 'C10'), post)]


ALL_SEQ = [SequenceRangeCheck(), HandlePosix()]

ALL_EXP = [IterPatternsFn(), IterPatternsSeq(), IterPatternsBytes(), TildePos(), TildePosBytes(), ExpandBraces(), EscapeFn(), EscapeFnBytes()]

ALL = [SetAfterStart(), SetStartDir(), ResetDirTrack(), UpdateDirState(), RestrictSequence(), RestrictExtendedSlash(), ParseFrame(), ParseBytes(), ParseReferences()] + ALL_EXP + ALL_SCAN + ALL_NORM + ALL_SEQ
