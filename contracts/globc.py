"""Contracts on wcmatch.glob.Glob (real bodies): pattern-limit accounting across the inclusion and exclusion lists
(C11), flag-derived fields of Glob.__init__ (C03 negate_flags/NODOTDIR, C06 follow_links, C12 NODIR/MARK, C17 case),
exclusion dominance helpers, the seen-set contract (C13), _format_path (C12) and the yield/recursion guards of
_glob_dir (C03, C06)."""
import ast

import z3

from vlib import pyvc
from vlib.pyvc import V, Int, Flags, Bool, Str, U, ObjV, Obj, BV, NONE, Fork, Outcome, AbstractIter
from .base import Contract
from . import flags as FL
from .core import T, S, PAT, NORMED, EXPN

WC = FL.WC
GL = FL.GL
bv = FL.bv
has = FL.has


def selfobj():
    return ObjV(z3.Const('self', Obj))


class IterPatterns(Contract):
    """Glob._iter_patterns(patterns, force_negate): one call = one list (inclusions, or exclusions with force_negate).
    Entry state (total0, cl0) comes from __init__ or from the previous call; the post state re-establishes the entry
    relation, so the two calls compose (lemma below)."""
    module, qual, props = 'glob', 'Glob._iter_patterns', ('C11', 'C07', 'C13', 'C20', 'C03', 'C10')
    assumptions = ('bracex.iexpand raises ExpansionLimitException only if its limit > 0 and the brace expansions exceed it (read, not verified)',
                   'expand() yields t(i) >= 1 items for pattern i; the consumer of the generator does not touch self.total / self.current_limit between items')
    set_sort = z3.StringSort()

    def inputs(self):
        self.n, self.L = z3.Int('n'), z3.Int('limit')
        self.total0, self.cl0 = z3.Int('total0'), z3.Int('current_limit0')
        self.F = z3.BitVec('self_flags', BV)
        self.force = z3.Bool('force_negate')
        n, L = self.n, self.L
        pre = list(FL.PLATFORM_PRE) + [n >= 0, S(0) == 0, S(n) >= 0, self.total0 >= 0,
                                       z3.Implies(L > 0, z3.And(self.total0 <= L, self.cl0 == z3.If(L - self.total0 >= 1, L - self.total0, 1))),
                                       z3.Implies(L <= 0, self.cl0 == L)]
        fields = dict(limit=Int(L), current_limit=Int(self.cl0), total=Int(self.total0), flags=Flags(self.F),
                      unix=Bool(z3.Bool('self_unix')), raw_chars=Bool(z3.Bool('self_raw_chars')), nounique=Bool(z3.Bool('self_nounique')))
        elem = z3.Function('patterns_k', z3.IntSort(), z3.StringSort())
        params = dict(self=selfobj(), patterns=V('list', None, length=n, elem=lambda k: Str(PAT(k))), force_negate=Bool(self.force))
        return dict(params=params, fields=fields, pre=pre, ghost={'$pulled': z3.IntVal(0)})

    @property
    def hooks(self):
        me = self

        def h_norm(eng, node, st, args):
            k = st.ghost.get('$k1')
            eng.oblige('Glob._iter_patterns.norm_pattern_called_with(not_unix,raw_chars)_on_each_pattern', st,
                       z3.And(pyvc.truthy(args[1]) == z3.Not(st.fields['unix'].t), pyvc.truthy(args[2]) == st.fields['raw_chars'].t,
                              args[0].t == PAT(k) if k is not None else z3.BoolVal(False)), node)
            return Str(NORMED(k))

        def h_is_negative(eng, node, st, args):
            return Bool(FL.IsNegative.spec(args[0].t, args[1].t))
        return {'util.norm_pattern': h_norm, '_wcparse.is_negative': h_is_negative}

    @property
    def iters(self):
        me = self

        def it2(eng, node, st):
            a = [eng.ev(x, st) for x in node.args]
            k = st.ghost['$k1']
            cl = a[2].t
            eng.oblige('Glob._iter_patterns.expand_receives_the_normalised_pattern_self.flags_and_remaining_budget', st,
                       z3.And(a[0].t == NORMED(k), a[1].t == me.F, cl == st.fields['current_limit'].t), node)
            return AbstractIter(T(k), lambda j: Str(EXPN(k, j)),
                                raise_rule=lambda h, j: [(z3.And(cl > 0, T(k) > cl), 'bracex.ExpansionLimitException')])
        return {2: it2}

    @property
    def invariants(self):
        me = self

        def frame(st):
            return z3.And(st.fields['limit'].t == me.L, st.fields['flags'].t == me.F)

        def inv1(st, k):
            total, cl = st.fields['total'].t, st.fields['current_limit'].t
            return z3.And(frame(st), total == me.total0 + S(k), st.ghost['$pulled'] == S(k),
                          z3.Implies(me.L > 0, z3.And(total <= me.L, cl == z3.If(me.L - total >= 1, me.L - total, 1))),
                          z3.Implies(me.L <= 0, cl == me.L))

        def inv2(st, j):
            k = st.ghost['$k1']
            total = st.fields['total'].t
            return z3.And(frame(st), st.env['count'].t == j, total == me.total0 + S(k) + j, st.ghost['$pulled'] == S(k) + j,
                          z3.Implies(me.L > 0, total <= me.L))
        return {1: ('patterns', inv1), 2: ('_wcparse.expand(p, self.flags, self.current_limit)', inv2)}

    loop_ghosts = {1: ('$pulled',), 2: ('$pulled',)}

    @property
    def axioms_at(self):
        me = self
        return {1: lambda st, k: [T(k) >= 1, S(k + 1) == S(k) + T(k), S(k) >= 0, S(k) <= S(me.n), z3.Implies(k < me.n, S(k + 1) <= S(me.n))]}

    @property
    def on_iter(self):
        def o2(eng, st, j):
            st.ghost['$pulled'] = st.ghost['$pulled'] + 1
        return {2: o2}

    @property
    def at(self):
        me = self

        def routed(st):
            v = st.ghost['$point_value']
            e = st.ghost['$elem2']
            if v.kind != 'tuple' or len(v.a['items']) != 2:
                return z3.BoolVal(False)
            isneg, text = v.a['items']
            neg = z3.Or(me.force, FL.IsNegative.spec(e.t, me.F))
            return z3.And(pyvc.truthy(isneg) == neg,
                          text.t == z3.If(z3.And(neg, z3.Not(me.force)), z3.SubString(e.t, 1, z3.Length(e.t) - 1), e.t))
        return {'yield:': [('Glob._iter_patterns.yields_(is_negative,text)_with_prefix_stripped_only_for_inline_negation', routed)]}

    @property
    def ensures(self):
        me = self

        def post_state(c):
            total, cl = c.st.fields['total'].t, c.st.fields['current_limit'].t
            return z3.And(total == me.total0 + S(me.n), z3.Implies(me.L > 0, z3.And(total <= me.L, cl == z3.If(me.L - total >= 1, me.L - total, 1))),
                          z3.Implies(me.L <= 0, cl == me.L))

        def work(c):
            return z3.Implies(me.L > 0, c.st.ghost['$pulled'] <= me.L - me.total0 + 1)
        return [('Glob._iter_patterns.exit_state_total==total0+S(n)_within_limit_budget_relation_restored', ('C11',), post_state),
                ('Glob._iter_patterns.work_bound', ('C11',), work)]

    @property
    def exc_ensures(self):
        me = self
        return [('Glob._iter_patterns.raises_only_if_limit_positive_and_total0+S(n)_exceeds_it', ('C11',), lambda c: z3.And(me.L > 0, me.total0 + S(me.n) > me.L)),
                ('Glob._iter_patterns.work_bound_on_raise', ('C11',), lambda c: z3.Implies(me.L > 0, c.st.ghost['$pulled'] <= me.L - me.total0 + 1))]

    allowed_raises = ('PatternLimitException',)
    obligation_props = {'Glob._iter_patterns.norm_pattern': ('C20',), 'Glob._iter_patterns.expand_receives': ('C20', 'C11'),
                        'Glob._iter_patterns.yields_': ('C07', 'C13', 'C03'), 'Glob._iter_patterns.loop': ('C11',),
                        'glob.Glob._iter_patterns.raises_only_documented': ('C11', 'C10')}

    def lemmas(self):
        # composition of the two calls made by Glob.__init__ (inclusions with S_i, then exclusions with S_e), over the contract above
        L, Si, Se = z3.Int('L'), z3.Int('S_incl'), z3.Int('S_excl')
        t1 = Si                              # total after the first call (total0 = 0)
        ok1 = z3.Implies(L > 0, t1 <= L)     # first call returned normally
        ok2 = z3.Implies(L > 0, t1 + Se <= L)
        return [
            ('C11.lemma.Glob.two_lists_share_one_total:no_exception_implies_total_within_limit', ('C11',),
             z3.Implies(z3.And(Si >= 0, Se >= 0, ok1, ok2), z3.Not(z3.And(L > 0, Si + Se > L)))),
            ('C11.lemma.Glob.two_lists_share_one_total:exception_implies_total_exceeds_limit', ('C11',),
             z3.Implies(z3.And(Si >= 0, Se >= 0, z3.Or(z3.And(L > 0, 0 + Si > L), z3.And(ok1, L > 0, t1 + Se > L))), z3.And(L > 0, Si + Se > L))),
        ]


class GlobInit(Contract):
    """Glob.__init__: flag-derived fields and the order of the two _parse_patterns calls (symbolic up to the calls)."""
    module, qual, props = 'glob', 'Glob.__init__', ('C03', 'C06', 'C11', 'C12', 'C13', 'C17', 'C18', 'C16')
    assumptions = (FL.PLATFORM_ASSUMPTION, 'SUPPORT_DIR_FD is a platform constant; os.fspath is pure')
    allowed_raises = ('TypeError', 'PatternLimitException')
    forking = ('self._parse_patterns',)

    def inputs(self):
        self.F = z3.BitVec('flags', BV)
        self.L = z3.Int('limit')
        self.has_excl = z3.Bool('exclude_given')
        self.excl_is_str = z3.Bool('exclude_is_single_string')
        self.pat_is_str = z3.Bool('pattern_is_single_string')
        self.pat_bytes = z3.Bool('pattern_items_are_bytes')
        self.root_none = z3.Bool('root_dir_is_None')
        self.root_bytes = z3.Bool('root_dir_is_bytes')
        self.empty_list = z3.Bool('pattern_list_is_empty')
        params = dict(self=selfobj(), pattern=ObjV(z3.Const('pattern', Obj)), flags=Flags(self.F),
                      root_dir=V('opt', None, isnone=self.root_none, inner=ObjV(z3.Const('root_dir', Obj))),
                      dir_fd=ObjV(z3.Const('dir_fd', Obj)), limit=Int(self.L),
                      exclude=V('opt', None, isnone=z3.Not(self.has_excl), inner=ObjV(z3.Const('exclude', Obj))))
        return dict(params=params, fields={}, pre=list(FL.PLATFORM_PRE) + [z3.Implies(self.pat_is_str, z3.Not(self.empty_list)), z3.Implies(self.excl_is_str, self.has_excl)], ghost={'$parse_calls': []})

    def crosscheck(self, eng, paths, inp):
        from .base import init_crosscheck
        from wcmatch import glob

        def build(m):
            ev = lambda t: z3.is_true(m.eval(t, model_completion=True))      # noqa: E731
            fl = m.eval(self.F, model_completion=True).as_long()
            lim = m.eval(self.L, model_completion=True).as_long()
            b = ev(self.pat_bytes)
            pat = (b'x' if b else 'x') if ev(self.pat_is_str) else [b'x' if b else 'x']
            kw = {}
            if ev(self.has_excl):
                kw['exclude'] = (b'y' if b else 'y') if ev(self.excl_is_str) else [b'y' if b else 'y']
            if not ev(self.root_none):
                kw['root_dir'] = b'.' if ev(self.root_bytes) else '.'
            with FL.spec_callees():
                return glob.Glob(pat, flags=fl, limit=lim, **kw)
        host = [z3.Not(FL.PLAT_WIN), FL.CASE_FS, z3.Not(FL.OS_NT), z3.Not(self.empty_list), self.L >= 0, self.L < 1000]      # Linux host; one pattern 'x' (and 'y' excluded)
        return init_crosscheck(self, eng, paths, inp, build, extra=host, vary=[self.F, self.has_excl, self.pat_bytes, self.root_none], samples_per_path=2,
                               skip=('total', 'current_limit', 'pattern', 'npatterns', 'nounique', 'seen'))      # state the abstract _parse_patterns calls change

    @property
    def hooks(self):
        me = self

        def h_isinstance(eng, node, st, args):
            what = eng.dotted(node.args[0])
            cls = eng.dotted(node.args[1])
            if what in ('pattern',) and cls == '(str, bytes)':
                return Bool(me.pat_is_str)
            if what == 'exclude' and cls == '(str, bytes)':
                return Bool(me.excl_is_str)
            if what == 'pats[0]' and cls == 'bytes':
                return Bool(me.pat_bytes)
            if what == 'temp' and cls == 'bytes if ptype else str':
                # temp is root_dir (or self.current): same type as the pattern iff root is None or types agree
                return Bool(z3.Or(me.root_none, me.root_bytes == me.pat_bytes))
            raise pyvc.Unsupported(f'isinstance({what}, {cls})')

        def h_parse(eng, node, st, args):
            force = False
            for kw in node.keywords:
                if kw.arg == 'force_negate':
                    force = True
            st.ghost['$parse_calls'] = st.ghost['$parse_calls'] + [(eng.dotted(node.args[0]), force, dict(st.fields))]
            return Fork([(z3.BoolVal(True), NONE, None), (z3.Bool(pyvc.fresh('ple')), Outcome('raise', exc='PatternLimitException'), None)])

        def h_not_pattern(eng, node, st, args):
            return None
        hooks = dict(FL.PLATFORM_HOOKS)
        hooks.update({'isinstance': h_isinstance, 'self._parse_patterns': h_parse,
                      '_wcparse.no_negate_flags': lambda eng, node, st, args: Flags(args[0].t & ~bv(WC['NEGATE'] | WC['NEGATEALL'])),
                      '_flag_transform': lambda eng, node, st, args: Flags(FL.S_T_glob(args[0].t)),
                      '_wcparse.get_case': lambda eng, node, st, args: Bool(FL.S_get_case(args[0].t)),
                      'SUPPORT_DIR_FD': lambda eng, node, st, args: Bool(z3.Bool('SUPPORT_DIR_FD'))})
        return hooks

    def F1(self):
        """flags after the optional no_negate"""
        return z3.If(self.has_excl, self.F & ~bv(WC['NEGATE'] | WC['NEGATEALL']), self.F)

    def Fself(self):
        f1 = self.F1()
        stripped = f1 & ~bv(GL['MARK'] | WC['NEGATEALL'] | WC['NODIR'] | GL['_PATHLIB'])
        t = FL.S_T_glob(stripped | bv(WC['REALPATH']))
        scandot = (f1 & bv(GL['SCANDOTDIR'])) != bv(0)
        return z3.If(z3.And(z3.Not(scandot), z3.Not(has(t, 'NODOTDIR'))), t | bv(WC['NODOTDIR']), t), t

    @property
    def ensures(self):
        me = self

        def not_empty(c):
            return z3.Not(z3.And(z3.Not(me.pat_is_str), z3.Not(pyvc.truthy(c.p['pattern']))))

        def fld(name):
            return lambda c: c.st.fields[name]

        def guard(claim):
            # an empty pattern list returns early with only self.pattern set: nothing else is claimed there
            return lambda c: z3.Implies('flags' in c.st.fields and z3.BoolVal(True), claim(c)) if 'flags' in c.st.fields else z3.BoolVal(True)

        def flags_ok(c):
            fs, t = me.Fself()
            return c.st.fields['flags'].t == fs

        def negate_flags_ok(c):
            fs, t = me.Fself()
            return c.st.fields['negate_flags'].t == t | bv(WC['DOTMATCH'] | WC['_NO_GLOBSTAR_CAPTURE'])

        def b(name, fn):
            return lambda c: pyvc.truthy(c.st.fields[name]) == fn()

        f1 = me.F1
        out = [
            ('Glob.__init__.flags==T(flags|REALPATH)_with_MARK_NEGATEALL_NODIR__PATHLIB_stripped_and_NODOTDIR_forced_unless_SCANDOTDIR', ('C03', 'C12', 'C17'), guard(flags_ok)),
            ('Glob.__init__.negate_flags_include_DOTMATCH_(exclusions_behave_as_if_DOTGLOB)', ('C03', 'C16', 'C13'), guard(negate_flags_ok)),
            ('Glob.__init__.NODOTDIR_set_whenever_SCANDOTDIR_is_not', ('C03', 'C05'), guard(lambda c: z3.Implies((f1() & bv(GL['SCANDOTDIR'])) == bv(0), has(c.st.fields['flags'].t, 'NODOTDIR')))),
            ('Glob.__init__.follow_links==FOLLOW_and_not_GLOBSTARLONG', ('C06',), guard(b('follow_links', lambda: z3.And(has(me.Fself()[0], 'FOLLOW'), z3.Not(has(me.Fself()[0], 'GLOBSTARLONG')))))),
            ('Glob.__init__.globstar==GLOBSTARLONG_or_GLOBSTAR', ('C06', 'C02'), guard(b('globstar', lambda: z3.Or(has(me.Fself()[0], 'GLOBSTARLONG'), has(me.Fself()[0], 'GLOBSTAR'))))),
            ('Glob.__init__.dot==DOTMATCH_bit', ('C03',), guard(b('dot', lambda: has(me.Fself()[0], 'DOTMATCH')))),
            ('Glob.__init__.case_sensitive==get_case(self.flags)', ('C17',), guard(b('case_sensitive', lambda: FL.S_get_case(me.Fself()[0])))),
            ('Glob.__init__.mark_nodir_negateall_pathlib_nounique_scandotdir_are_their_bits', ('C12', 'C13'), guard(lambda c: z3.And(
                pyvc.truthy(c.st.fields['mark']) == ((f1() & bv(GL['MARK'])) != bv(0)), pyvc.truthy(c.st.fields['nodir']) == has(f1(), 'NODIR'),
                pyvc.truthy(c.st.fields['negateall']) == has(f1(), 'NEGATEALL'), pyvc.truthy(c.st.fields['pathlib']) == ((f1() & bv(GL['_PATHLIB'])) != bv(0)),
                pyvc.truthy(c.st.fields['scandotdir']) == ((f1() & bv(GL['SCANDOTDIR'])) != bv(0))))),
            ('Glob.__init__.returns_only_if_root_and_pattern_types_agree', ('C18', 'C12'), guard(lambda c: z3.Or(me.root_none, me.root_bytes == me.pat_bytes))),
            ('Glob.__init__.root_dir_is_kept_as_given_(os.fspath_of_it,_or_the_current_directory)_-_no_lexical_rewriting', ('C12',),
             guard(lambda c: pyvc.eq(c.st.fields['root_dir'], pyvc.ObjV(z3.If(me.root_none, pyvc.to_obj(c.st.fields['current']), U('fn.os.fspath', c.p['root_dir'].a['inner']).t))))),
            ('Glob.__init__.limit_state_initialised_(current_limit=limit,total=0)_before_inclusions_then_exclusions_with_force_negate', ('C11',), guard(lambda c: me.calls_ok(c))),
        ]
        return out

    def calls_ok(self, c):
        calls = c.st.ghost['$parse_calls']
        if len(calls) == 0:
            return z3.BoolVal(False)
        name0, force0, f0 = calls[0]
        if any(k not in f0 for k in ('current_limit', 'total', 'limit')):
            return z3.BoolVal(False)          # the limit state is not initialised before the first list is parsed
        ok = [z3.BoolVal(name0 == 'pats' and not force0), f0['current_limit'].t == self.L, f0['total'].t == 0, f0['limit'].t == self.L]
        if len(calls) == 1:
            ok.append(z3.Not(self.has_excl))
        elif len(calls) == 2:
            name1, force1, f1 = calls[1]
            ok += [z3.BoolVal(name1 == 'epats' and force1), self.has_excl]
        else:
            return z3.BoolVal(False)
        return z3.And(*ok)

    @property
    def exc_ensures(self):
        me = self
        return [('Glob.__init__.TypeError_iff_root_and_pattern_types_differ', ('C18', 'C12'),
                 lambda c: z3.Implies(z3.BoolVal(pyvc.isa(c.exc, 'TypeError')), z3.Not(z3.Or(me.root_none, me.root_bytes == me.pat_bytes))))]


class IsHidden(Contract):
    module, qual, props = 'glob', 'Glob._is_hidden', ('C03',)

    def crosscheck(self, eng, paths, inp):
        from .base import simple_crosscheck
        return simple_crosscheck(self, eng, paths, inp)

    def inputs(self):
        self.name = z3.String('name')
        self.dot = z3.Bool('self_dot')
        fields = dict(dot=Bool(self.dot), specials=V('tuple', None, items=[Str('.'), Str('..')]))
        return dict(params=dict(self=selfobj(), name=Str(self.name)), fields=fields, pre=[])

    @property
    def ensures(self):
        me = self
        return [('Glob._is_hidden.iff_not_dot_and_name_starts_with_dot', ('C03',),
                 lambda c: pyvc.truthy(c.ret) == z3.And(z3.Not(me.dot), z3.PrefixOf(z3.StringVal('.'), me.name)))]


class IsUnique(Contract):
    """C13 seen-set contract against the abstract view `seen` of KEYS: key(path) = lower(path) if insensitive else path."""
    module, qual, props = 'glob', 'Glob._is_unique', ('C13',)
    LOWER = pyvc.STR_LOWER
    set_sort = z3.StringSort()

    def inputs(self):
        self.path = z3.String('path')
        self.cs = z3.Bool('self_case_sensitive')
        self.nounique = z3.Bool('self_nounique')
        self.seen0 = z3.Const('seen0', z3.SetSort(z3.StringSort()))
        self.F = z3.BitVec('self_flags', BV)
        fields = dict(case_sensitive=Bool(self.cs), nounique=Bool(self.nounique), seen=V('set', self.seen0), flags=Flags(self.F))
        # object invariant established by Glob.__init__ (its own contract): case_sensitive == get_case(self.flags)
        return dict(params=dict(self=selfobj(), path=Str(self.path)), fields=fields, pre=list(FL.PLATFORM_PRE) + [self.cs == FL.S_get_case(self.F)])

    @property
    def hooks(self):
        me = self
        return {}

    def key(self):
        return z3.If(self.cs, self.path, self.LOWER(self.path))

    @property
    def ensures(self):
        me = self
        return [
            ('Glob._is_unique.nounique_returns_True_and_leaves_seen_unchanged', ('C13',),
             lambda c: z3.Implies(me.nounique, z3.And(pyvc.truthy(c.ret), c.st.fields['seen'].t == me.seen0))),
            ('Glob._is_unique.result_iff_key_not_seen_before', ('C13',),
             lambda c: z3.Implies(z3.Not(me.nounique), pyvc.truthy(c.ret) == z3.Not(z3.IsMember(me.key(), me.seen0)))),
            ('Glob._is_unique.seen_becomes_old_seen_plus_exactly_the_tested_key', ('C13',),
             lambda c: z3.Implies(z3.Not(me.nounique), c.st.fields['seen'].t == z3.SetAdd(me.seen0, me.key()))),
        ]


class FormatPath(Contract):
    module, qual, props = 'glob', 'Glob._format_path', ('C12', 'C13', 'C16')
    assumptions = ("os.path.join(p, '') appends a separator iff p does not already end with one (assumed)",)
    pure = ('_pathlib_norm',)
    forking = ()

    def inputs(self):
        self.path = ObjV(z3.Const('path', Obj))
        self.is_dir, self.dir_only = z3.Bool('is_dir'), z3.Bool('dir_only')
        self.mark, self.pathlib = z3.Bool('self_mark'), z3.Bool('self_pathlib')
        fields = dict(mark=Bool(self.mark), pathlib=Bool(self.pathlib), empty=ObjV(z3.Const('self_empty', Obj)), specials=V('tuple', None, items=[Str('.'), Str('..')]),
                      sep=ObjV(z3.Const('self_sep', Obj)), seen=ObjV(z3.Const('self_seen', Obj)), nounique=Bool(z3.Bool('self_nounique')))
        return dict(params=dict(self=selfobj(), path=self.path, is_dir=Bool(self.is_dir), dir_only=Bool(self.dir_only)), fields=fields, pre=[],
                    ghost={'$unique_args': []})

    @property
    def hooks(self):
        me = self

        def h_unique(eng, node, st, args):
            st.ghost['$unique_args'] = st.ghost['$unique_args'] + [args[0]]
            return Bool(z3.Bool('is_unique_result'))
        return {'self._is_unique': h_unique}

    @property
    def at(self):
        me = self

        def y(st):
            v = st.ghost['$point_value']
            joined = U('fn.os.path.join', me.path, st.fields['empty'])
            want = pyvc.ObjV(z3.If(z3.Or(me.dir_only, z3.And(me.mark, me.is_dir)), joined.t, me.path.t))
            return pyvc.eq(v, want)
        return {'yield:': [('Glob._format_path.yields_path_with_trailing_separator_iff_dir_only_or_(mark_and_is_dir)', y)]}

    @property
    def ensures(self):
        me = self

        def once(c):
            return z3.And(c.st.ghost['$yields'] <= 1, (c.st.ghost['$yields'] == 1) == z3.Bool('is_unique_result'))

        def key(c):
            a = c.st.ghost['$unique_args']
            if len(a) != 1:
                return z3.BoolVal(False)
            joined = U('fn.os.path.join', me.path, c.st.fields['empty'])
            out = pyvc.ObjV(z3.If(z3.Or(me.dir_only, z3.And(me.mark, me.is_dir)), joined.t, me.path.t))
            return pyvc.eq(a[0], pyvc.ObjV(z3.If(me.pathlib, U('method._pathlib_norm', c.p['self'], out).t, out.t)))
        return [('Glob._format_path.yields_at_most_once_and_exactly_when_unique', ('C12', 'C13'), once),
                ('Glob._format_path.uniqueness_key_is_the_formatted_path_(pathlib-normalised_iff__PATHLIB)', ('C13', 'C16'), key)]

    obligation_props = {'Glob._format_path.yields_path': ('C12',)}


class MatchExcluded(Contract):
    module, qual, props = 'glob', 'Glob._match_excluded', ('C13', 'C12', 'C03')
    assumptions = ('pattern.fullmatch is the uninterpreted full-match relation M(regex, name)',)

    def inputs(self):
        self.fn = z3.String('filename')
        self.is_dir = z3.Bool('is_dir')
        self.sep = z3.String('self_sep')
        self.n = z3.Int('n_npatterns')
        self.M = z3.Function('M', z3.IntSort(), z3.StringSort(), z3.BoolSort())
        me = self
        fields = dict(sep=Str(self.sep), npatterns=V('list', None, length=self.n, elem=lambda k: ObjV(z3.Const('npat', Obj), index=k)))
        return dict(params=dict(self=selfobj(), filename=Str(self.fn), is_dir=Bool(self.is_dir)), fields=fields, pre=[self.n >= 0, z3.Length(self.sep) == 1])

    def tested(self):
        return z3.If(z3.And(self.is_dir, z3.Not(z3.SuffixOf(self.sep, self.fn))), z3.Concat(self.fn, self.sep), self.fn)

    @property
    def hooks(self):
        me = self
        return {}

    @property
    def iters(self):
        return {}

    def _call_hook(self):
        pass

    @property
    def invariants(self):
        me = self
        i = z3.Int('i!inv')

        def inv(st, k):
            # no earlier pattern matched (otherwise we would have left the loop), matched is still False
            return z3.And(z3.Not(pyvc.truthy(st.env['matched'])), st.env['filename'].t == me.tested(),
                          z3.ForAll([i], z3.Implies(z3.And(i >= 0, i < k), z3.Not(me.M(i, me.tested())))))
        return {1: ('self.npatterns', inv)}

    @property
    def ensures(self):
        me = self
        i = z3.Int('i!post')
        return [('Glob._match_excluded.result_iff_some_exclusion_regex_fullmatches_name_with_separator_appended_for_directories', ('C13', 'C12', 'C03'),
                 lambda c: pyvc.truthy(c.ret) == z3.Exists([i], z3.And(i >= 0, i < me.n, me.M(i, me.tested()))))]


def _h_fullmatch_method(me):
    def h(eng, node, st, args):
        return None
    return h


ALL = [IterPatterns(), GlobInit(), IsHidden(), IsUnique(), FormatPath()]


class IterPatternsSeen(IterPatterns):
    """same function, C13 clause on the duplicate filter: the key put into `seen` is the raw expansion text"""
    props = ('C13', 'C07')
    ensures = []
    exc_ensures = []
    allowed_raises = None

    @property
    def at(self):
        def added(st):
            v = st.ghost['$point_value']
            e = st.ghost.get('$elem2')
            return v.t == e.t if (e is not None and v is not None and v.kind == 'str') else z3.BoolVal(False)
        return {'call:add': [('Glob._iter_patterns.duplicate_filter_keys_are_the_raw_expansions_(prefix_included)', added)]}

    obligation_props = {'Glob._iter_patterns.duplicate_filter': ('C13', 'C07'), 'Glob._iter_patterns.loop': (), 'Glob._iter_patterns.norm': (), 'Glob._iter_patterns.expand': ()}

    def lemmas(self):
        return []


class ParsePatterns(Contract):
    module, qual, props = 'glob', 'Glob._parse_patterns', ('C13', 'C03', 'C12', 'C07', 'C11')
    assumptions = ('self._iter_patterns is an abstract iterator of (is_negative, text) pairs (its own contract is IterPatterns)',)

    def inputs(self):
        self.force = z3.Bool('force_negate')
        self.F = z3.BitVec('self_flags', BV)
        self.NF = z3.BitVec('self_negate_flags', BV)
        self.n = z3.Int('n_expanded')
        self.nounique0 = z3.Bool('nounique0')
        b = lambda n: Bool(z3.Bool('self_' + n))      # noqa: E731
        self.len_p0, self.len_n0 = z3.Int('len_pattern0'), z3.Int('len_npatterns0')
        fields = dict(flags=Flags(self.F), negate_flags=Flags(self.NF), nounique=Bool(self.nounique0), negateall=b('negateall'), nodir=b('nodir'),
                      pathlib=b('pathlib'), scandotdir=b('scandotdir'), stars=Str('**'), re_no_dir=ObjV(z3.Const('self_re_no_dir', Obj)),
                      pattern=V('list', None, length=self.len_p0), npatterns=V('list', None, length=self.len_n0),
                      total=Int(z3.Int('self_total0')), current_limit=Int(z3.Int('self_current_limit0')), limit=Int(z3.Int('self_limit0')))
        return dict(params=dict(self=selfobj(), patterns=ObjV(z3.Const('patterns', Obj)), force_negate=Bool(self.force)), fields=fields,
                    pre=[self.n >= 0, self.len_p0 >= 0, self.len_n0 >= 0], ghost={})

    ISNEG = z3.Function('isneg_k', z3.IntSort(), z3.BoolSort())
    TXT = z3.Function('text_k', z3.IntSort(), z3.StringSort())

    @property
    def iters(self):
        me = self

        def it1(eng, node, st):
            a = eng.norm_args('glob', 'Glob._iter_patterns', node, st)
            eng.oblige('Glob._parse_patterns.iterates__iter_patterns(patterns,force_negate)', st,
                       z3.And(pyvc.eq(a[0], st.env['patterns']), pyvc.truthy(a[1]) == me.force), node)
            return AbstractIter(me.n, lambda k: V('tuple', None, items=[Bool(me.ISNEG(k)), Str(me.TXT(k))]))
        return {1: it1}

    @property
    def hooks(self):
        me = self

        def h_compile(eng, node, st, args):
            k = st.ghost.get('$k1')
            eng.oblige('Glob._parse_patterns.exclusions_compiled_with_negate_flags_(DOTMATCH_forced)', st,
                       z3.And(args[1].t == me.NF, args[0].t == me.TXT(k), me.ISNEG(k)) if k is not None else z3.BoolVal(False), node)
            return U('C', args[0], args[1])

        def h_split(eng, node, st, args):
            k = st.ghost.get('$k1')
            loops = st.ghost.get('$loops', ())
            if 1 in loops:
                eng.oblige('Glob._parse_patterns.inclusions_split_with_self.flags', st, z3.And(args[1].t == me.F, args[0].t == me.TXT(k), z3.Not(me.ISNEG(k))), node)
            else:
                eng.oblige('Glob._parse_patterns.NEGATEALL_default_is_**_with_GLOBSTAR_only_if_no_inclusion_some_exclusion_and_NEGATEALL', st,
                           z3.And(args[1].t == me.F | bv(WC['GLOBSTAR']), args[0].t == z3.StringVal('**'), st.fields['pattern'].a['length'] == 0,
                                  st.fields['npatterns'].a['length'] > 0, pyvc.truthy(st.fields['negateall'])), node)
            return U('GlobSplit', args[0], args[1])
        return {'_wcparse._compile': h_compile, '_GlobSplit': h_split}

    @property
    def invariants(self):
        me = self
        return {1: ('self._iter_patterns(patterns, force_negate=force_negate)',
                    lambda st, k: z3.And(st.fields['pattern'].a['length'] >= me.len_p0, st.fields['npatterns'].a['length'] >= me.len_n0,
                                         pyvc.truthy(st.fields['nounique']) == me.nounique0))}

    @property
    def ensures(self):
        me = self

        def shortcut(c):
            f = c.st.fields
            became = z3.And(pyvc.truthy(f['nounique']), z3.Not(me.nounique0))
            npat = f['pattern'].a['length']
            return z3.Implies(became, z3.And(z3.Not(me.force), npat <= 1, z3.Not(has(me.F, 'NODOTDIR')),
                                             z3.Not(z3.And(pyvc.truthy(f['pathlib']), pyvc.truthy(f['scandotdir'])))))

        def never_cleared(c):
            return z3.Implies(me.nounique0, pyvc.truthy(c.st.fields['nounique']))

        def nodir(c):
            tail = c.st.fields['npatterns'].a.get('tail', [])
            want = z3.And(pyvc.truthy(c.st.fields['nodir']), z3.Not(me.force))
            if not tail:
                return z3.Not(want)
            return z3.And(want, pyvc.eq(tail[-1], c.st.fields['re_no_dir'])) if len(tail) == 1 else z3.BoolVal(False)
        return [
            ('Glob._parse_patterns.unique_filter_switched_off_only_when_at_most_one_expanded_inclusion_pattern_can_produce_a_path_once', ('C13',), shortcut),
            ('Glob._parse_patterns.NOUNIQUE_is_never_cleared', ('C13',), never_cleared),
            ('Glob._parse_patterns.NODIR_regex_appended_to_exclusions_iff_nodir_and_this_is_the_inclusion_list', ('C12',), nodir),
            ('Glob._parse_patterns.frame:own_code_never_assigns_the_limit_state_(total,current_limit,limit)_shared_by_both_lists', ('C11',),
             lambda c: z3.And(c.st.fields['total'].t == z3.Int('self_total0'), c.st.fields['current_limit'].t == z3.Int('self_current_limit0'),
                              c.st.fields['limit'].t == z3.Int('self_limit0'))),
        ]

    obligation_props = {'Glob._parse_patterns.exclusions_compiled': ('C03', 'C07'), 'Glob._parse_patterns.inclusions_split': ('C07',),
                        'Glob._parse_patterns.NEGATEALL_default': ('C07',), 'Glob._parse_patterns.iterates': ('C07', 'C11'), 'Glob._parse_patterns.loop': ('C13',)}


ALL += [IterPatternsSeen(), ParsePatterns()]


class GlobGlob(Contract):
    """Glob.glob(): per pattern, `is_abs_pattern` and `dir_only` are recomputed before any use; every `_format_path`
    site is dominated by `not _is_excluded(match, is_dir)` on the same arguments; each start directory is globbed with
    the FULL remaining pattern (fresh `this`/`rest` per start: `_glob` consumes the `rest` list it is given)."""
    module, qual, props = 'glob', 'Glob.glob', ('C12', 'C13', 'C05', 'C04')
    assumptions = ('_glob / _get_starting_paths / _lexists / _is_excluded / _format_path are abstract here (their own contracts and the tree harness cover them); '
                   '_glob may mutate the `rest` list it receives (it pops from it)',
                   'list axioms instantiated where used: head(p[i:]) == p[i], tail(p[i:]) == p[i+1:]')
    pure = ('_lexists', '_prepend_base', '_get_starting_paths')
    mutates = {'self._glob': [2]}

    def inputs(self):
        fields = dict(pattern=V('list', None, length=z3.Int('n_patterns'), elem=lambda k: U('pattern_k', Int(k))),
                      current=ObjV(z3.Const('self_current', Obj)), empty=ObjV(z3.Const('self_empty', Obj)),
                      is_abs_pattern=ObjV(z3.Const('stale_is_abs_pattern', Obj)))
        return dict(params=dict(self=selfobj()), fields=fields, pre=[z3.Int('n_patterns') >= 0], ghost={'$glob_calls': 0})

    @staticmethod
    def ABS(p):
        return z3.And(pyvc.truthy(p), pyvc.truthy(U('attr.is_drive', U('getitem', p, Int(0)))))

    @staticmethod
    def DIRONLY(p):
        return z3.And(pyvc.truthy(p), pyvc.truthy(U('attr.dir_only', U('getitem', p, Int(-1)))))

    def abs_ok(self, st):
        p = st.ghost.get('$elem1')
        if p is None:
            return z3.BoolVal(False)
        return pyvc.truthy(st.fields['is_abs_pattern']) == self.ABS(p)

    @property
    def hooks(self):
        me = self

        def h_glob(eng, node, st, args):
            p = st.ghost['$elem1']
            loops = st.ghost.get('$loops', ())
            start, this, rest = args
            if 2 in loops:        # literal first part, one call per starting directory
                sl = U('slice', p, Int(1), NONE)
                ax = z3.And(U('list.head', sl).t == U('getitem', p, Int(1)).t, U('list.tail', sl).t == U('slice', p, Int(2), NONE).t)
                claim = z3.Implies(ax, z3.And(pyvc.eq(this, U('getitem', p, Int(1))), pyvc.eq(rest, U('slice', p, Int(2), NONE)),
                                              pyvc.eq(start, st.env['start'])))
            else:
                sl = U('slice', p, NONE, NONE)
                ax = z3.And(U('list.head', sl).t == U('getitem', p, Int(0)).t, U('list.tail', sl).t == U('slice', p, Int(1), NONE).t)
                claim = z3.Implies(ax, z3.And(pyvc.eq(this, U('getitem', p, Int(0))), pyvc.eq(rest, U('slice', p, Int(1), NONE))))
            eng.oblige('Glob.glob._glob_receives_the_full_remaining_pattern_for_every_start', st, claim, node)
            eng.oblige('Glob.glob.is_abs_pattern_is_that_of_the_current_pattern_at_every_use', st, me.abs_ok(st), node)
            return ObjV(z3.Const(pyvc.fresh('glob_gen'), Obj))

        def h_excluded(eng, node, st, args):
            return U('EXCLUDED', args[0], args[1], ret='bool')

        def h_yield_from(eng, y, st):
            call = y.value
            if eng.dotted(call.func) != 'self._format_path':
                raise pyvc.Unsupported('yield from ' + eng.dotted(call.func))
            a = [eng.ev(x, st) for x in call.args]
            p = st.ghost['$elem1']
            eng.oblige('Glob.glob.every_result_passes_not__is_excluded(match,is_dir)_before__format_path', st,
                       z3.Not(U('EXCLUDED', a[0], a[1], ret='bool').t), y)
            eng.oblige('Glob.glob._format_path_gets_dir_only_of_the_last_part_of_the_current_pattern', st, pyvc.truthy(a[2]) == me.DIRONLY(p), y)
            eng.oblige('Glob.glob.is_abs_pattern_is_that_of_the_current_pattern_at_every_use', st, me.abs_ok(st), y)
            return [(st, pyvc.Outcome('normal'))]
        return {'self._glob': h_glob, 'self._is_excluded': h_excluded, 'yield from': h_yield_from}

    @property
    def at(self):
        me = self
        return {'call:_lexists|call:_prepend_base|call:_get_starting_paths':
                [('Glob.glob.is_abs_pattern_is_that_of_the_current_pattern_at_every_use', lambda st: me.abs_ok(st))]}

    @property
    def invariants(self):
        t = lambda st, k: z3.BoolVal(True)      # noqa: E731
        return {1: ('self.pattern', t), 2: ('results', t), 3: ('self._glob(start, this, rest)', t), 4: ('results', t),
                5: ('self._glob(curdir if not curdir == self.current else self.empty, this, rest)', t)}

    @property
    def ensures(self):
        def all_patterns(c):
            tr = list(c.st.trace)
            it = max([i for i, t in enumerate(tr) if t == 'loop1:iter'], default=-1)
            ex = max([i for i, t in enumerate(tr) if t == 'loop1:exhausted'], default=-1)
            return z3.BoolVal(not it > ex)          # a path that ends from inside an iteration over the patterns (return / break) drops every later pattern of the call
        return [('Glob.glob.every_pattern_of_the_call_gets_its_turn_(a_pattern_that_is_skipped_does_not_end_the_call)', ('C13', 'C05', 'C12'), all_patterns)]

    obligation_props = {'Glob.glob._glob_receives': ('C05', 'C04'), 'Glob.glob.is_abs_pattern': ('C12', 'C05', 'C13', 'C04'), 'Glob.glob.every_result': ('C13', 'C12'),
                        'Glob.glob._format_path_gets': ('C12',), 'Glob.glob.loop': ('C05',)}


class GetStartingPaths(Contract):
    module, qual, props = 'glob', 'Glob._get_starting_paths', ('C12', 'C05')
    pure = ('_is_parent', '_is_this', '_get_matcher', '_lexists')

    def inputs(self):
        self.dir_only = z3.Bool('dir_only')
        fields = dict(is_abs_pattern=Bool(z3.Bool('self_is_abs_pattern')), specials=V('tuple', None, items=[Str('.'), Str('..')]))
        return dict(params=dict(self=selfobj(), curdir=ObjV(z3.Const('curdir', Obj)), dir_only=Bool(self.dir_only)), fields=fields, pre=[], ghost={'$iter_calls': []})

    @property
    def hooks(self):
        me = self

        def h_iter(eng, node, st, args):
            a = eng.norm_args('glob', 'Glob._iter', node, st)
            st.ghost['$iter_calls'] = st.ghost['$iter_calls'] + [a]
            eng.oblige('Glob._get_starting_paths.scans_the_root_(curdir=None)_with_the_dir_only_filter_of_the_pattern_not_deep', st,
                       z3.And(pyvc.eq(a[0], NONE), pyvc.truthy(a[1]) == me.dir_only, z3.Not(pyvc.truthy(a[2]))), node)
            return ObjV(z3.Const(pyvc.fresh('iter_gen'), Obj))
        return {'self._iter': h_iter}

    @property
    def invariants(self):
        return {1: ('files', lambda st, k: z3.BoolVal(True))}

    @property
    def ensures(self):
        me = self

        def literal(c):
            # for `.`, `..`, a separator or an absolute pattern nothing is scanned and the directory itself is the single start
            calls = c.st.ghost['$iter_calls']
            special = z3.Or(pyvc.truthy(c.st.fields['is_abs_pattern']), pyvc.truthy(U('method._is_parent', c.p['self'], c.p['curdir'])),
                            pyvc.truthy(U('method._is_this', c.p['self'], c.p['curdir'])))
            return special == z3.BoolVal(len(calls) == 0)

        def single_start(c):
            # `.`, `..` and absolute starts ARE directories whatever the pattern's dir_only says (MARK and the trailing separator depend on it)
            if len(c.st.ghost['$iter_calls']) != 0:
                return z3.BoolVal(True)
            r = c.ret
            # ... provided they exist (fix: glob('./', root_dir='/nonexistent') returned ['./'])
            lex = pyvc.truthy(U('method._lexists', c.p['self'], c.p['curdir']))
            if r.kind == 'list':
                return z3.And(r.a['length'] == 0, z3.Not(lex))
            if r.kind != 'tuple' or len(r.a['items']) != 1 or r.a['items'][0].kind != 'tuple' or len(r.a['items'][0].a['items']) != 2:
                return z3.BoolVal(False)
            start, is_dir = r.a['items'][0].a['items']
            return z3.And(pyvc.eq(start, c.p['curdir']), pyvc.truthy(is_dir), lex)
        return [('Glob._get_starting_paths.no_scan_iff_absolute_or_dot_or_dotdot', ('C05', 'C12'), literal),
                ('Glob._get_starting_paths.unscanned_start_is_(curdir,is_dir=True)_iff_it_exists', ('C05', 'C12'), single_start)]

    obligation_props = {'Glob._get_starting_paths.scans': ('C12', 'C05'), 'Glob._get_starting_paths.loop': ('C05',)}


class GlobDir(Contract):
    """_glob_dir: an entry is yielded only under (matcher is None and not hidden) or matcher(file); the fake entries `.`/`..`
    only under matcher(file); recursion only under deep and not hidden and is_dir and (not is_link or follow_links or
    globstar_follow), with the same matcher / dir_only / deep / globstar_follow (C03, C06)."""
    module, qual, props = 'glob', 'Glob._glob_dir', ('C03', 'C06', 'C05')
    assumptions = ('self._iter(curdir, ...) is the only directory listing (os.scandir) and is abstract here; matcher is an uninterpreted predicate',)

    def inputs(self):
        self.deep, self.gf, self.dir_only = z3.Bool('deep'), z3.Bool('globstar_follow'), z3.Bool('dir_only')
        self.follow_links = z3.Bool('self_follow_links')
        self.matcher_none = z3.Bool('matcher_is_None')
        fields = dict(follow_links=Bool(self.follow_links), specials=V('tuple', None, items=[Str('.'), Str('..')]))
        params = dict(self=selfobj(), curdir=ObjV(z3.Const('curdir', Obj)),
                      matcher=V('opt', None, isnone=self.matcher_none, inner=ObjV(z3.Const('matcher', Obj))),
                      dir_only=Bool(self.dir_only), deep=Bool(self.deep), globstar_follow=Bool(self.gf))
        return dict(params=params, fields=fields, pre=[], ghost={})

    FILE = z3.Function('file_k', z3.IntSort(), z3.StringSort())
    ISDIR = z3.Function('is_dir_k', z3.IntSort(), z3.BoolSort())
    HIDDEN = z3.Function('hidden_k', z3.IntSort(), z3.BoolSort())
    ISLINK = z3.Function('is_link_k', z3.IntSort(), z3.BoolSort())
    MATCH = z3.Function('matcher_accepts', z3.StringSort(), z3.BoolSort())

    @property
    def hooks(self):
        me = self

        def h_iter(eng, node, st, args):
            a = eng.norm_args('glob', 'Glob._iter', node, st)
            eng.oblige('Glob._glob_dir.lists_exactly_its_own_curdir', st,
                       z3.And(pyvc.eq(a[0], st.env['curdir']), pyvc.truthy(a[1]) == me.dir_only, pyvc.truthy(a[2]) == me.deep), node)
            n = z3.Int(pyvc.fresh('n_entries'))
            st.pc.append(n >= 0)
            return V('list', None, length=n, elem=lambda k: V('tuple', None, items=[Str(me.FILE(k)), Bool(me.ISDIR(k)), Bool(me.HIDDEN(k)), Bool(me.ISLINK(k))]))

        def h_matcher(eng, node, st, args):
            return Bool(me.MATCH(args[0].t))

        def h_yield_from(eng, y, st):
            call = y.value
            if eng.dotted(call.func) != 'self._glob_dir':
                raise pyvc.Unsupported('yield from ' + eng.dotted(call.func))
            a = eng.norm_args('glob', 'Glob._glob_dir', call, st)
            k = st.ghost['$k1']
            guard = z3.And(me.deep, z3.Not(me.HIDDEN(k)), me.ISDIR(k), z3.Or(z3.Not(me.ISLINK(k)), me.follow_links, me.gf))
            special = z3.Or(me.FILE(k) == z3.StringVal('.'), me.FILE(k) == z3.StringVal('..'))
            eng.oblige('Glob._glob_dir.descends_only_if_deep_and_not_hidden_and_is_dir_and_(not_link_or_FOLLOW_or_***)_never_into_dot_entries', st,
                       z3.And(guard, z3.Not(special)), y)
            eng.oblige('Glob._glob_dir.recursion_keeps_matcher_dir_only_deep_and_globstar_follow', st,
                       z3.And(pyvc.eq(a[1], st.env['matcher']), pyvc.truthy(a[2]) == me.dir_only, pyvc.truthy(a[3]) == me.deep, pyvc.truthy(a[4]) == me.gf,
                              pyvc.eq(a[0], U('fn.os.path.join', st.env['curdir'], Str(me.FILE(k))))), y)
            st.ghost['$recursed'] = True
            return [(st, pyvc.Outcome('normal'))]
        return {'self._iter': h_iter, 'matcher': h_matcher, 'yield from': h_yield_from}

    @property
    def at(self):
        me = self

        def y(st):
            k = st.ghost['$k1']
            special = z3.Or(me.FILE(k) == z3.StringVal('.'), me.FILE(k) == z3.StringVal('..'))
            m = me.MATCH(me.FILE(k))
            ok = z3.If(special, z3.And(z3.Not(me.matcher_none), m), z3.Or(z3.And(me.matcher_none, z3.Not(me.HIDDEN(k))), z3.And(z3.Not(me.matcher_none), m)))
            v = st.ghost['$point_value']
            val_ok = pyvc.eq(v.a['items'][0], U('fn.os.path.join', st.env['curdir'], Str(me.FILE(k)))) if v.kind == 'tuple' else z3.BoolVal(False)
            return z3.And(ok, val_ok)
        return {'yield:': [('Glob._glob_dir.yields_entry_only_if_(no_matcher_and_not_hidden)_or_matcher_accepts;_dot_entries_only_if_matcher_accepts', y)]}

    @property
    def invariants(self):
        return {1: ('files', lambda st, k: z3.BoolVal(True))}

    obligation_props = {'Glob._glob_dir.lists': ('C06', 'C05'), 'Glob._glob_dir.descends': ('C06', 'C03'), 'Glob._glob_dir.recursion_keeps': ('C06', 'C05'),
                        'Glob._glob_dir.yields_entry': ('C03', 'C05'), 'Glob._glob_dir.loop': ('C05',)}


ALL += [GlobGlob(), GetStartingPaths(), GlobDir()]
