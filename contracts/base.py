"""Contract base class and runner.  A contract binds to ONE real function (module + qualified name), declares symbolic
inputs (sorts), preconditions, named postconditions (normal and exceptional), loop invariants, program-point
obligations and - optionally - a concretiser that turns a z3 model into a replay on the real code.

Obligation names are `<clause id>` strings chosen by the contract (stable under refactoring of the function body);
an obligation is PROVED iff every path instance of it is discharged.
"""
import json
import os
import time
import traceback

import z3

from vlib import pyvc
from vlib.common import VERIF, REPO

BASELINE = os.path.join(VERIF, 'contracts', 'baseline_obligations.json')


def load_baseline():
    if os.environ.get('VERIF_EMPTY_BASELINE'):
        return set()          # tools/mkbaseline.py: regenerate without touching the committed file until the end
    try:
        return set(json.load(open(BASELINE)))
    except FileNotFoundError:
        return set()


class Ctx:
    def __init__(self, eng, inp, st, oc):
        self.eng, self.inp, self.st, self.oc = eng, inp, st, oc
        self.p = inp['params']
        self.ret = oc.val if oc.kind == 'return' else None
        self.exc = oc.exc if oc.kind == 'raise' else None


class Contract:
    module = None
    qual = None
    props = ()           # property ids this contract serves
    ensures = ()         # [(name, props, fn(ctx) -> z3 Bool)] on normal return
    exc_ensures = ()     # [(name, props, fn(ctx) -> z3 Bool)] on exceptional exit
    allowed_raises = None   # None: any; else iterable of exception class names that may escape
    assumptions = ()     # text of assumed external contracts used here

    def inputs(self):
        """-> dict(params={name: V}, fields={}, ghost={}, pre=[z3 Bool])"""
        raise NotImplementedError

    def replay(self, name, model, inp):
        """-> (script_text, reproduced: True/False/None).  None: no concrete input can be built."""
        return None, None

    def crosscheck(self, eng, paths, inp):
        """-> list of engine-vs-CPython disagreements (strings); default: nothing to cross-check"""
        return []

    def lemmas(self):
        """-> [(name, props, claim z3 Bool)] spec-level facts proved once from the spec functions"""
        return []


def simple_crosscheck(c, eng, paths, inp, samples_per_path=3):
    """Engine-vs-CPython cross-check for contracts whose inputs are plain values (str / int / bool / flag words / constant tuples) and whose
    `self` is only read through fields: every feasible terminal path is solved for concrete inputs (printable ASCII strings, a few per path),
    the REAL function is called unbound on a SimpleNamespace carrying the fields, and its result (or exception class) is compared with the
    value pyvc computed on that path under the model.  A disagreement means the symbolic semantics is wrong (checker broken), not the code."""
    import importlib
    import types
    mod = importlib.import_module('wcmatch.' + c.module)
    obj = mod
    for part in c.qual.split('.'):
        obj = getattr(obj, part)
    printable = z3.Star(z3.Range(' ', '~'))

    def conc(v, m):
        if v.kind == 'str':
            t = m.eval(v.t, model_completion=True).as_string()
            return t.encode('latin-1') if v.a.get('is_bytes') else t
        if v.kind == 'bool':
            return z3.is_true(m.eval(v.t, model_completion=True))
        if v.kind in ('int', 'bv'):
            return m.eval(v.t, model_completion=True).as_long()
        if v.kind == 'tuple':
            return tuple(conc(x, m) for x in v.a['items'])
        if v.kind == 'none':
            return None
        raise pyvc.Unsupported('cross-check: ' + v.kind)
    bad = []
    strs = [v.t for v in list(inp['params'].values()) + list((inp.get('fields') or {}).values()) if v.kind == 'str' and z3.is_const(v.t) and v.t.decl().kind() == z3.Z3_OP_UNINTERPRETED]
    for st, oc in paths:
        if oc.kind not in ('return', 'raise'):
            continue
        s = z3.Solver()
        s.set('timeout', 5000)
        s.add(*st.pc)
        for t in strs:
            s.add(z3.InRe(t, printable), z3.Length(t) <= 6)
        for _ in range(samples_per_path):
            if s.check() != z3.sat:
                break
            m = s.model()
            try:
                args = {k: conc(v, m) for k, v in inp['params'].items() if k != 'self'}
                fields = {k: conc(v, m) for k, v in (inp.get('fields') or {}).items()}
            except pyvc.Unsupported:
                return bad
            ns = types.SimpleNamespace(**fields)
            try:
                got = ('ok', obj(ns, **args) if 'self' in inp['params'] else obj(**args))
            except Exception as e:
                got = ('exc', type(e).__name__)
            if oc.kind == 'raise':
                want = ('exc', (oc.exc or '').split('.')[-1])
            else:
                rv = oc.val
                want = ('ok', conc(rv, m) if rv.kind in ('str', 'bool', 'int', 'bv', 'tuple', 'none') else None)
                if rv.kind == 'obj':
                    break
                if rv.kind == 'bool':
                    got = (got[0], bool(got[1])) if got[0] == 'ok' else got
            if got != want:
                bad.append(f'inputs {args} fields {fields}: CPython {got}, pyvc {want}')
            # ask for a different model next time
            block = [d() != m[d] for d in m.decls() if d.arity() == 0 and d.name() in {str(t) for t in strs}]
            if not block:
                break
            s.add(z3.Or(*block))
    return bad


def init_crosscheck(c, eng, paths, inp, build, extra=(), vary=(), samples_per_path=4, skip=()):
    """Engine-vs-CPython cross-check for constructors: for models of each terminal path (under `extra` constraints that pin the symbolic
    platform to the host), `build(model)` constructs the REAL object; every bool / int / flag-word field pyvc computed is compared with the
    attribute of the real object."""
    bad = []
    for st, oc in paths:
        if oc.kind != 'return':
            continue
        s = z3.Solver()
        s.set('timeout', 5000)
        s.add(*st.pc)
        s.add(*extra)
        for _ in range(samples_per_path):
            if s.check() != z3.sat:
                break
            m = s.model()
            try:
                real = build(m)
            except Exception:
                break          # the real constructor does not get through on this model (e.g. a callee outside the contract raises): nothing to compare
            for name, v in st.fields.items():
                if name in skip or not hasattr(real, name):
                    continue
                got = getattr(real, name)
                if v.kind == 'bool' and isinstance(got, bool):
                    want = z3.is_true(m.eval(v.t, model_completion=True))
                elif v.kind in ('int', 'bv') and isinstance(got, int) and not isinstance(got, bool):
                    want = m.eval(v.t, model_completion=True).as_long()
                else:
                    continue
                if got != want:
                    bad.append(f'field {name}: CPython {got!r}, pyvc {want!r} under model {str(m)[:200]}')
            block = [t != m.eval(t, model_completion=True) for t in vary]
            if not block:
                break
            s.add(z3.Or(*block))
    return bad[:5]


def _model_str(model, limit=1500):
    try:
        return str(model)[:limit]
    except Exception:
        return '<model>'


def run_contract(chk, c, pid, baseline):
    """Symbolically execute the real function under contract `c` and report the obligations that serve property pid."""
    t0 = time.time()
    fname = f'{c.module}.{c.qual}'
    try:
        eng = pyvc.Engine(c.module, c.qual, c)
        chk.function(fname, f'wcmatch/{c.module}.py', eng.fn.lineno, eng.fn.end_lineno, eng.src)
        inp = c.inputs()
        paths = eng.run(inp['params'], inp.get('fields'), inp.get('ghost'), inp.get('pre'))
    except pyvc.Unsupported as e:
        chk.undecide(fname, f'contract no longer binds / outside the subset: {e}')
        return
    for a in c.assumptions:
        chk.assume(a)
    # vacuity guard: at least one feasible terminal path; precondition satisfiable
    feas = 0
    for s, oc in paths:
        sv = z3.Solver()
        sv.set('timeout', 3000)
        sv.add(*s.pc)
        if sv.check() == z3.sat:
            feas += 1
    if feas == 0:
        chk.broke(f'{fname}: no feasible path (vacuous contract or contradictory precondition)')
        return
    insts = {}      # name -> list of (st, claim, line)
    for name, st, claim, line in eng.obls:
        insts.setdefault(name, []).append((st.pc, claim, line, st))
    def claim_of(name, props, fn, ctx):
        # a postcondition that cannot even be stated on this path (the code now binds a value of another kind, a field is missing, ...)
        # makes the obligation undecided for the properties it serves - it is not a crash of the checker
        try:
            return fn(ctx)
        except (z3.Z3Exception, KeyError, AttributeError, TypeError, IndexError) as e:
            if pid in props:
                chk.undecide(f'{pid}:{name}', f'postcondition cannot be evaluated on path [{" > ".join(ctx.st.trace[-8:])}]: {type(e).__name__}: {str(e)[:160]}')
            return None

    for s, oc in paths:
        ctx = Ctx(eng, inp, s, oc)
        if oc.kind == 'return':
            for name, props, fn in c.ensures:
                cl = claim_of(name, props, fn, ctx)
                if cl is not None:
                    insts.setdefault(name, []).append((s.pc, cl, 0, s))
        elif oc.kind == 'raise':
            if c.allowed_raises is not None:
                ok = any(pyvc.isa(oc.exc, a) for a in c.allowed_raises)
                insts.setdefault(f'{fname}.raises_only_documented', []).append((s.pc, z3.BoolVal(ok), 0, s))
            for name, props, fn in c.exc_ensures:
                cl = claim_of(name, props, fn, ctx)
                if cl is not None:
                    insts.setdefault(name, []).append((s.pc, cl, 0, s))
        else:
            chk.undecide(fname, f'path ends with {oc.kind}')
    # which obligations belong to this property?
    propmap = {}
    for name, props, fn in list(c.ensures) + list(c.exc_ensures):
        propmap[name] = props
    inner_props = getattr(c, 'obligation_props', {})
    n_reported = 0
    for name, lst in insts.items():
        props = propmap.get(name) or inner_props.get(name) or next((v for k, v in inner_props.items() if name.startswith(k)), c.props)
        if pid not in props:
            continue
        n_reported += 1
        status, backend, secs, model, bad = 'proved', 'z3', 0.0, None, None
        for pc, claim, line, st in lst:
            r, be, dt, m = pyvc.discharge(pc, claim)
            secs += dt
            if be != 'z3':
                backend = be
            if r == 'refuted':
                status, model, bad = 'refuted', m, (pc, claim, line, st)
                break
            if r == 'undecided':
                status = 'undecided'
        full = f'{pid}:{name}'
        if status == 'proved':
            chk.obligation(full, 'proved', backend, secs, function=fname, detail=f'{len(lst)} path instance(s)')
        elif status == 'undecided':
            chk.obligation(full, 'undecided', backend, secs, function=fname)
            if full in baseline:
                chk.undecide(full, 'solver returned unknown on both back ends (was discharged on the pinned tree)')
            else:
                chk.leave_open(full, 'solver limit (never discharged on the pinned tree)')
        else:
            chk.obligation(full, 'refuted', backend, secs, function=fname, detail=_model_str(model, 300))
            trace = ' > '.join(bad[3].trace[-12:])
            try:
                script, repro = c.replay(name, model, inp)
            except Exception:
                script, repro = None, None
                chk.note(f'replay construction failed for {full}: {traceback.format_exc()[-400:]}')
            sig = dict(obligation=full, function=fname, path=trace, model=_model_str(model, 600))
            what = f'obligation {full} of {fname} (line {bad[2] or eng.fn.lineno}) is refuted on path [{trace}]'
            if repro is True:
                chk.violation(sig, what + '; counter-model reproduced on the real code', script)
            elif repro is False:
                k = chk.match_known(sig)
                if k is not None:
                    chk.known_hit(k, sig)
                else:
                    chk.undecide(full, f'spurious counter-model (does not reproduce on the real code): {_model_str(model, 300)}')
            else:
                if full in baseline or chk.match_known(sig) is not None:
                    body = f'# obligation: {full}\n# function: {fname}\n# path: {trace}\n# solver model:\n# ' + _model_str(model, 4000).replace('\n', '\n# ') + '\n'
                    chk.violation(sig, what + ' (discharged on the pinned tree; no concrete input constructed)', body, no_input=True)
                else:
                    chk.undecide(full, f'refuted, not in the baseline of discharged obligations, no replay: {_model_str(model, 300)}')
    # engine-vs-CPython cross-check of the symbolic semantics on this function
    try:
        for d in c.crosscheck(eng, paths, inp):
            chk.broke(f'pyvc disagrees with CPython on {fname}: {d}')
    except Exception:
        chk.broke(f'cross-check of {fname} crashed: {traceback.format_exc()[-600:]}')
    if n_reported == 0 and not any(pid in p for _, p, _ in c.lemmas()):
        chk.note(f'{fname}: no obligation for {pid}')


def run_lemmas(chk, c, pid, baseline):
    for name, props, claim in c.lemmas():
        if pid not in props:
            continue
        full = f'{pid}:{name}'
        r, be, dt, m = pyvc.discharge([], claim)
        if r == 'proved':
            chk.obligation(full, 'proved', be, dt, function='lemma', detail='spec-level lemma')
        elif r == 'refuted':
            chk.obligation(full, 'refuted', be, dt, function='lemma', detail=_model_str(m, 300))
            sig = dict(obligation=full, model=_model_str(m, 600))
            body = f'# lemma {full} over the contracts is refuted\n# model:\n# ' + _model_str(m, 4000).replace('\n', '\n# ') + '\n'
            if full in baseline:
                chk.violation(sig, f'lemma {full} over the contracts is refuted', body, no_input=True)
            else:
                chk.undecide(full, 'lemma refuted but never discharged on the pinned tree')
        else:
            chk.obligation(full, 'undecided', be, dt, function='lemma')
            chk.leave_open(full, 'solver limit')
