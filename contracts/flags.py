"""Contracts on the flag-algebra functions (bit-vector obligations, complete for all 64-bit flag words).

Clauses are taken from the property statements C07 (negation syntax), C17 (case / platform mode), C02/C01/C16/C14
(what each public entry point forces on or masks off).  Platform is symbolic: only `windows` (case-insensitive file
system) and `linux` (case-sensitive) are considered - macOS (osx, case-insensitive but Unix rules) is outside the
statement of C17 and is listed as an assumption.
"""
import z3

from vlib import pyvc
from vlib.pyvc import V, Int, Flags, Bool, Str, U, BV
from .base import Contract

WC = pyvc.consts_of('_wcparse')[0]
GL = pyvc.consts_of('glob')[0]
FN = pyvc.consts_of('fnmatch')[0]
PL = pyvc.consts_of('pathlib')[0]
WM = pyvc.consts_of('wcmatch')[0]


def bv(n):
    return z3.BitVecVal(n, BV)


def has(f, name):
    return (f & bv(WC[name])) != bv(0)


PLAT_WIN = z3.Bool('platform_is_windows')
CASE_FS = z3.Bool('fs_case_sensitive')
OS_NT = z3.Bool('os_name_is_nt')
PLATFORM_PRE = [PLAT_WIN == z3.Not(CASE_FS), OS_NT == PLAT_WIN]
PLATFORM_ASSUMPTION = ('platform is symbolic over {windows: case-insensitive FS, linux: case-sensitive FS}; macOS (osx) is outside the C17 statement; '
                       'os.name == "nt" iff util.platform() == "windows"')


def h_platform(eng, node, st, args):
    return Str(z3.If(PLAT_WIN, z3.StringVal('windows'), z3.StringVal('linux')))


def h_case_fs(eng, node, st, args):
    return Bool(CASE_FS)


PLATFORM_HOOKS = {'util.platform': h_platform, 'util.is_case_sensitive': h_case_fs}


# ------------------------------------------------------------------ spec functions (z3), from the statements
def native_cs(f):
    """case rule of the selected platform: forced Windows -> insensitive, forced Unix -> sensitive, else the host's"""
    return z3.And(z3.Not(has(f, 'FORCEWIN')), z3.Or(has(f, 'FORCEUNIX'), CASE_FS))


def S_get_case(f):
    return z3.Or(has(f, 'CASE'), z3.And(z3.Not(has(f, 'IGNORECASE')), native_cs(f)))


def S_is_unix_style(f):
    return z3.And(z3.Or(z3.Not(PLAT_WIN), z3.And(z3.Not(has(f, 'REALPATH')), has(f, 'FORCEUNIX'))), z3.Not(has(f, 'FORCEWIN')))


def cancel(f):
    both = z3.And(has(f, 'FORCEWIN'), has(f, 'FORCEUNIX'))
    return z3.If(both, f & ~bv(WC['FORCEWIN'] | WC['FORCEUNIX']), f)


def S_T_fnmatch(f):
    return cancel(f) & bv(FN['FLAG_MASK'])


def S_T_glob(f):
    g = (cancel(f) & bv(GL['FLAG_MASK'])) | bv(WC['PATHNAME'])
    real = has(g, 'REALPATH')
    win = (g & ~bv(WC['FORCEUNIX'])) | bv(WC['FORCEWIN'])
    nix = g & ~bv(WC['FORCEWIN'])
    return z3.If(real, z3.If(PLAT_WIN, win, nix), g)


def win_rules_in_force(f, realpath_host=False):
    """C17 'Windows rules are in force' as a function of the PUBLIC flag word: FORCEWIN and FORCEUNIX cancel; a
    remaining FORCEWIN forces them, a remaining FORCEUNIX excludes them, otherwise the host decides."""
    fw = z3.And(has(f, 'FORCEWIN'), z3.Not(has(f, 'FORCEUNIX')))
    fu = z3.And(has(f, 'FORCEUNIX'), z3.Not(has(f, 'FORCEWIN')))
    base = z3.Or(fw, z3.And(z3.Not(fu), PLAT_WIN))
    if realpath_host:
        return z3.If(has(f, 'REALPATH'), PLAT_WIN, base)
    return base


def _concrete_platform(model):
    win = z3.is_true(model.eval(PLAT_WIN, model_completion=True))
    return win


class _Patched:
    """patch util's platform constants for a concrete replay under CPython"""

    def __init__(self, win):
        self.win = win

    def __enter__(self):
        from wcmatch import util
        import os
        self.util, self.old = util, (util._PLATFORM, util.CASE_FS)
        util._PLATFORM = 'windows' if self.win else 'linux'
        util.CASE_FS = not self.win

    def __exit__(self, *a):
        self.util._PLATFORM, self.util.CASE_FS = self.old


class FlagFn(Contract):
    """A function of one flag word (plus symbolic platform) returning a flag word or a bool."""
    hooks = PLATFORM_HOOKS
    assumptions = (PLATFORM_ASSUMPTION, 'flag words: only bits below 2**64 can influence a tested bit (all flag constants are < 2**37)')
    returns = 'bv'
    real = None      # callable(flags:int) -> value, resolved lazily

    def inputs(self):
        self.f = z3.BitVec('flags', BV)
        return dict(params={'flags': Flags(self.f)}, pre=list(PLATFORM_PRE))

    def call_real(self, flags):
        raise NotImplementedError

    def crosscheck(self, eng, paths, inp):
        bad = []
        for st, oc in paths:
            s = z3.Solver()
            s.add(*st.pc)
            if s.check() != z3.sat:
                continue
            m = s.model()
            fl = m.eval(self.f, model_completion=True).as_long()
            with _Patched(_concrete_platform(m)):
                try:
                    real = self.call_real(fl)
                    real_exc = None
                except Exception as e:
                    real, real_exc = None, type(e).__name__
            if oc.kind == 'raise':
                if real_exc is None or not pyvc.isa(real_exc, oc.exc.split('.')[-1]):
                    bad.append(f'flags={fl:#x}: engine raises {oc.exc}, CPython {real_exc or real!r}')
                continue
            if real_exc is not None:
                bad.append(f'flags={fl:#x}: engine returns, CPython raises {real_exc}')
                continue
            sym = m.eval(oc.val.t, model_completion=True)
            symv = z3.is_true(sym) if oc.val.kind == 'bool' else sym.as_long()
            if symv != (bool(real) if oc.val.kind == 'bool' else int(real)):
                bad.append(f'flags={fl:#x} win={_concrete_platform(m)}: engine {symv!r}, CPython {real!r}')
        return bad

    def replay(self, name, model, inp):
        fl = model.eval(self.f, model_completion=True).as_long()
        win = _concrete_platform(model)
        script = (f"import sys; sys.path.insert(0, {pyvc.REPO!r})\nfrom wcmatch import util\n"
                  f"util._PLATFORM = {'windows' if win else 'linux'!r}; util.CASE_FS = {not win}\n"
                  f"from wcmatch import {self.module}\nflags = {fl:#x}\n"
                  f"print('obligation {name}: flags', hex(flags), 'platform', util._PLATFORM, '->', {self.replay_expr})\n"
                  f"sys.exit(1)   # the obligation {name} fails for this input (see DESIGN.md for the clause)\n")
        return script, self.reproduce(name, fl, win)

    replay_expr = 'None'

    def reproduce(self, name, fl, win):
        """Evaluate the clause concretely on the real code: True if it really fails there."""
        return None


class IsCaseSensitive(FlagFn):
    module, qual, props = '_wcparse', 'is_case_sensitive', ('C17',)
    replay_expr = '_wcparse.is_case_sensitive(flags)'

    def call_real(self, fl):
        from wcmatch import _wcparse
        return _wcparse.is_case_sensitive(fl)

    ensures = [('_wcparse.is_case_sensitive.native_rule', ('C17',), lambda c: c.ret.t == native_cs(c.p['flags'].t))]

    def reproduce(self, name, fl, win):
        with _Patched(win):
            got = self.call_real(fl)
        want = (not fl & WC['FORCEWIN']) and (bool(fl & WC['FORCEUNIX']) or (not win))
        return bool(got) != bool(want)


def h_is_case_sensitive(eng, node, st, args):
    r = z3.Bool(pyvc.fresh('is_case_sensitive'))
    st.pc.append(r == native_cs(args[0].t))        # callee replaced by its contract
    return Bool(r)


class GetCase(FlagFn):
    module, qual, props = '_wcparse', 'get_case', ('C17',)
    hooks = dict(PLATFORM_HOOKS, is_case_sensitive=h_is_case_sensitive)
    replay_expr = '_wcparse.get_case(flags)'

    def call_real(self, fl):
        from wcmatch import _wcparse
        return _wcparse.get_case(fl)

    ensures = [
        ('_wcparse.get_case.case_wins_else_ignorecase_else_native', ('C17',), lambda c: c.ret.t == S_get_case(c.p['flags'].t)),
        ('_wcparse.get_case.CASE_always_wins', ('C17',), lambda c: z3.Implies(has(c.p['flags'].t, 'CASE'), c.ret.t)),
    ]

    def reproduce(self, name, fl, win):
        with _Patched(win):
            got = self.call_real(fl)
        native = (not fl & WC['FORCEWIN']) and (bool(fl & WC['FORCEUNIX']) or (not win))
        want = bool(fl & WC['CASE']) or (not fl & WC['IGNORECASE'] and native)
        return bool(got) != bool(want)


class IsUnixStyle(FlagFn):
    module, qual, props = '_wcparse', 'is_unix_style', ('C17', 'C02')
    replay_expr = '_wcparse.is_unix_style(flags)'

    def call_real(self, fl):
        from wcmatch import _wcparse
        return _wcparse.is_unix_style(fl)

    ensures = [('_wcparse.is_unix_style.platform_rule', ('C17', 'C02'), lambda c: c.ret.t == S_is_unix_style(c.p['flags'].t))]

    def reproduce(self, name, fl, win):
        with _Patched(win):
            got = self.call_real(fl)
        want = ((not win) or (not fl & WC['REALPATH'] and bool(fl & WC['FORCEUNIX']))) and not fl & WC['FORCEWIN']
        return bool(got) != bool(want)


class NoNegateFlags(FlagFn):
    module, qual, props = '_wcparse', 'no_negate_flags', ('C07',)
    replay_expr = 'hex(_wcparse.no_negate_flags(flags))'

    def call_real(self, fl):
        from wcmatch import _wcparse
        return _wcparse.no_negate_flags(fl)

    ensures = [('_wcparse.no_negate_flags.clears_exactly_NEGATE_and_NEGATEALL', ('C07',),
                lambda c: c.ret.t == c.p['flags'].t & ~bv(WC['NEGATE'] | WC['NEGATEALL']))]

    def reproduce(self, name, fl, win):
        return self.call_real(fl) != fl & ~(WC['NEGATE'] | WC['NEGATEALL'])


class FnFlagTransform(FlagFn):
    module, qual, props = 'fnmatch', '_flag_transform', ('C01', 'C17')
    replay_expr = 'hex(fnmatch._flag_transform(flags))'

    def call_real(self, fl):
        from wcmatch import fnmatch
        return fnmatch._flag_transform(fl)

    ensures = [
        ('fnmatch._flag_transform.mask_and_cancel', ('C01', 'C17'), lambda c: c.ret.t == S_T_fnmatch(c.p['flags'].t)),
        ('fnmatch._flag_transform.never_PATHNAME_REALPATH_or_internal', ('C01',),
         lambda c: c.ret.t & ~bv(FN['FLAG_MASK']) == bv(0)),
        ('fnmatch._flag_transform.FORCEWIN_and_FORCEUNIX_cancel', ('C17',),
         lambda c: z3.Implies(z3.And(has(c.p['flags'].t, 'FORCEWIN'), has(c.p['flags'].t, 'FORCEUNIX')),
                              z3.And(z3.Not(has(c.ret.t, 'FORCEWIN')), z3.Not(has(c.ret.t, 'FORCEUNIX'))))),
    ]

    def reproduce(self, name, fl, win):
        got = self.call_real(fl)
        f2 = fl & ~(WC['FORCEWIN'] | WC['FORCEUNIX']) if (fl & WC['FORCEWIN'] and fl & WC['FORCEUNIX']) else fl
        return got != f2 & FN['FLAG_MASK']


class GlobFlagTransform(FlagFn):
    module, qual, props = 'glob', '_flag_transform', ('C02', 'C17')
    replay_expr = 'hex(glob._flag_transform(flags))'

    def call_real(self, fl):
        from wcmatch import glob
        return glob._flag_transform(fl)

    ensures = [
        ('glob._flag_transform.mask_cancel_force_PATHNAME_host_rules_under_REALPATH', ('C02', 'C17'), lambda c: c.ret.t == S_T_glob(c.p['flags'].t)),
        ('glob._flag_transform.PATHNAME_always_set', ('C02',), lambda c: has(c.ret.t, 'PATHNAME')),
        ('glob._flag_transform.keeps_every_public_bit', ('C02',),
         lambda c: (c.ret.t ^ c.p['flags'].t) & bv(GL['FLAG_MASK'] & ~(WC['FORCEWIN'] | WC['FORCEUNIX'])) == bv(0)),
        ('glob._flag_transform.FORCEWIN_and_FORCEUNIX_cancel', ('C17',),
         lambda c: z3.Implies(z3.And(has(c.p['flags'].t, 'FORCEWIN'), has(c.p['flags'].t, 'FORCEUNIX'), z3.Not(has(c.p['flags'].t, 'REALPATH'))),
                              z3.And(z3.Not(has(c.ret.t, 'FORCEWIN')), z3.Not(has(c.ret.t, 'FORCEUNIX'))))),
        ('glob._flag_transform.foreign_platform_bit_never_survives_REALPATH', ('C17', 'C02'),
         lambda c: z3.Implies(has(c.p['flags'].t, 'REALPATH'),
                              z3.If(PLAT_WIN, z3.And(has(c.ret.t, 'FORCEWIN'), z3.Not(has(c.ret.t, 'FORCEUNIX'))), z3.Not(has(c.ret.t, 'FORCEWIN'))))),
    ]

    def reproduce(self, name, fl, win):
        with _Patched(win):
            got = self.call_real(fl)
        f2 = fl & ~(WC['FORCEWIN'] | WC['FORCEUNIX']) if (fl & WC['FORCEWIN'] and fl & WC['FORCEUNIX']) else fl
        g = (f2 & GL['FLAG_MASK']) | WC['PATHNAME']
        if g & WC['REALPATH']:
            g = ((g & ~WC['FORCEUNIX']) | WC['FORCEWIN']) if win else (g & ~WC['FORCEWIN'])
        return got != g


class IsNegative(Contract):
    module, qual, props = '_wcparse', 'is_negative', ('C07',)
    assumptions = ('str and bytes patterns are distinct sorts (checked once for each)',)
    is_bytes = False

    def inputs(self):
        self.f = z3.BitVec('flags', BV)
        self.pat = z3.String('pattern')
        return dict(params={'pattern': Str(self.pat, is_bytes=self.is_bytes), 'flags': Flags(self.f)}, pre=[])

    @staticmethod
    def spec(pat, f):
        c0 = z3.SubString(pat, 0, 1)
        c1 = z3.SubString(pat, 1, 1)
        return z3.And(has(f, 'NEGATE'),
                      z3.If(has(f, 'MINUSNEGATE'), c0 == z3.StringVal('-'),
                            z3.And(c0 == z3.StringVal('!'), z3.Not(z3.And(has(f, 'EXTMATCH'), c1 == z3.StringVal('('))))))

    ensures = [('_wcparse.is_negative.negation_syntax', ('C07',), lambda c: c.ret.t == IsNegative.spec(c.p['pattern'].t, c.p['flags'].t))]

    def _conc(self, model):
        fl = model.eval(self.f, model_completion=True).as_long()
        p = model.eval(self.pat, model_completion=True).as_string()
        p = p.encode('latin-1', 'replace') if self.is_bytes else p
        return p, fl

    def crosscheck(self, eng, paths, inp):
        from wcmatch import _wcparse
        bad = []
        for st, oc in paths:
            s = z3.Solver()
            s.add(*st.pc)
            if s.check() != z3.sat or oc.kind != 'return':
                continue
            m = s.model()
            p, fl = self._conc(m)
            if z3.is_true(m.eval(oc.val.t, model_completion=True)) != bool(_wcparse.is_negative(p, fl)):
                bad.append(f'pattern={p!r} flags={fl:#x}')
        return bad

    def replay(self, name, model, inp):
        from wcmatch import _wcparse
        p, fl = self._conc(model)
        got = bool(_wcparse.is_negative(p, fl))
        c0, c1 = p[0:1], p[1:2]
        neg, minus, ext = bool(fl & WC['NEGATE']), bool(fl & WC['MINUSNEGATE']), bool(fl & WC['EXTMATCH'])
        bang, dash, paren = (b'!', b'-', b'(') if self.is_bytes else ('!', '-', '(')
        want = neg and ((c0 == dash) if minus else (c0 == bang and not (ext and c1 == paren)))
        script = (f"import sys; sys.path.insert(0, {pyvc.REPO!r})\nfrom wcmatch import _wcparse\n"
                  f"got = _wcparse.is_negative({p!r}, {fl:#x})\nprint('is_negative ->', got, 'the C07 negation syntax demands', {want!r})\n"
                  f"sys.exit(0 if bool(got) == {want!r} else 1)\n")
        return script, got != want


class IsNegativeBytes(IsNegative):
    is_bytes = True
    ensures = [('_wcparse.is_negative.negation_syntax[bytes]', ('C07',), lambda c: c.ret.t == IsNegative.spec(c.p['pattern'].t, c.p['flags'].t))]


class PathlibTranslateFlags(Contract):
    """PurePath._translate_flags: class membership is symbolic (pure Windows / pure Posix), os.name symbolic."""
    module, qual, props = 'pathlib', 'PurePath._translate_flags', ('C16', 'C17')
    assumptions = (PLATFORM_ASSUMPTION, 'a path object is an instance of exactly one of PureWindowsPath / PurePosixPath')
    IS_WIN_CLS = z3.Bool('self_is_PureWindowsPath')

    def inputs(self):
        self.f = z3.BitVec('flags', BV)
        return dict(params={'flags': Flags(self.f), 'self': pyvc.ObjV(z3.Const('self', pyvc.Obj))}, pre=list(PLATFORM_PRE))

    def _isinstance(eng, node, st, args):
        cls = ast_name(node.args[1])
        if cls == 'PureWindowsPath':
            return Bool(PathlibTranslateFlags.IS_WIN_CLS)
        if cls == 'PurePosixPath':
            return Bool(z3.Not(PathlibTranslateFlags.IS_WIN_CLS))
        raise pyvc.Unsupported('isinstance ' + cls)

    hooks = {'isinstance': _isinstance, 'os.name': lambda eng, node, st, args: Str(z3.If(OS_NT, z3.StringVal('nt'), z3.StringVal('posix')))}
    allowed_raises = ('ValueError',)

    @staticmethod
    def spec(f, iswin):
        g = (f & bv(PL['FLAG_MASK'])) | bv(WC['PATHNAME'])
        return g | z3.If(iswin, bv(WC['FORCEWIN']), bv(WC['FORCEUNIX']))

    ensures = [
        ('pathlib._translate_flags.class_fixes_platform_user_force_bits_ignored', ('C16', 'C17'),
         lambda c: c.ret.t == PathlibTranslateFlags.spec(c.p['flags'].t, PathlibTranslateFlags.IS_WIN_CLS)),
        ('pathlib._translate_flags.returns_only_if_not_REALPATH_on_foreign_class', ('C16',),
         lambda c: z3.Not(z3.And(has(c.p['flags'].t, 'REALPATH'), PathlibTranslateFlags.IS_WIN_CLS != OS_NT))),
    ]
    exc_ensures = [
        ('pathlib._translate_flags.ValueError_only_for_REALPATH_on_foreign_class', ('C16',),
         lambda c: z3.And(has(c.p['flags'].t, 'REALPATH'), PathlibTranslateFlags.IS_WIN_CLS != OS_NT)),
    ]


def ast_name(n):
    import ast
    return ast.unparse(n)


_WM_FIELD = {'SYMLINKS': 'follow_links', 'HIDDEN': 'show_hidden', 'RECURSIVE': 'recursive', 'DIRPATHNAME': 'dir_pathname',
             'FILEPATHNAME': 'file_pathname', 'MATCHBASE': 'matchbase'}


def _wm_bit(name):
    return lambda c: c.st.fields[_WM_FIELD[name]].t == ((c.p['flags'].t & bv(WM[name])) != bv(0))


_WM_BITS = [(f'wcmatch._parse_flags.{n}_bit', ('C14',) if n != 'SYMLINKS' else ('C14', 'C06'), _wm_bit(n)) for n in _WM_FIELD]


class WcMatchParseFlags(Contract):
    module, qual, props = 'wcmatch', 'WcMatch._parse_flags', ('C14', 'C17')
    hooks = PLATFORM_HOOKS
    assumptions = (PLATFORM_ASSUMPTION,)

    def inputs(self):
        self.f = z3.BitVec('flags', BV)
        return dict(params={'flags': Flags(self.f), 'self': pyvc.ObjV(z3.Const('self', pyvc.Obj))}, fields={}, pre=list(PLATFORM_PRE))

    @staticmethod
    def spec(f):
        forced = WC['NEGATE'] | WC['DOTMATCH'] | WC['NEGATEALL'] | WC['SPLIT']
        g = (f & bv(WM['FLAG_MASK'])) | bv(forced)
        g = z3.If(PLAT_WIN, g | bv(WC['FORCEWIN']), g)
        return g & bv(WC['FLAG_MASK'] & ~WC['MATCHBASE'])

    ensures = [
        ('wcmatch._parse_flags.forces_NEGATE_DOTMATCH_NEGATEALL_SPLIT_masks_rest', ('C14',), lambda c: c.st.fields['flags'].t == WcMatchParseFlags.spec(c.p['flags'].t)),
        ('wcmatch._parse_flags.dotmatch_and_split_and_negation_always_on', ('C14',),
         lambda c: c.st.fields['flags'].t & bv(WC['NEGATE'] | WC['DOTMATCH'] | WC['NEGATEALL'] | WC['SPLIT']) == bv(WC['NEGATE'] | WC['DOTMATCH'] | WC['NEGATEALL'] | WC['SPLIT'])),
    ] + _WM_BITS


class Lemmas(Contract):
    """Statement-level clauses of C17 proved over the contract postconditions above (not over the bodies)."""
    props = ('C17',)

    def lemmas(self):
        f = z3.BitVec('flags', BV)
        pre = z3.And(*PLATFORM_PRE)
        out = []
        for api, T, host in (('fnmatch', S_T_fnmatch, False), ('glob', S_T_glob, True)):
            t = T(f)
            insens = z3.Not(S_get_case(t))
            stmt = z3.And(z3.Not(has(f, 'CASE')), z3.Or(has(f, 'IGNORECASE'), win_rules_in_force(f, host)))
            out.append((f'C17.lemma.{api}.insensitive_iff_IGNORECASE_or_windows_rules_without_CASE', ('C17',), z3.Implies(pre, insens == stmt)))
            out.append((f'C17.lemma.{api}.CASE_wins', ('C17',), z3.Implies(z3.And(pre, has(f, 'CASE')), S_get_case(t))))
            both = bv(WC['FORCEWIN'] | WC['FORCEUNIX'])
            out.append((f'C17.lemma.{api}.FORCEWIN_plus_FORCEUNIX_is_neither', ('C17',),
                        z3.Implies(z3.And(pre, z3.Not(has(f, 'REALPATH')) if host else z3.BoolVal(True)),
                                   z3.And(S_get_case(T(f | both)) == S_get_case(T(f & ~both)),
                                          S_is_unix_style(T(f | both)) == S_is_unix_style(T(f & ~both))))))
            out.append((f'C17.lemma.{api}.unix_style_iff_not_windows_rules', ('C17',),
                        z3.Implies(pre, S_is_unix_style(t) == z3.Not(win_rules_in_force(f, host)))))
        return out


ALL = [IsCaseSensitive(), GetCase(), IsUnixStyle(), NoNegateFlags(), FnFlagTransform(), GlobFlagTransform(), IsNegative(), IsNegativeBytes(),
       PathlibTranslateFlags(), WcMatchParseFlags(), Lemmas()]


# ------------------------------------------------------------------ concrete spec functions for the CPython cross-checks
class spec_callees:
    """Context manager: while a REAL constructor is run for an engine-vs-CPython cross-check, the callees that the contract replaces by
    their SPEC are replaced by that same spec evaluated concretely (host platform: Linux, case-sensitive) - so a callee that breaks its
    own contract shows up in its own contract, not as a disagreement between pyvc and CPython in the caller."""
    HOST = [(PLAT_WIN, z3.BoolVal(False)), (CASE_FS, z3.BoolVal(True)), (OS_NT, z3.BoolVal(False))]

    @classmethod
    def _bool(cls, spec):
        return lambda f: z3.is_true(z3.simplify(z3.substitute(spec(bv(f & ((1 << BV) - 1))), *cls.HOST)))

    @classmethod
    def _word(cls, spec):
        return lambda f: z3.simplify(z3.substitute(spec(bv(f & ((1 << BV) - 1))), *cls.HOST)).as_long()

    def __enter__(self):
        from wcmatch import _wcparse, glob
        self.saved = [(_wcparse, 'get_case', _wcparse.get_case), (_wcparse, 'is_unix_style', _wcparse.is_unix_style), (_wcparse, 'no_negate_flags', _wcparse.no_negate_flags),
                      (glob, '_flag_transform', glob._flag_transform)]
        _wcparse.get_case = self._bool(S_get_case)
        _wcparse.is_unix_style = self._bool(S_is_unix_style)
        _wcparse.no_negate_flags = self._word(lambda f: f & ~bv(WC['NEGATE'] | WC['NEGATEALL']))
        glob._flag_transform = self._word(S_T_glob)
        return self

    def __exit__(self, *a):
        for mod, name, fn in self.saved:
            setattr(mod, name, fn)
        return False


class FlagMasks(Contract):
    """Every public flag a module exports and the properties speak about survives that module's FLAG_MASK (a flag that is silently masked
    off is ignored by every entry point).  The expected sets are written down here from the documentation, not read from the code."""
    props = ('C01', 'C02', 'C14', 'C16', 'C17', 'C20', 'C07', 'C08', 'C03')
    EXPECT = {
        'fnmatch': ('BRACE CASE DOTMATCH EXTMATCH FORCEUNIX FORCEWIN IGNORECASE MINUSNEGATE NEGATE NEGATEALL RAWCHARS SPLIT', ('C01', 'C17', 'C20', 'C07')),
        'glob': ('BRACE CASE DOTGLOB DOTMATCH EXTGLOB EXTMATCH FOLLOW FORCEUNIX FORCEWIN GLOBSTAR GLOBSTARLONG GLOBTILDE IGNORECASE MATCHBASE MINUSNEGATE NEGATE NEGATEALL NODIR '
                 'NODOTDIR NOUNIQUE RAWCHARS REALPATH SPLIT', ('C02', 'C17', 'C20', 'C07', 'C03')),
        'pathlib': ('BRACE CASE DOTGLOB DOTMATCH EXTGLOB EXTMATCH FOLLOW GLOBSTAR GLOBSTARLONG IGNORECASE MATCHBASE MINUSNEGATE NEGATE NEGATEALL NODIR NODOTDIR NOUNIQUE RAWCHARS '
                    'REALPATH SPLIT', ('C16', 'C17', 'C20', 'C03')),
        'wcmatch': ('BRACE CASE DIRPATHNAME EXTMATCH FILEPATHNAME GLOBSTAR HIDDEN IGNORECASE MATCHBASE MINUSNEGATE RAWCHARS RECURSIVE SYMLINKS', ('C14', 'C17', 'C20')),
    }

    def lemmas(self):
        import importlib
        out = []
        for mod, (names, props) in self.EXPECT.items():
            m = importlib.import_module('wcmatch.' + mod)
            missing = [n for n in names.split() if not hasattr(m, n) or not isinstance(getattr(m, n), int) or getattr(m, n) == 0 or (getattr(m, n) & ~m.FLAG_MASK)]
            out.append((f'{mod}.FLAG_MASK_keeps_every_public_flag_of_the_module', props, z3.BoolVal(not missing)))
        return out


ALL.append(FlagMasks())
