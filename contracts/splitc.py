"""Contract on glob._GlobSplit.split - the epilogue that adds the implicit recursive prefix (MATCHBASE / rglob) and rejects absolute
patterns for pathlib; the character scanner in the middle is abstract (trivial invariants; its pieces are the C05 harness's business)."""
import ast

import z3

from vlib import pyvc
from vlib.pyvc import V, Int, Bool, Str, U, ObjV, Obj, NONE, Fork, Outcome, AbstractIter
from .base import Contract

SPLIT = z3.Function('split_at_k', z3.IntSort(), z3.IntSort())
OFF = z3.Function('split_offset_k', z3.IntSort(), z3.IntSort())


def selfobj():
    return ObjV(z3.Const('self', Obj))


class GlobSplitSplit(Contract):
    module, qual, props = 'glob', '_GlobSplit.split', ('C02', 'C04', 'C05', 'C06', 'C16')
    assumptions = ('the character scanner (first loop) and store() are abstract: after them `parts` is an arbitrary non-empty list of parts; store() has its own contract',
                   'parts[0] before the epilogue is referred to through uninterpreted attribute functions of the list')
    mutates = {'self.store': [1]}
    allowed_raises = ('ValueError',)

    def inputs(self):
        self.PAT = z3.String('pattern')
        self.is_bytes = z3.Bool('pattern_is_bytes')
        b = lambda n: Bool(z3.Bool('self_' + n))      # noqa: E731
        self.f = {n: z3.Bool('self_' + n) for n in ('extend', 'win_drive_detect', 'bslash_abort', 'extmatchbase', 'matchbase', 'globstarlong', 'follow', 'no_abs')}
        fields = {n: Bool(v) for n, v in self.f.items()}
        fields['pattern'] = Str(self.PAT)
        return dict(params=dict(self=selfobj()), fields=fields, pre=[], ghost={'$inserted': None, '$replaced': None, '$parts_before': None})

    # parts[0] of a list value as the code reads it
    @staticmethod
    def P0(parts, attr):
        return pyvc.truthy(U('attr.' + attr, U('getitem', ObjV(pyvc.to_obj(parts)), Int(0))))

    def prefix_wanted(self, parts, st, lower=False):
        """when the implicit prefix is due.  Upper bound (necessity): rglob without drive, or MATCHBASE with a single part and no separator at all;
        lower bound (sufficiency): additionally the part is not dir_only - a conjunct that is implied by "no separator" through store() (dir_only is set
        only for values cut at a separator) but not visible here because the scanner is abstract; code may or may not test it."""
        f = self.f
        mb = z3.And(f['matchbase'], parts.a['length'] == 1, st.env['split_index'].a['length'] == 0)
        if lower:
            mb = z3.And(mb, z3.Not(self.P0(parts, 'dir_only')))
        return z3.Or(z3.And(f['extmatchbase'], z3.Not(self.P0(parts, 'is_drive'))), mb)

    def long_prefix(self):
        return z3.And(self.f['globstarlong'], self.f['follow'])

    @property
    def hooks(self):
        me = self

        def h_isinstance(eng, node, st, args):
            return Bool(me.is_bytes)

        def codec_ok(eng, node, st, args, what):
            # bytes patterns are Latin-1 code units (C18): every decode/encode in the splitter names that codec
            a = node.args[0] if getattr(node, 'args', None) else None
            ok = isinstance(a, ast.Constant) and a.value == 'latin-1'
            eng.oblige(f'_GlobSplit.split.bytes_patterns_are_{what}d_as_latin-1', st, z3.BoolVal(bool(ok)), node)

        def h_decode(eng, node, st, args):
            codec_ok(eng, node, st, args, 'decode')
            return Str(me.PAT)

        def h_encode(eng, node, st, args):
            codec_ok(eng, node, st, args, 'encode')
            return ObjV(z3.Const(pyvc.fresh('encoded'), Obj))

        def h_iter(eng, node, st, args):
            return ObjV(z3.Const('string_iter', Obj))

        def h_drive(eng, node, st, args):
            return V('tuple', None, items=[Bool(z3.Bool('root_specified')), V('opt', None, isnone=z3.Bool('drive_is_None'), inner=Str(z3.String('drive'))),
                                           Bool(z3.Bool('drive_slash')), Int(z3.Int('drive_end'))])

        def h_none(eng, node, st, args):
            return NONE

        def h_part(eng, node, st, args):
            return V('tuple', None, items=list(args))

        def h_bool(name):
            return lambda eng, node, st, args: Bool(z3.Bool(pyvc.fresh(name)))

        def h_scan(name):
            # the scanner helpers are abstract values here; their StopIteration exits only rewind the (abstract) iterator and are
            # not modelled (this contract is about the epilogue; it keeps the path count down)
            def h(eng, node, st, args):
                return ObjV(z3.Const(pyvc.fresh(name + '_value'), Obj))
            return h

        def h_index(eng, node, st, args):
            return Int(z3.Int(pyvc.fresh('iter_index')))

        def h_insert(eng, node, st, args):
            parts = st.env['parts']
            idx, part = args
            ok = z3.BoolVal(False)
            if part.kind == 'tuple' and len(part.a['items']) == 6:
                pat, magic, gs, gsl, donly, drive = part.a['items']
                lp = me.long_prefix()
                star3 = z3.Or(pyvc.eq(pat, Str('***')), pyvc.eq(pat, Str('***', is_bytes=True)))
                star2 = z3.Or(pyvc.eq(pat, Str('**')), pyvc.eq(pat, Str('**', is_bytes=True)))
                ok = z3.And(idx.t == 0, me.prefix_wanted(parts, st), z3.Not(me.P0(parts, 'is_globstar')), z3.If(lp, star3, star2),
                            pyvc.truthy(magic), pyvc.truthy(gs), pyvc.truthy(gsl) == lp, pyvc.truthy(donly), z3.Not(pyvc.truthy(drive)))
            eng.oblige('_GlobSplit.split.implicit_prefix_inserted_only_for_rglob_(no_drive)_or_MATCHBASE_(one_part,_no_separator_at_all)_as_**_or_***_iff_GLOBSTARLONG_and_FOLLOW', st, ok, node)
            st.ghost['$inserted'] = True
            st.ghost['$parts_before'] = parts
            return NONE

        def h_setitem(eng, target, st, val):
            parts = st.env['parts']
            ok = z3.BoolVal(False)
            if val.kind == 'tuple' and len(val.a['items']) == 6 and eng.dotted(target.value) == 'parts':
                pat, magic, gs, gsl, donly, drive = val.a['items']
                idx = eng.ev(target.slice, st)
                ok = z3.And(idx.t == 0, me.prefix_wanted(parts, st), me.P0(parts, 'is_globstar'), me.long_prefix(), z3.Not(me.P0(parts, 'is_globstarlong')),
                            z3.Or(pyvc.eq(pat, Str('***')), pyvc.eq(pat, Str('***', is_bytes=True))), pyvc.truthy(magic), pyvc.truthy(gs), pyvc.truthy(gsl),
                            pyvc.truthy(donly) == me.P0(parts, 'dir_only'), z3.Not(pyvc.truthy(drive)))
            eng.oblige('_GlobSplit.split.a_leading_**_is_absorbed_into_the_implicit_***_only_under_GLOBSTARLONG_and_FOLLOW_keeping_its_dir_only', st, ok, target)
            st.ghost['$replaced'] = True
            st.ghost['$parts_before'] = parts
        return {'isinstance': h_isinstance, 'self.pattern.decode': h_decode, 'util.StringIter': h_iter, '_wcparse._get_win_drive': h_drive, 'i.advance': h_none, 'i.rewind': h_none,
                '_GlobPart': h_part, 'self.parse_extend': h_bool('parse_extend'), 'self._references': h_scan('references'), 'self._sequence': h_scan('sequence'),
                'i.index': h_index, 'self.store': h_none, 'parts.insert': h_insert, 'setitem': h_setitem, 'drive.encode': h_encode, 'value.encode': h_encode,
                'pattern.encode': h_encode, '_wcparse.EXT_TYPES': lambda eng, node, st, args: ObjV(z3.Const('EXT_TYPES', Obj))}

    @property
    def iters(self):
        def it1(eng, node, st):
            n = z3.Int('n_chars')
            st.pc.append(n >= 0)
            f = z3.Function('char_k', z3.IntSort(), Obj)
            return AbstractIter(n, lambda k: ObjV(f(k)))

        def it2(eng, node, st):
            n = z3.Int('n_splits')
            st.pc.append(n >= 0)
            return AbstractIter(n, lambda k: V('tuple', None, items=[Int(SPLIT(k)), Int(OFF(k))]))
        return {1: it1, 2: it2}

    @property
    def invariants(self):
        return {1: ('i', lambda st, k: z3.BoolVal(True)), 2: ('split_index', lambda st, k: z3.BoolVal(True))}

    @property
    def ensures(self):
        me = self

        def complete(c):
            g = c.st.ghost
            if g['$inserted'] or g['$replaced']:
                return z3.BoolVal(True)          # necessity was an obligation at the site
            parts = c.st.env['parts']
            return z3.Not(z3.And(me.prefix_wanted(parts, c.st, lower=True), z3.Or(z3.Not(me.P0(parts, 'is_globstar')), z3.And(me.long_prefix(), z3.Not(me.P0(parts, 'is_globstarlong'))))))

        def no_abs(c):
            parts = c.st.env['parts'] if not (c.st.ghost['$inserted']) else None
            if parts is None:
                return z3.BoolVal(True)
            return z3.Not(z3.And(me.f['no_abs'], parts.a['length'] > 0, me.P0(parts, 'is_drive')))
        return [('_GlobSplit.split.implicit_prefix_added_whenever_rglob/MATCHBASE_ask_for_it', ('C02', 'C16', 'C05'), complete),
                ('_GlobSplit.split.returns_only_relative_patterns_under__NOABSOLUTE', ('C16',), no_abs)]

    @property
    def exc_ensures(self):
        me = self
        return [('_GlobSplit.split.ValueError_only_for_a_drive/root_pattern_under__NOABSOLUTE', ('C16',),
                 lambda c: z3.Implies(z3.BoolVal(pyvc.isa(c.exc, 'ValueError')), me.f['no_abs']))]

    obligation_props = {'_GlobSplit.split.implicit_prefix_inserted': ('C02', 'C04', 'C05', 'C16'), '_GlobSplit.split.a_leading': ('C06', 'C16', 'C04'),
                        '_GlobSplit.split.loop': ('C05',), '_GlobSplit.split.bytes_patterns': ('C18',)}


ALL = [GlobSplitSplit()]
