"""Contract on _wcmatch._Match._fs_match - the symlink rule of C06 as globmatch(REALPATH) applies it (C04).

Abstract view (ghost functions; the `re` match object, the path splitter and the file system are abstract):
  FM            pattern.fullmatch(filename) succeeded
  G             number of capture groups (one per `**` of the pattern, by the compiler's contract)
  STARNE(i)     group i+1 captured a non-empty text        START(i) / END(i)  its span (1-based group numbers as in the code)
  NP(i) >= 1    number of path components of that text,    PART(i, j) component j
  B(i, j)       root / filename[:START(i+1)] / PART(i,0) / ... / PART(i,j)      (B(i,-1) is the prefix; defined where used)
  ISLINK(p)     the file system says p is a symbolic link (os.path.islink, or lstat + S_ISLNK in the dir_fd branch; a failing
                lstat means "not a link" as in the code)
  CHECK(i, j)   the component must be a real directory:  not at_end(i)  or  j is not the last component,
                at_end(i) := END(i+1) >= len(filename) - 1   (a symlink that is the final thing `**` matched is a result)
Postcondition:  result  <=>  FM and (follow or for all i < G: STARNE(i) => for all j < NP(i): CHECK(i,j) => not ISLINK(B(i,j)))
Cache: every value stored under (dir_fd, base) is ISLINK(base); values read from the cache are assumed to be that (frame: the
cache is written only here - C19 frame scan)."""
import z3

from vlib import pyvc
from vlib.pyvc import V, Int, Bool, Str, U, ObjV, Obj, NONE, Fork, Outcome, AbstractIter
from .base import Contract

I = z3.IntSort()
STAR = z3.Function('star_i', I, Obj)
START = z3.Function('group_start', I, I)
END = z3.Function('group_end', I, I)
NP = z3.Function('n_parts', I, I)
PART = z3.Function('part_ij', I, I, Obj)
B = z3.Function('base_ij', I, I, Obj)
ISLINK = z3.Function('fs_islink', Obj, z3.BoolSort())
S_ISLNK = z3.Function('S_ISLNK', Obj, z3.BoolSort())


def selfobj():
    return ObjV(z3.Const('self', Obj))


class FsMatch(Contract):
    module, qual, props = '_wcmatch', '_Match._fs_match', ('C04', 'C06', 'C19')
    assumptions = (
        're: pattern.fullmatch / m.groups / m.start / m.end and the RE_SPLIT / RE_STRIP splitters are abstract (ghost functions FM, G, STAR, START, END, NP, PART)',
        'os.path.islink / os.lstat tell the truth about an unchanging file system (ISLINK); values already in the symlink cache equal ISLINK of their key',
        'os.path.join is an uninterpreted pure function',
    )
    forking = ('os.lstat',)

    def inputs(self):
        self.fname = z3.String('filename')
        self.follow = z3.Bool('follow')
        self.FM = z3.Bool('fullmatch_succeeds')
        self.G = z3.Int('n_groups')
        self.m = ObjV(z3.Const('m', Obj))
        self.m.a['truth'] = z3.BoolVal(True)            # a match object is truthy
        self.dir_fd = V('opt', None, isnone=z3.Bool('dir_fd_is_None'), inner=ObjV(z3.Const('dir_fd', Obj)))
        params = dict(self=selfobj(), pattern=ObjV(z3.Const('pattern', Obj)), filename=Str(self.fname), is_win=Bool(z3.Bool('is_win')),
                      follow=Bool(self.follow), symlinks=ObjV(z3.Const('symlinks', Obj)), root=ObjV(z3.Const('root', Obj)), dir_fd=self.dir_fd)
        return dict(params=params, fields=dict(ptype=Int(z3.Int('ptype'))), pre=[self.G >= 0], ghost={})

    # ---- spec
    def at_end(self, i):
        return END(i + 1) >= z3.Length(self.fname) - 1

    def check(self, i, j):
        return z3.Or(z3.Not(self.at_end(i)), j + 1 != NP(i))

    def ok_part(self, i, j):
        return z3.Implies(self.check(i, j), z3.Not(ISLINK(B(i, j))))

    def ok_group(self, i, upto=None):
        j = z3.Int(pyvc.fresh('j!q'))
        return z3.Implies(pyvc.truth_term(STAR(i)), z3.ForAll([j], z3.Implies(z3.And(j >= 0, j < (NP(i) if upto is None else upto)), self.ok_part(i, j))))

    def spec(self):
        i = z3.Int(pyvc.fresh('i!q'))
        return z3.And(self.FM, z3.Or(self.follow, z3.ForAll([i], z3.Implies(z3.And(i >= 0, i < self.G), self.ok_group(i)))))

    # ---- hooks
    @property
    def hooks(self):
        me = self

        def const(name):
            return lambda eng, node, st, args: ObjV(z3.Const(name, Obj))

        def h_fullmatch(eng, node, st, args):
            eng.oblige('_Match._fs_match.the_WHOLE_name_is_matched_(fullmatch_of_the_given_filename)', st,
                       z3.And(z3.BoolVal(len(args) == 1), args[0].t == me.fname if args and args[0].kind == 'str' else z3.BoolVal(False)), node)
            return V('opt', None, isnone=z3.Not(me.FM), inner=me.m)

        def h_start(eng, node, st, args):
            return Int(START(args[0].t))

        def h_end(eng, node, st, args):
            return Int(END(args[0].t))

        def h_strip(eng, node, st, args):
            return U('strip', st.env['star'], args[0])

        def h_split(eng, node, st, args):
            k = st.ghost['$k1']
            # the captured text is cut at the separators of the platform rule in force - a backslash is an ordinary character of a POSIX name
            isw = pyvc.truthy(st.env['is_win'])
            def table(win, nix):
                return U('getitem', ObjV(z3.If(isw, z3.Const(win, Obj), z3.Const(nix, Obj))), st.fields['ptype'])
            eng.oblige('_Match._fs_match.captured_text_is_cut_with_the_separator_tables_of_the_platform_rule_in_force_(is_win)', st,
                       z3.And(pyvc.eq(st.env['split'], table('RE_WIN_SPLIT', 'RE_SPLIT')), pyvc.eq(st.env['strip'], table('RE_WIN_STRIP', 'RE_STRIP'))), node)
            eng.oblige('_Match._fs_match.components_are_those_of_the_captured_text_of_the_current_group', st,
                       pyvc.eq(args[0], U('strip', ObjV(STAR(k)), st.env['strip'])), node)
            return V('list', None, length=NP(k), elem=lambda j: ObjV(PART(k, j)))

        def h_join(eng, node, st, args):
            return U('join', *args)

        def h_get(eng, node, st, args):
            key = args[0]
            base = st.env['base']
            eng.oblige('_Match._fs_match.cache_key_is_(dir_fd,base)', st, pyvc.eq(key, V('tuple', None, items=[st.env['dir_fd'], base])), node)
            return V('opt', None, isnone=z3.Bool(pyvc.fresh('not_cached')), inner=Bool(ISLINK(pyvc.to_obj(base))))

        def h_islink(eng, node, st, args):
            return Bool(ISLINK(pyvc.to_obj(args[0])))

        def h_lstat(eng, node, st, args):
            ok = z3.Bool(pyvc.fresh('lstat_ok'))
            sobj = ObjV(z3.Const(pyvc.fresh('st'), Obj))
            base = pyvc.to_obj(args[0])

            def good(s2):
                s2.pc.append(ISLINK(base) == S_ISLNK(U('attr.st_mode', sobj).t))

            def bad(s2):
                s2.pc.append(z3.Not(ISLINK(base)))          # a failing lstat counts as "not a link" (definition of ISLINK in this branch)
            return Fork([(ok, sobj, good), (z3.Not(ok), Outcome('raise', exc='OSError'), bad)])

        def h_sislnk(eng, node, st, args):
            return Bool(S_ISLNK(pyvc.to_obj(args[0])))

        def h_setitem(eng, target, st, val):
            key = eng.ev(target.slice, st)
            base = st.env['base']
            eng.oblige('_Match._fs_match.cache_stores_ISLINK(base)_under_(dir_fd,base)', st,
                       z3.And(pyvc.eq(key, V('tuple', None, items=[st.env['dir_fd'], base])), pyvc.truthy(val) == ISLINK(pyvc.to_obj(base))), target)
        return {'RE_WIN_SPLIT': const('RE_WIN_SPLIT'), 'RE_SPLIT': const('RE_SPLIT'), 'RE_WIN_STRIP': const('RE_WIN_STRIP'), 'RE_STRIP': const('RE_STRIP'),
                'pattern.fullmatch': h_fullmatch, 'm.start': h_start, 'm.end': h_end, 'star.strip': h_strip, 'split.split': h_split,
                'os.path.join': h_join, 'symlinks.get': h_get, 'os.path.islink': h_islink, 'os.lstat': h_lstat, 'stat.S_ISLNK': h_sislnk, 'setitem': h_setitem}

    # ---- loops
    @property
    def iters(self):
        me = self

        def it1(eng, node, st):
            return AbstractIter(me.G, lambda k: V('tuple', None, items=[Int(k + 1), ObjV(STAR(k))]))

        def it2(eng, node, st):
            k = st.ghost['$k1']
            return AbstractIter(NP(k), lambda j: V('tuple', None, items=[Int(j + 1), ObjV(PART(k, j))]))
        return {1: it1, 2: it2}

    @property
    def invariants(self):
        me = self

        def inv1(st, k):
            i = z3.Int(pyvc.fresh('i!inv'))
            return z3.And(pyvc.truthy(st.env['matched']), z3.ForAll([i], z3.Implies(z3.And(i >= 0, i < k), me.ok_group(i))))

        def inv2(st, j):
            k = st.ghost['$k1']
            jj = z3.Int(pyvc.fresh('j!inv'))
            return z3.And(pyvc.truthy(st.env['matched']), pyvc.to_obj(st.env['base']) == B(k, j - 1),
                          z3.ForAll([jj], z3.Implies(z3.And(jj >= 0, jj < j), me.ok_part(k, jj))),
                          st.env['last_part'].t == NP(k), pyvc.truthy(st.env['at_end']) == me.at_end(k))
        return {1: ('enumerate(m.groups(), 1)', inv1), 2: ('enumerate(parts, 1)', inv2)}

    @property
    def axioms_at(self):
        def ax1(st, k):
            return [NP(k) >= 1]

        def ax2(st, j):
            k = st.ghost['$k1']
            return [B(k, j) == U('join', ObjV(B(k, j - 1)), ObjV(PART(k, j))).t]
        return {1: ax1, 2: ax2}

    @property
    def on_entry(self):
        def e2(eng, st, node):
            # definition of the prefix B(i,-1): what the code joined from root and the text before the group
            k = st.ghost['$k1']
            want = U('join', st.env['root'], Str(z3.SubString(z3.String('filename'), 0, z3.If(START(k + 1) < 0, z3.If(z3.Length(z3.String('filename')) + START(k + 1) < 0, 0, z3.Length(z3.String('filename')) + START(k + 1)),
                                                                                           z3.If(START(k + 1) > z3.Length(z3.String('filename')), z3.Length(z3.String('filename')), START(k + 1))))))
            eng.oblige('_Match._fs_match.walk_of_a_group_starts_at_root/filename[:start_of_the_group]', st, pyvc.eq(st.env['base'], want), node)
            st.pc.append(B(k, -1) == want.t)
        return {2: e2}

    @property
    def ensures(self):
        me = self
        return [('_Match._fs_match.true_iff_fullmatch_and_no_symlink_at_a_checked_position_of_any_**_capture_(unless_follow)', ('C04', 'C06'),
                 lambda c: pyvc.truthy(c.ret) == me.spec())]

    obligation_props = {'_Match._fs_match.cache': ('C19', 'C04'), '_Match._fs_match.loop': ('C04', 'C06'), '_Match._fs_match.the_WHOLE': ('C04', 'C01'),
                        '_Match._fs_match.components': ('C04', 'C06'), '_Match._fs_match.captured_text': ('C04', 'C06', 'C17'), '_Match._fs_match.walk_of': ('C04', 'C06')}


ALL = [FsMatch()]
