#!/bin/sh
# Build the one interpreter the checks use: /verif/.venv = /venv's python 3.12 + z3-solver (offline wheel)
# + a .pth that exposes /venv's site-packages (bracex, pytest).  Idempotent; offline.
set -e
cd "$(dirname "$0")"
if [ ! -x .venv/bin/python ] || ! .venv/bin/python -c 'import z3, bracex' 2>/dev/null; then
  rm -rf .venv
  /venv/bin/python -m venv .venv
  PIP_NO_INDEX=1 .venv/bin/python -m pip install -q --no-index --find-links /opt/veriftools/wheels z3-solver jsonschema >/dev/null
  SP=$(.venv/bin/python -c 'import sysconfig; print(sysconfig.get_paths()["purelib"])')
  echo "import site; site.addsitedir('/venv/lib/python3.12/site-packages')" > "$SP/zz_venv.pth"
fi
.venv/bin/python -c 'import z3, bracex, sys; sys.path.insert(0, "/repo"); import wcmatch; print("setup ok: z3", z3.get_version_string(), "bracex", bracex.__version__, "wcmatch", wcmatch.__file__)'
