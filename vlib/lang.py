"""Language obligations: `must <= Lang(impl) <= may` on a domain, for ALL names, with known-finding witness languages.

An obligation is decided by relang's product search.  A discrepancy is a concrete shortest name; before it is
reported it is re-checked with CPython's `re` on the real regex (engine disagreement => CheckerBroken) and, when a
`native` callable is given, on the real wcmatch API.  Known findings (known_findings.json) carry a predicate on the
obligation signature plus a *witness language* W: the obligation is re-decided on `dom \\ W`, so a different deviation
of the same pattern is still reported.
"""
import re
import time

from . import relang as R


class CheckerBroken(Exception):
    pass


_wcache = {}


def _wlang(rx, is_bytes):
    key = (rx, is_bytes)
    if key not in _wcache:
        _wcache[key] = R.Impl(rx.encode('latin-1') if is_bytes else rx)
    return _wcache[key]


class _Rec:
    """Collects what `decide` would tell a Check, so that it can run in a worker process."""

    def __init__(self, known):
        self.known = known
        self.ops = []

    def undecide(self, *a):
        self.ops.append(('undecide', a))

    def leave_open(self, *a):
        self.ops.append(('leave_open', a))

    def obligation(self, *a, **kw):
        self.ops.append(('obligation', a, kw))

    def known_hit(self, k, s2):
        self.ops.append(('known_hit', (k, s2)))

    def violation(self, *a):
        self.ops.append(('violation', a))


def apply_ops(chk, ops):
    for op in ops:
        if op[0] == 'obligation':
            chk.obligation(*op[1], **op[2])
        else:
            getattr(chk, op[0])(*op[1])


def decide_pure(known, *a, **kw):
    rec = _Rec(known)
    status = decide(rec, *a, **kw)
    return status, rec.ops


def decide(chk, obligation, impl_rx, must, may, dom, sig, native=None, expect_fmt=None, is_bytes=False,
           rx_flags=0, full=True, state_limit=40000, count=True):
    """impl_rx: regex text (str/bytes) or compiled pattern.  must/may/dom: relang.Spec (or any automaton).
    sig: dict with at least pattern/flags (strings) used for known-finding matching and the replay.
    native(name) -> bool evaluates the real API on a name (optional, used for confirmation and replay).
    Returns 'proved' | 'known' | 'violation' | 'undecided'."""
    t0 = time.time()
    try:
        impl = impl_rx if hasattr(impl_rx, 'step') else R.Impl(impl_rx, rx_flags, full=full)
    except R.Unsupported as e:
        chk.undecide(obligation, f'regex outside the engine subset: {e} ({sig.get("pattern")!r})')
        if count:
            chk.obligation(obligation, 'undecided', 'relang', time.time() - t0)
        return 'undecided'
    excl = []
    status = 'proved'
    hits = []
    for _round in range(6):
        autos = [impl, must, may, dom] + excl
        n = len(autos)

        def bad(t):
            if not t[3]:
                return False
            for j in range(4, n):
                if t[j]:
                    return False
            return (t[1] and not t[0]) or (t[0] and not t[2])
        try:
            r = R.product_search(autos, bad, limit=state_limit)
        except (R.StateLimit, TimeoutError) as e:
            chk.leave_open(obligation, f'engine limit ({type(e).__name__} {e}) on {sig.get("pattern")!r} flags {sig.get("flags")}')
            status = 'open'
            break
        if r is None:
            break
        cps, accs = r
        w = R.to_str(cps, is_bytes)
        in_impl, in_must, in_may = accs[0], accs[1], accs[2]
        direction = 'rejects-required' if (in_must and not in_impl) else 'accepts-forbidden'
        # confirm with CPython on the real regex
        if not hasattr(impl_rx, 'step'):
            pat = impl_rx if isinstance(impl_rx, re.Pattern) else re.compile(impl_rx, rx_flags)
            real = bool(pat.fullmatch(w)) if full else bool(pat.match(w))
            if real != in_impl:
                raise CheckerBroken(f'relang disagrees with CPython re on {impl_rx!r} / {w!r}: {in_impl} vs {real}')
        if native is not None:
            try:
                nat = bool(native(w))
            except Exception as e:   # the real API raised on the witness: report as part of the violation text
                nat = f'raised {type(e).__name__}: {e}'
            if nat != in_impl:
                # the regex and the API disagree: that is itself worth reporting (C08), but not an engine bug
                sig = dict(sig, native=str(nat))
        s2 = dict(sig, obligation=obligation, witness=w, direction=direction)
        k = None
        for cand in chk.known:
            ok = True
            for field, rx in cand.get('where', {}).items():
                if not re.fullmatch(rx, str(s2.get(field, '')), re.S):
                    ok = False
                    break
            if not ok or 'witness_language' not in cand:
                continue
            wl = _wlang(cand['witness_language'], is_bytes)
            if wl.member(w):
                k = cand
                break
        if k is not None:
            hits.append((k, s2))
            excl.append(_wlang(k['witness_language'], is_bytes))
            status = 'known'
            continue
        exp = 'match' if direction == 'rejects-required' else 'no match'
        what = (f'{obligation}: pattern {sig.get("pattern")!r} flags {sig.get("flags")} name {w!r}: '
                f'implementation says {"match" if in_impl else "no match"}, the specification demands {exp}')
        replay = None
        if expect_fmt is not None:
            replay = expect_fmt(w, direction == 'rejects-required')
        chk.violation(s2, what, replay)
        status = 'violation'
        break
    else:
        chk.undecide(obligation, f'more than 6 known-finding rounds ({sig.get("pattern")!r})')
        status = 'undecided'
    for k, s2 in hits:
        chk.known_hit(k, s2)
    if count:
        st = {'proved': 'proved', 'known': 'refuted', 'violation': 'refuted', 'undecided': 'undecided', 'open': 'undecided'}[status]
        chk.obligation(obligation, st, 'relang', time.time() - t0, detail=f'{sig.get("pattern")!r} {sig.get("flags")}')
    return status
