"""C19 frame obligations F1-F3: a mechanical scan of the real ASTs for process-wide mutable state.

Obligations (each decided completely on the current source - finite):
  no-global          no `global` / `nonlocal` statement anywhere
  no-module-store    no assignment / augmented assignment / deletion whose target is an attribute or subscript of a name
                     bound at module level, inside any function
  no-module-mutation no mutating method call (append, add, update, ...) on a module-level name inside any function
  no-mutable-default no function parameter default that is a mutable object (list/dict/set literal or constructor call)
  no-class-state     no store to an attribute of a class object (`Cls.x = ...` / `cls.x = ...`) inside any function
  single-cache       the only caching decorator is functools.lru_cache on _wcparse._compile
  immutable          WcRegexp / WcMatcher declare __slots__ and util.Immutable.__setattr__ unconditionally raises
"""
import ast
import os

from .common import REPO

MODULES = ['_wcparse', '_wcmatch', 'glob', 'fnmatch', 'pathlib', 'wcmatch', 'util', 'posix', '__meta__', '__init__']
MUTATORS = {'append', 'add', 'update', 'pop', 'clear', 'setdefault', 'extend', 'remove', 'insert', 'sort', 'reverse', 'popitem', 'discard', '__setitem__'}


def _module_names(tree):
    names = set()
    for n in tree.body:
        if isinstance(n, (ast.Assign, ast.AnnAssign)):
            for t in (n.targets if isinstance(n, ast.Assign) else [n.target]):
                for x in ast.walk(t):
                    if isinstance(x, ast.Name):
                        names.add(x.id)
        elif isinstance(n, (ast.Import, ast.ImportFrom)):
            for a in n.names:
                names.add((a.asname or a.name).split('.')[0])
        elif isinstance(n, (ast.ClassDef, ast.FunctionDef)):
            names.add(n.name)
    return names


def _root_name(e):
    while isinstance(e, (ast.Attribute, ast.Subscript)):
        e = e.value
    return e.id if isinstance(e, ast.Name) else None


def scan():
    """-> list of (obligation name, ok: bool, detail)"""
    res = []
    caches = []
    for mod in MODULES:
        path = os.path.join(REPO, 'wcmatch', mod + '.py')
        tree = ast.parse(open(path).read())
        mnames = _module_names(tree)
        classes = {n.name for n in ast.walk(tree) if isinstance(n, ast.ClassDef)}
        viol = {k: [] for k in ('no-global', 'no-module-store', 'no-module-mutation', 'no-mutable-default', 'no-class-state')}
        for fn in [n for n in ast.walk(tree) if isinstance(n, (ast.FunctionDef, ast.AsyncFunctionDef, ast.Lambda))]:
            local = set()
            if not isinstance(fn, ast.Lambda):
                for d in fn.decorator_list:
                    txt = ast.unparse(d)
                    if 'cache' in txt:
                        caches.append((mod, fn.name, txt))
                for n in ast.walk(fn):
                    if isinstance(n, ast.Name) and isinstance(n.ctx, ast.Store):
                        local.add(n.id)
            a = fn.args
            local |= {x.arg for x in a.posonlyargs + a.args + a.kwonlyargs} | ({a.vararg.arg} if a.vararg else set()) | ({a.kwarg.arg} if a.kwarg else set())
            for d in list(a.defaults) + [x for x in a.kw_defaults if x is not None]:
                if isinstance(d, (ast.List, ast.Dict, ast.Set, ast.ListComp, ast.DictComp, ast.SetComp)) or \
                        (isinstance(d, ast.Call) and ast.unparse(d.func) in ('list', 'dict', 'set', 'bytearray', 'collections.defaultdict', 'defaultdict')):
                    viol['no-mutable-default'].append(f'{getattr(fn, "name", "<lambda>")}@{fn.lineno}: default {ast.unparse(d)}')
            body = fn.body if isinstance(fn.body, list) else [fn.body]
            for n in ast.walk(ast.Module(body=[x if isinstance(x, ast.stmt) else ast.Expr(x) for x in body], type_ignores=[])):
                if isinstance(n, (ast.Global, ast.Nonlocal)):
                    viol['no-global'].append(f'{getattr(fn, "name", "<lambda>")}@{n.lineno}: {ast.unparse(n)}')
                tgts = []
                if isinstance(n, ast.Assign):
                    tgts = n.targets
                elif isinstance(n, (ast.AugAssign, ast.AnnAssign)):
                    tgts = [n.target]
                elif isinstance(n, ast.Delete):
                    tgts = n.targets
                for t in tgts:
                    for x in ([t] if not isinstance(t, ast.Tuple) else t.elts):
                        if isinstance(x, (ast.Attribute, ast.Subscript)):
                            r = _root_name(x)
                            if r in ('cls',) or (r in classes and r not in local):
                                viol['no-class-state'].append(f'{getattr(fn, "name", "<lambda>")}@{n.lineno}: {ast.unparse(x)}')
                            elif r is not None and r in mnames and r not in local and r != 'self':
                                viol['no-module-store'].append(f'{getattr(fn, "name", "<lambda>")}@{n.lineno}: {ast.unparse(x)}')
                if isinstance(n, ast.Call) and isinstance(n.func, ast.Attribute) and n.func.attr in MUTATORS:
                    r = _root_name(n.func.value)
                    if r is not None and r in mnames and r not in local and r != 'self' and r not in ('os', 're', 'copyreg'):
                        viol['no-module-mutation'].append(f'{getattr(fn, "name", "<lambda>")}@{n.lineno}: {ast.unparse(n)[:80]}')
        for k, v in viol.items():
            res.append((f'frame.{mod}.{k}', not v, '; '.join(v[:5])))
    ok = caches == [('_wcparse', '_compile', 'functools.lru_cache(maxsize=256, typed=True)')] or \
        (len(caches) == 1 and caches[0][:2] == ('_wcparse', '_compile') and 'typed=True' in caches[0][2])
    res.append(('frame.single-cache.lru_cache(typed=True)_on__wcparse._compile_only', ok, str(caches)))
    # immutability of matcher objects
    tree = ast.parse(open(os.path.join(REPO, 'wcmatch', '_wcmatch.py')).read())
    for cname, want in (('WcRegexp', ('_include', '_exclude', '_real', '_path', '_follow', '_hash')), ('WcMatcher', ('_matcher', '_hash'))):
        cls = [n for n in tree.body if isinstance(n, ast.ClassDef) and n.name == cname]
        slots = None
        if cls:
            for n in cls[0].body:
                if isinstance(n, ast.Assign) and any(isinstance(t, ast.Name) and t.id == '__slots__' for t in n.targets):
                    try:
                        slots = tuple(ast.literal_eval(n.value))
                    except Exception:
                        slots = None
        bases_ok = bool(cls) and any(ast.unparse(b).endswith('Immutable') for b in cls[0].bases)
        res.append((f'frame.immutable.{cname}.__slots__==fields_and_base_Immutable', slots == want and bases_ok, f'slots={slots} bases_ok={bases_ok}'))
    ut = ast.parse(open(os.path.join(REPO, 'wcmatch', 'util.py')).read())
    imm = [n for n in ut.body if isinstance(n, ast.ClassDef) and n.name == 'Immutable']
    ok = False
    detail = 'class Immutable not found'
    if imm:
        sa = [n for n in imm[0].body if isinstance(n, ast.FunctionDef) and n.name == '__setattr__']
        slots = [n for n in imm[0].body if isinstance(n, (ast.Assign, ast.AnnAssign)) and '__slots__' in ast.unparse(n)]
        body = [s for s in sa[0].body if not (isinstance(s, ast.Expr) and isinstance(s.value, ast.Constant))] if sa else []
        ok = bool(sa) and len(body) == 1 and isinstance(body[0], ast.Raise) and bool(slots)
        detail = f'__setattr__ body={[type(s).__name__ for s in body]} slots={bool(slots)}'
    res.append(('frame.immutable.Immutable.__setattr__always_raises_and_no___dict__', ok, detail))
    return res
