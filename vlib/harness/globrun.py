"""Worker functions for the tree-based bounded checks (run in a process pool; each builds its own tree)."""
import os
import signal
import sys
import time
import traceback

from ..common import REPO
from ..spec import pat as P
from .. import langcheck as LC
from . import trees, specwalk

if REPO not in sys.path:
    sys.path.insert(0, REPO)
from wcmatch import glob as G        # noqa: E402

CASE_SECONDS = 10


class CaseTimeout(Exception):
    pass


def _alarm(signum, frame):
    raise CaseTimeout()


def with_alarm(fn, *a):
    old = signal.signal(signal.SIGALRM, _alarm)
    signal.alarm(CASE_SECONDS)
    try:
        return fn(*a)
    finally:
        signal.alarm(0)
        signal.signal(signal.SIGALRM, old)


def glob_vs_spec(item):
    """item = (tree_name, spec, [(els, flags)]) -> list of result dicts"""
    tname, spec, cases = item
    out = []
    cyclic = trees.is_cyclic(spec)
    with trees.Tree(spec) as t:
        for els, flags in cases:
            txt = P.render(els)
            follow = bool(flags & G.L)
            if cyclic and (follow or (flags & G.GL and ('***' in txt or flags & G.X))):
                continue           # the property exempts FOLLOW / *** on cyclic trees
            try:
                mode = LC.mode_from_flags(flags | G.U, True)
                scandot = bool(flags & G.SD)
                mode.nodotdir = True if not scandot else bool(flags & G.Z)
                res = {}
                for which in ('must', 'may'):
                    w = specwalk.Walk(t.root, mode, which, scandotdir=scandot, follow=follow, nodir=bool(flags & G.O))
                    res[which] = w.glob(els)
                if res['must'] is None:
                    continue
                t0 = time.time()
                got_raw = with_alarm(lambda: G.glob(txt, flags=flags | G.U, root_dir=t.root))
                got = {specwalk.norm_result(x) for x in got_raw}
                extra = sorted(got - res['may'])
                if flags & G.I:
                    # C13: no path twice "under whichever case rule is in force" - case variants of one path count as one
                    low = {x.lower() for x in got}
                    missing = sorted(x for x in res['must'] if x.lower() not in low)
                else:
                    missing = sorted(res['must'] - got)
                out.append(dict(tree=tname, pattern=txt, flags=flags, fl=LC.flagnames(flags), extra=extra, missing=missing, n=len(got), raw=sorted(got_raw)[:30],
                                secs=time.time() - t0))
            except CaseTimeout:
                out.append(dict(tree=tname, pattern=txt, flags=flags, fl=LC.flagnames(flags), timeout=True))
            except Exception:
                out.append(dict(tree=tname, pattern=txt, flags=flags, fl=LC.flagnames(flags), error=traceback.format_exc()[-800:]))
    return out
