"""Worker functions for the tree-based bounded checks (run in a process pool; each builds its own tree)."""
import os
import signal
import sys
import time
import traceback

from ..common import REPO
from ..spec import pat as P
from .. import langcheck as LC
from . import trees, specwalk

if REPO not in sys.path:
    sys.path.insert(0, REPO)
from wcmatch import glob as G        # noqa: E402

CASE_SECONDS = 10


class CaseTimeout(Exception):
    pass


_TIMEOUTS = [0]


def _alarm(signum, frame):
    _TIMEOUTS[0] += 1
    raise CaseTimeout()


def too_many_timeouts(limit=4):
    return _TIMEOUTS[0] >= limit


def _budget(seconds):
    # once a case has run into the alarm in this worker, later cases get a short budget: code that hangs, hangs again, and the
    # check is failing already (normal cases take milliseconds)
    return seconds if _TIMEOUTS[0] == 0 else max(2, seconds // 4)


_DEPTH = [0]


def with_alarm(fn, *a, seconds=None):
    """run fn under a SIGALRM budget; re-entrant: an inner call runs under the outer budget"""
    if _DEPTH[0]:
        return fn(*a)
    old = signal.signal(signal.SIGALRM, _alarm)
    _DEPTH[0] = 1
    signal.alarm(_budget(seconds or CASE_SECONDS))
    try:
        return fn(*a)
    finally:
        signal.alarm(0)
        _DEPTH[0] = 0
        signal.signal(signal.SIGALRM, old)


def begin_alarm(seconds):
    """explicit form of with_alarm for long bodies: tok = begin_alarm(n) ... finally: end_alarm(tok)"""
    if _DEPTH[0]:
        return None
    old = signal.signal(signal.SIGALRM, _alarm)
    _DEPTH[0] = 1
    signal.alarm(_budget(seconds))
    return (old,)


def end_alarm(tok):
    if tok is not None:
        signal.alarm(0)
        _DEPTH[0] = 0
        signal.signal(signal.SIGALRM, tok[0])


def glob_vs_spec(item):
    """item = (tree_name, spec, [(els, flags)]) -> list of result dicts"""
    tname, spec, cases = item
    out = []
    cyclic = trees.is_cyclic(spec)
    with trees.Tree(spec) as t:
        for els, flags in cases:
            if too_many_timeouts():
                break          # this worker has hit the alarm repeatedly: the violations are reported, the rest is not run
            txt = P.render(els)
            follow = bool(flags & G.L)
            if cyclic and (follow or (flags & G.GL and '***' in txt)):
                continue           # the property exempts FOLLOW / *** on cyclic trees
            try:
                mode = LC.mode_from_flags(flags | G.U, True)
                scandot = bool(flags & G.SD)
                mode.nodotdir = True if not scandot else bool(flags & G.Z)
                res = {}
                for which in ('must', 'may'):
                    w = specwalk.Walk(t.root, mode, which, scandotdir=scandot, follow=follow, nodir=bool(flags & G.O))
                    res[which] = w.glob(els)
                if res['must'] is None:
                    continue
                t0 = time.time()
                got_raw = with_alarm(lambda: G.glob(txt, flags=flags | G.U, root_dir=t.root))
                got = {specwalk.norm_result(x) for x in got_raw}
                extra = sorted(got - res['may'])
                if flags & G.I:
                    # C13: no path twice "under whichever case rule is in force" - case variants of one path count as one
                    low = {x.lower() for x in got}
                    missing = sorted(x for x in res['must'] if x.lower() not in low)
                else:
                    missing = sorted(res['must'] - got)
                out.append(dict(tree=tname, pattern=txt, flags=flags, fl=LC.flagnames(flags), extra=extra, missing=missing, n=len(got), raw=sorted(got_raw)[:30],
                                secs=time.time() - t0))
            except CaseTimeout:
                out.append(dict(tree=tname, pattern=txt, flags=flags, fl=LC.flagnames(flags), timeout=True))
            except Exception:
                out.append(dict(tree=tname, pattern=txt, flags=flags, fl=LC.flagnames(flags), error=traceback.format_exc()[-800:]))
    return out


def small_patterns():
    """A compact, representative set of path patterns (ASTs) for the heavier per-case harnesses."""
    from .. import patsets
    L, mk = patsets.L, patsets.mkpath
    a, b, d, star, q, gs, gsl = (L('a'),), (L('b'),), (L('d'),), (('star',),), (('q',),), (('gs',),), (('gsl',),)
    dot, dd, hid = (L('.'),), (L('.'), L('.')), (L('.'), ('star',))
    txt = (('star',), L('.'), L('t'), L('x'), L('t'))
    ld, lf, up = (L('l'), L('d')), (L('l'), L('f')), (L('u'), L('p'))
    neg = (('ext', '!', ((L('a'),),)),)
    alt = (('ext', '@', ((L('a'),), (L('d'),), (L('l'), ('star',)))),)
    br = (('br', False, (('ch', 'a'), ('ch', 'd'), ('ch', 'x'))),)
    pats = [mk([a]), mk([star]), mk([q]), mk([hid]), mk([txt]), mk([gs]), mk([gsl]), mk([gs], trail=True), mk([star], trail=True), mk([d], trail=True),
            mk([d, star]), mk([d, gs]), mk([gs, a]), mk([gs, star]), mk([gs, txt]), mk([star, star]), mk([star, a]), mk([d, q]), mk([gs, d, gs]), mk([gs, a, gs, a]),
            mk([ld, star]), mk([ld, gs]), mk([gs, lf]), mk([gs, (L('x'),)]), mk([gs, (L('y'),)]), mk([d, up, star]), mk([gs, up, star]), mk([gsl, (L('x'),)]),
            mk([gsl, star]), mk([dot, star]), mk([dd, star]), mk([d, dd, star]), mk([star, dot]), mk([gs, hid]), mk([hid, star]), mk([neg]), mk([gs, neg]),
            mk([alt]), mk([alt, star]), mk([br]), mk([gs, br], trail=True), mk([d, (L('s'),), star]), mk([star, (L('s'),), gs]), mk([gs, (L('s'),), gs, (L('y'),)]),
            mk([gs, d, gs, (L('y'),)]), mk([d, gs, (L('s'),), gs, (L('y'),)]), mk([gs, (L('s'),), gs, (L('y'), L('2'))]), mk([gs, (L('x'),)], trail=False), mk([star], trail=True), mk([a], trail=True), mk([lf], trail=True), mk([ld], trail=True),
            mk([(L('d'), L('a'), L('n'), L('g'))]), mk([gs, (L('d'), L('a'), L('n'), L('g'))]), mk([d, star], dbl=True), mk([(L('S'), L('u'), L('b')), star]),
            mk([(L('n'), L('o'), L('n'), L('e'))]), mk([a, (L('r'),), gs, (L('t'),)]), mk([gs, (L('r'),), gs, (L('t'),)]), mk([gs, (L('l'), L('r')), gs]),
            mk([gsl, a, gs, (L('t'),)]), mk([gsl, d, gs, (L('y'),)]), mk([gsl, gs, (L('t'),)]),
            mk([gs, gsl, (L('t'),)]), mk([gs, gsl, txt]), mk([gs, gsl, star])]          # `**/***` is one `***`
    return pats


def globmatch_vs_glob(item):
    """C04: set(glob(p,f)) vs {c in candidates | globmatch(c, p, f|REALPATH, root)}, plus the REALPATH clauses."""
    tname, spec, cases = item
    out = []
    cyclic = trees.is_cyclic(spec)
    with trees.Tree(spec) as t:
        ents = t.entries_through_links()
        fd = os.open(t.root, os.O_RDONLY | os.O_DIRECTORY)
        for idx, (els, flags, excl) in enumerate(cases):
            if too_many_timeouts():
                break          # this worker has hit the alarm repeatedly: the violations are reported, the rest is not run
            txt = els if isinstance(els, str) else P.render(els)          # (a str is raw pattern text)
            follow = bool(flags & G.L)
            if cyclic and (follow or (flags & G.GL and '***' in txt)):
                continue
            try:
                # the root is given as root_dir or (every third case) as dir_fd
                kw = dict(flags=flags | G.U, root_dir=t.root) if idx % 3 else dict(flags=flags | G.U, dir_fd=fd)
                if excl:
                    kw['exclude'] = excl
                got_raw = with_alarm(lambda: G.glob(txt, **kw))
                got = {specwalk.norm_result(x) for x in got_raw}
                cands = set(ents) | {e + '/' for e in ents if os.path.isdir(os.path.join(t.root, e))} | set(got_raw) | {'nonexistent', 'd/nonexistent', 'nonexistent/'}
                kw2 = dict(kw, flags=flags | G.U | G.P)
                m = set()
                absolute_hit = []
                for c in sorted(cands):
                    if with_alarm(lambda: G.globmatch(c, txt, **kw2)):
                        m.add(specwalk.norm_result(c))
                        if not os.path.lexists(os.path.join(t.root, c)):
                            out.append(dict(tree=tname, pattern=txt, flags=flags, fl=LC.flagnames(flags), exclude=excl, kind='nonexistent-matches', witness=c))
                # the filter API answers like the match API (same matcher, same symlink rule)
                flt = {specwalk.norm_result(c) for c in with_alarm(lambda: G.globfilter(sorted(cands), txt, **kw2))}
                if flt != m:
                    out.append(dict(tree=tname, pattern=txt, flags=flags, fl=LC.flagnames(flags), exclude=excl, kind='globfilter-differs-from-globmatch', witness=sorted(flt ^ m)[0]))
                for c in sorted(ents)[:6]:
                    ac = os.path.join(t.root, c)
                    if not txt.startswith('/') and G.globmatch(ac, txt, **kw2):
                        absolute_hit.append(ac)
                if absolute_hit:
                    out.append(dict(tree=tname, pattern=txt, flags=flags, fl=LC.flagnames(flags), exclude=excl, kind='relative-pattern-matches-absolute-path', witness=absolute_hit[0]))
                if flags & G.I:
                    # C13: case variants of one path count as one under the case rule in force
                    lg, lm = {x.lower() for x in got}, {x.lower() for x in m}
                    only_glob = sorted(x for x in got if x.lower() not in lm)
                    only_match = sorted(x for x in m if x.lower() not in lg)
                else:
                    only_glob = sorted(got - m)
                    only_match = sorted(m - got)
                out.append(dict(tree=tname, pattern=txt, flags=flags, fl=LC.flagnames(flags), exclude=excl, kind='compare', only_glob=only_glob, only_match=only_match, n=len(got)))
            except CaseTimeout:
                out.append(dict(tree=tname, pattern=txt, flags=flags, fl=LC.flagnames(flags), exclude=excl, kind='timeout'))
            except Exception:
                out.append(dict(tree=tname, pattern=txt, flags=flags, fl=LC.flagnames(flags), exclude=excl, kind='error', error=traceback.format_exc()[-800:]))
        os.close(fd)
    return out


class _PL:
    def __init__(self, p):
        self.p = p

    def __fspath__(self):
        return self.p


def wellformed_and_roots(item):
    """C12: every result exists, spelling, trailing separator rule, NODIR, iglob == glob, root given 5 ways."""
    tname, spec, cases = item
    out = []
    cyclic = trees.is_cyclic(spec)
    cwd0 = os.getcwd()
    with trees.Tree(spec) as t:
        for txt, flags in cases:
            if too_many_timeouts():
                break          # this worker has hit the alarm repeatedly: the violations are reported, the rest is not run
            follow = bool(flags & G.L)
            if cyclic and (follow or (flags & G.GL and '***' in txt)):
                continue
            base = dict(tree=tname, pattern=txt, flags=flags, fl=LC.flagnames(flags))
            try:
                pat = txt.replace('$ROOT', t.root)
                absolute = pat.startswith('/')
                res = with_alarm(lambda: G.glob(pat, flags=flags | G.U, root_dir=t.root))
                bad = []
                trail_pat = pat.rstrip('*').endswith('/') if False else pat.endswith('/')
                for x in res:
                    full = x if os.path.isabs(x) else os.path.join(t.root, x)
                    if not os.path.lexists(full):
                        bad.append(('does-not-exist', x))
                    if os.path.isabs(x) != absolute:
                        bad.append(('spelling', x))
                    isdir = os.path.isdir(full)
                    if x.endswith('/') and not isdir:
                        bad.append(('separator-on-non-directory', x))
                    if isdir and (trail_pat or flags & G.K) and not x.endswith('/'):
                        bad.append(('directory-without-separator', x))
                    if isdir and flags & G.O:
                        bad.append(('directory-under-NODIR', x))
                ires = list(G.iglob(pat, flags=flags | G.U, root_dir=t.root))
                if ires != res:
                    bad.append(('iglob-differs', str(ires[:5])))
                variants = {}
                variants['bytes'] = [os.fsdecode(x) for x in G.glob(os.fsencode(pat), flags=flags | G.U, root_dir=os.fsencode(t.root))]
                variants['pathlike'] = G.glob(pat, flags=flags | G.U, root_dir=_PL(t.root))
                fd = os.open(t.root, os.O_RDONLY | os.O_DIRECTORY)
                try:
                    variants['dir_fd'] = G.glob(pat, flags=flags | G.U, dir_fd=fd)
                    variants['bytes-pattern-with-dir_fd'] = [os.fsdecode(x) for x in G.glob(os.fsencode(pat), flags=flags | G.U, dir_fd=fd)]
                finally:
                    os.close(fd)
                os.chdir(t.root)
                try:
                    variants['cwd'] = G.glob(pat, flags=flags | G.U)
                finally:
                    os.chdir(cwd0)
                for k, v in variants.items():
                    if v != res:
                        bad.append((f'root-as-{k}-differs', f'{v[:6]} vs {res[:6]}'))
                out.append(dict(base, bad=bad, n=len(res)))
            except CaseTimeout:
                os.chdir(cwd0)
                out.append(dict(base, bad=[('timeout', '')], n=0))
            except Exception:
                os.chdir(cwd0)
                out.append(dict(base, error=traceback.format_exc()[-800:]))
    return out


def multi_pattern(item):
    """C13: union / exclusion / uniqueness / NOUNIQUE concatenation."""
    tname, spec, cases = item
    out = []
    with trees.Tree(spec) as t:
        for pats, excl, flags, inline in cases:
            if too_many_timeouts():
                break          # this worker has hit the alarm repeatedly: the violations are reported, the rest is not run
            base = dict(tree=tname, pattern=str(pats), exclude=str(excl), flags=flags, fl=LC.flagnames(flags), inline=inline)
            try:
                f = flags | G.U
                kw = dict(flags=f, root_dir=t.root)
                if inline and excl:
                    full = list(pats) + ['!' + e for e in excl]
                    res = with_alarm(lambda: G.glob(full, flags=f | G.N, root_dir=t.root))
                else:
                    res = with_alarm(lambda: G.glob(list(pats), exclude=list(excl) if excl else None, **kw))
                # per-pattern results WITH NOUNIQUE: under IGNORECASE the duplicate filter also folds case variants of distinct entries ('x', 'X'),
                # which NOUNIQUE switches off; the comparisons below are on key sets (no NOUNIQUE) or exact lists (NOUNIQUE)
                single = [G.glob(p, flags=(f | G.Q), root_dir=t.root) for p in pats]
                # expansion of BRACE / SPLIT inclusion patterns is part of the list: compare against the expanded singles
                exf = (f | G.D) & ~(G.N | G.A | G.Q | G.O)
                excluded = lambda x: any(G.globmatch(x if not os.path.isdir(os.path.join(t.root, x)) or x.endswith('/') else x + '/', e, flags=exf) for e in (excl or []))
                bad = []
                # the case rule in force (C17): CASE wins over IGNORECASE; this harness runs on a case-sensitive platform with FORCEUNIX
                key = (lambda x: x.lower()) if (flags & G.I and not flags & G.C) else (lambda x: x)
                want_concat = [x for s in single for x in s if not excluded(x)]
                if flags & G.Q:
                    if res != want_concat:
                        bad.append(('NOUNIQUE-is-not-the-concatenation', f'{res[:8]} vs {want_concat[:8]}'))
                else:
                    if len({key(x) for x in res}) != len(res):
                        dup = sorted(x for x in res if sum(1 for y in res if key(y) == key(x)) > 1)
                        bad.append(('path-returned-twice', str(dup[:4])))
                    if {key(x) for x in res} != {key(x) for x in want_concat}:
                        a, b = {key(x) for x in res}, {key(x) for x in want_concat}
                        bad.append(('not-the-union-minus-exclusions', f'extra={sorted(a - b)[:5]} missing={sorted(b - a)[:5]}'))
                out.append(dict(base, bad=bad, n=len(res)))
            except CaseTimeout:
                out.append(dict(base, bad=[('timeout', '')], n=0))
            except Exception:
                out.append(dict(base, error=traceback.format_exc()[-800:]))
    return out


def symlink_discipline(item):
    """C06: scandir discipline and termination of glob on trees with symlinks (incl. cycles); WcMatch without SYMLINKS."""
    import re as _re
    tname, spec, cases = item
    out = []
    cyclic = trees.is_cyclic(spec)
    from wcmatch import wcmatch as WM
    with trees.Tree(spec) as t:
        ndirs = 1 + sum(1 for e in t.entries() if os.path.isdir(os.path.join(t.root, e)) and not os.path.islink(os.path.join(t.root, e)))
        real_scandir = os.scandir
        for txt, flags in cases:
            if too_many_timeouts():
                break          # this worker has hit the alarm repeatedly: the violations are reported, the rest is not run
            follow = bool(flags & G.L)
            base = dict(tree=tname, pattern=txt, flags=flags, fl=LC.flagnames(flags))
            if cyclic and (follow or (flags & G.GL and '***' in txt)):
                continue
            scanned = []

            def counting(path='.'):
                scanned.append(path if not isinstance(path, int) else '<fd>')
                return real_scandir(path)
            try:
                os.scandir = counting
                t0 = time.time()
                res = with_alarm(lambda: G.glob(txt, flags=flags | G.U, root_dir=t.root))
                dt = time.time() - t0
            except CaseTimeout:
                out.append(dict(base, bad=[('does-not-terminate', f'> {CASE_SECONDS}s, {len(scanned)} directory listings')], n=0))
                continue
            except Exception:
                out.append(dict(base, error=traceback.format_exc()[-800:]))
                continue
            finally:
                os.scandir = real_scandir
            bad = []
            literal_names = set(_re.findall(r'[A-Za-z0-9_.]+', txt))
            rest = txt
            if flags & G.GL:
                rest = _re.sub(r'(^|/)\*\*\*(?=/|$)', r'\1', rest)
            if flags & (G.G | G.GL):
                rest = _re.sub(r'(^|/)\*\*(?=/|$)', r'\1', rest)
            only_globstar_and_literals = not _re.search(r'[*?\[(]', rest)
            wants_links = follow or ('***' in txt and flags & G.GL) or (flags & G.X and flags & G.GL and flags & G.L)
            if not wants_links and only_globstar_and_literals:
                for sp in scanned:
                    rel = os.path.relpath(sp, t.root) if isinstance(sp, str) and sp.startswith(t.root) else sp
                    parts = [] if rel in ('.', '<fd>') else rel.split('/')
                    cur = t.root
                    for comp in parts:
                        cur = os.path.join(cur, comp)
                        if os.path.islink(cur) and comp not in literal_names:
                            bad.append(('lists-a-directory-through-a-symlink-in-globstar-position', rel))
                            break
            if len(scanned) > 40 * ndirs * (txt.count('/') + 2):
                bad.append(('too-many-directory-listings', f'{len(scanned)} scandir calls for {ndirs} real directories'))
            out.append(dict(base, bad=bad, n=len(res), scans=len(scanned)))
        # WcMatch without SYMLINKS terminates and never goes through a symlinked directory
        for wflags in (WM.RV, WM.RV | WM.HD):
            base = dict(tree=tname, pattern='WcMatch(*)', flags=wflags, fl=f'WcMatch:{wflags:#x}')
            try:
                res = with_alarm(lambda: WM.WcMatch(t.root, '*', flags=wflags).match())
                bad = []
                for x in res:
                    rel = os.path.relpath(x, t.root)
                    cur = t.root
                    for comp in rel.split('/')[:-1]:
                        cur = os.path.join(cur, comp)
                        if os.path.islink(cur):
                            bad.append(('WcMatch-walks-through-a-symlinked-directory-without-SYMLINKS', rel))
                            break
                out.append(dict(base, bad=bad, n=len(res), scans=0))
            except CaseTimeout:
                out.append(dict(base, bad=[('WcMatch-does-not-terminate', '')], n=0))
            except Exception:
                out.append(dict(base, error=traceback.format_exc()[-800:]))
    return out
