"""Bounded run-time contract checks for WcMatch (C14, C15) and pathlib (C16) on generated trees."""
import os
import sys
import time
import traceback

from ..common import REPO
from .. import relang as R
from ..spec import pat as P, den as D
from .. import langcheck as LC
from . import trees
from . import globrun
from .globrun import with_alarm, CaseTimeout

if REPO not in sys.path:
    sys.path.insert(0, REPO)
from wcmatch import wcmatch as WM, glob as G, pathlib as PL, _wcparse as W     # noqa: E402


def spec_match_list(name, incs, excs, mode, path):
    """statement C14/C07: matches some inclusion (or there are none: everything) and no exclusion; DOTMATCH forced."""
    def mem(p):
        if path:
            node, _ = D.den_path(p, mode, 'must')
        else:
            node = D.den_name(p, mode, 'must')
        return R.Spec(node, mode.maxc).member(name)
    if any(mem(e) for e in excs):
        return False
    return True if not incs else any(mem(i) for i in incs)


def spec_wcmatch(root, incs, excs, dincs, dexcs, flags):
    """independent walk: files selected and count of visited-but-not-returned files"""
    recursive, hidden, symlinks = bool(flags & WM.RV), bool(flags & WM.HD), bool(flags & WM.SL)
    fpn, dpn = bool(flags & WM.FP), bool(flags & WM.DP)
    icase = bool(flags & WM.I) and not flags & WM.C

    def mode(path):
        return D.Mode(path=path, dot=True, ext=bool(flags & WM.E), icase=icase, globstar=bool(flags & WM.G), matchbase=bool(flags & WM.X) and path)
    fm, dm = mode(fpn), mode(dpn)
    selected, skipped = [], 0
    stack = ['']
    order = []
    def visit(rel):
        nonlocal skipped
        full = os.path.join(root, rel) if rel else root
        try:
            names = sorted(os.listdir(full))
        except OSError:
            return
        dirs, files = [], []
        for n in names:
            p = os.path.join(full, n)
            (dirs if os.path.isdir(p) else files).append(n)
        for n in files:
            relp = (rel + '/' if rel else '') + n
            ok = (hidden or not n.startswith('.')) and (spec_match_list(relp if fpn else n, incs, excs, fm, fpn) if (incs or excs) else True)
            if ok:
                selected.append(relp)
            else:
                skipped += 1
        if not recursive:
            return
        for n in dirs:
            relp = (rel + '/' if rel else '') + n
            p = os.path.join(full, n)
            if not hidden and n.startswith('.'):
                continue
            if os.path.islink(p) and not symlinks:
                continue
            if (dincs or dexcs) and spec_match_list((relp + '/') if dpn else n, dincs, dexcs, dm, dpn):
                continue
            visit(relp)
    visit('')
    return sorted(selected), skipped


def render_list(incs, excs, minus):
    neg = '-' if minus else '!'
    return '|'.join([P.render(i) for i in incs] + [neg + P.render(e) for e in excs])


def wcmatch_vs_spec(item):
    tname, spec, cases = item
    out = []
    cyclic = trees.is_cyclic(spec)
    with trees.Tree(spec) as t:
        for case_no, (incs, excs, dincs, dexcs, flags) in enumerate(cases):
            if globrun.too_many_timeouts():
                break          # this worker has hit the alarm repeatedly: the violations are reported, the rest is not run
            if cyclic and flags & WM.SL:
                continue
            root_arg = t.root + ('/' if case_no % 3 == 2 else '')          # the same tree, the root spelled with a trailing separator
            minus = bool(flags & WM.M)
            fp, dp = render_list(incs, excs, minus), render_list(dincs, dexcs, minus)
            base = dict(tree=tname, pattern=fp, exclude=dp, flags=flags, fl=f'{flags:#x}')
            try:
                want, wskip = spec_wcmatch(t.root, incs, excs, dincs, dexcs, flags)
                w = WM.WcMatch(root_arg, fp, dp, flags=flags)
                got = with_alarm(lambda: w.match())
                rel = sorted(os.path.relpath(x, t.root) for x in got)
                bad = []
                if len(set(rel)) != len(rel):
                    bad.append(('file-yielded-twice', str(sorted(x for x in rel if rel.count(x) > 1)[:4])))
                if sorted(set(rel)) != want:
                    bad.append(('not-the-files-a-filtered-walk-selects', f'extra={sorted(set(rel) - set(want))[:5]} missing={sorted(set(want) - set(rel))[:5]}'))
                elif w.get_skipped() != wskip:
                    bad.append(('get_skipped-is-not-visited-minus-returned', f'{w.get_skipped()} vs {wskip}'))
                if list(w.imatch()) != got:
                    bad.append(('imatch-differs-from-match', ''))
                elif sorted(set(rel)) == want and w.get_skipped() != wskip:
                    bad.append(('get_skipped-after-a-second-run-is-not-that-run\'s-visited-minus-returned', f'{w.get_skipped()} vs {wskip}'))
                out.append(dict(base, bad=bad, n=len(got)))
            except CaseTimeout:
                out.append(dict(base, bad=[('timeout', '')], n=0))
            except Exception:
                out.append(dict(base, error=traceback.format_exc()[-900:]))
    return out


# ---------------------------------------------------------------------------------------------- C15
class _Rec(WM.WcMatch):
    """records hook invocations; kills at the k-th hook invocation; optionally raises at the r-th"""

    def on_init(self, kill_at=None, raise_at=None, skip_value=None, error_value=None, kill_in_init=False):
        if kill_in_init:
            self.kill()          # kill() before the iteration starts, from the very first hook
        self.log, self.kill_at, self.raise_at, self.step = [], kill_at, raise_at, 0
        self.skip_value, self.error_value, self.resets = skip_value, error_value, 0
        self.rets = []

    def _tick(self, what, base, name):
        k = self.step
        self.step += 1
        self.log.append((what, os.path.join(base, name) if name is not None else None))
        if self.kill_at is not None and k == self.kill_at:
            self.kill()
        if self.raise_at is not None and k == self.raise_at and what.startswith('validate'):
            raise RuntimeError('hook failure injected')

    def on_reset(self):
        self.resets += 1
        self.step = 0
        self.log = []
        self.rets = []

    def _ret(self, kind, base, name, value):
        # value None -> None; ('RAW', v) -> v itself (falsy values 0, '', (), False must be passed through); else a tagged tuple
        if value is None:
            r = None
        elif isinstance(value, tuple) and len(value) == 2 and value[0] == 'RAW':
            r = value[1]
        else:
            r = (value, os.path.join(base, name))
        self.rets.append((kind, r))
        return r

    def expected_yields(self):
        return [v for kind, v in self.rets if kind == 'match' or v is not None]

    def on_validate_directory(self, base, name):
        self._tick('validate_dir', base, name)
        return True

    def on_validate_file(self, base, name):
        self._tick('validate_file', base, name)
        return not name.endswith('.skip')

    def on_match(self, base, name):
        self._tick('match', base, name)
        return self._ret('match', base, name, 'M')

    def on_skip(self, base, name):
        self._tick('skip', base, name)
        return self._ret('skip', base, name, self.skip_value)

    def on_error(self, base, name):
        self._tick('error', base, name)
        return self._ret('error', base, name, self.error_value)


def kill_points(item):
    tname, spec, cases = item
    out = []
    with trees.Tree(spec) as t:
        for pattern, flags, skip_value, error_value in cases:
            if globrun.too_many_timeouts():
                break          # this worker has hit the alarm repeatedly: the violations are reported, the rest is not run
            base = dict(tree=tname, pattern=pattern, flags=flags, fl=f'{flags:#x}', skip_value=skip_value)
            try:
                bad = []
                ref = _Rec(t.root, pattern, flags=flags, skip_value=skip_value, error_value=error_value)
                full = ref.match()
                log = list(ref.log)
                n = len(log)
                if ref.resets != 1:
                    bad.append(('on_reset-not-once-per-run', str(ref.resets)))
                if full != ref.expected_yields():
                    bad.append(('hook-values-not-passed-through-unchanged', f'{full[:4]} vs {ref.expected_yields()[:4]}'))
                full2 = ref.match()
                if full2 != full or ref.resets != 2:
                    bad.append(('second-run-differs-or-on_reset-count', f'{len(full2)} vs {len(full)}; resets={ref.resets}'))
                visited = [p for w, p in log if w in ('match', 'skip')]
                if len(visited) != len(set(visited)):
                    bad.append(('file-routed-twice', ''))
                if ref.get_skipped() != sum(1 for w, p in log if w == 'skip'):
                    bad.append(('skipped-counter-not-restarted-or-wrong', f'{ref.get_skipped()} vs {sum(1 for w, p in log if w == "skip")}'))
                for k in range(n + 1):
                    w = _Rec(t.root, pattern, flags=flags, kill_at=k, skip_value=skip_value, error_value=error_value)
                    res = w.match()
                    if res != full[:len(res)]:
                        bad.append(('aborted-run-is-not-a-prefix', f'kill at hook #{k}'))
                        continue
                    if k < n:
                        # nothing is processed beyond the entry during which kill() happened
                        kw, kp = log[k]
                        later = [x for x in w.log[k + 1:] if x[1] != kp]
                        if later:
                            bad.append(('work-continues-after-kill', f'kill at hook #{k} {kw} {os.path.relpath(kp, t.root)}: then {[(a, os.path.relpath(b, t.root)) for a, b in later[:3]]}'))
                        if not w.is_aborted():
                            bad.append(('not-aborted-after-kill', f'k={k}'))
                        before = w.resets
                        again = w.match()
                        if again != []:
                            bad.append(('killed-object-yields-without-reset', f'k={k}: {again[:2]}'))
                        if w.resets != before + 1 or w.get_skipped() != 0:
                            bad.append(('run-started-in-the-killed-state-does-not-call-on_reset-once-or-restart-the-skipped-counter', f'k={k}: resets {before}->{w.resets}, skipped={w.get_skipped()}'))
                        w.reset()
                        w.kill_at = None
                        if w.match() != full:
                            bad.append(('after-reset-result-is-not-complete', f'k={k}'))
                # hooks raising at every validate position
                for r in range(n):
                    if not log[r][0].startswith('validate'):
                        continue
                    w = _Rec(t.root, pattern, flags=flags, raise_at=r, skip_value=skip_value, error_value=error_value)
                    res = w.match()
                    if res != w.expected_yields():
                        bad.append(('hook-values-not-passed-through-unchanged', f'r={r}: {res[:4]} vs {w.expected_yields()[:4]}'))
                    errs = [p for a, p in w.log if a == 'error']
                    if errs != [log[r][1]]:
                        bad.append(('on_error-not-exactly-for-the-raising-entry', f'r={r}: {errs}'))
                    if log[r][0] == 'validate_file':
                        routed = [a for a, p in w.log if p == log[r][1] and a in ('match', 'skip')]
                        if routed != ['skip']:
                            bad.append(('file-whose-validation-raised-not-routed-to-on_skip-exactly-once', f'r={r}: {routed}'))
                # kill between yielded results
                for j in range(len(full) + 1):
                    w = _Rec(t.root, pattern, flags=flags, skip_value=skip_value, error_value=error_value)
                    got = []
                    for i, x in enumerate(w.imatch()):
                        got.append(x)
                        if i + 1 == j:
                            w.kill()
                    if j == 0:
                        w2 = _Rec(t.root, pattern, flags=flags)
                        w2.kill()
                        if w2.match() != []:
                            bad.append(('kill-before-start-still-yields', ''))
                        w3 = _Rec(t.root, pattern, flags=flags, kill_in_init=True)
                        if not w3.is_aborted() or w3.match() != [] or list(w3.imatch()) != []:
                            bad.append(('kill-from-the-on_init-hook-is-lost', f'is_aborted={w3.is_aborted()}'))
                    elif got != full[:j] and j <= len(full):
                        bad.append(('kill-between-yields-yields-more', f'j={j}: {len(got)} items'))
                out.append(dict(base, bad=bad[:6], n=n, hooks=n))
            except Exception:
                out.append(dict(base, error=traceback.format_exc()[-900:]))
    return out


def pathlib_views(item):
    """C16: Path.glob == glob.glob(root_dir=...), rglob, match <=> rglob membership, errors, no duplicates."""
    tname, spec, cases = item
    out = []
    cyclic = trees.is_cyclic(spec)
    cwd0 = os.getcwd()
    with trees.Tree(spec) as t:
        ents = t.entries()
        for txt, flags in cases:
            if globrun.too_many_timeouts():
                break          # this worker has hit the alarm repeatedly: the violations are reported, the rest is not run
            follow = bool(flags & PL.L)
            if cyclic and (follow or (flags & PL.GL and '***' in txt)):
                continue
            base = dict(tree=tname, pattern=txt, flags=flags, fl=LC.flagnames(flags))
            bad = []
            via_link = {}
            tok = globrun.begin_alarm(3 * globrun.CASE_SECONDS)
            try:
                root = PL.Path(t.root)
                for sub in ('', 'd'):
                    r = root / sub if sub else root
                    if not r.is_dir():
                        continue
                    got = with_alarm(lambda: [str(x) for x in r.glob(txt, flags=flags)])
                    gflags = (flags & ~(PL.SD)) | G.U | W._NOABSOLUTE | G._PATHLIB | (G.SD if flags & PL.SD else 0)
                    want = [str(r.joinpath(x)) for x in G.glob(txt, flags=(flags & PL.FLAG_MASK) | G.U | W._NOABSOLUTE | G._PATHLIB | (G.SD if flags & PL.SD else 0), root_dir=str(r))]
                    if got != want:
                        bad.append(('Path.glob-differs-from-glob.glob(root_dir=path)', f'{sub or "."}: {got[:5]} vs {want[:5]}'))
                    if not flags & PL.Q and len(set(got)) != len(got):
                        bad.append(('pathlib-yields-one-file-twice', str(sorted(x for x in got if got.count(x) > 1)[:3])))
                    rg = [str(x) for x in r.rglob(txt, flags=flags)]
                    want_rg = [str(x) for x in r.glob(txt, flags=flags | W._EXTMATCHBASE)]
                    if rg != want_rg:
                        bad.append(('rglob-is-not-glob-with-implicit-recursive-segment', f'{rg[:5]} vs {want_rg[:5]}'))
                    # independent formulation: the implicit recursive segment written out (`**/p`, or `***/p` under GLOBSTARLONG|FOLLOW)
                    if flags & (PL.G | PL.GL) and not flags & PL.N and not any(ch in txt for ch in '|{') and not txt.startswith(('/', '~')):
                        pre = '***/' if (flags & PL.GL and flags & PL.L) else '**/'
                        written = {str(x) for x in r.glob(pre + txt, flags=flags)}
                        if set(rg) != written:
                            bad.append(('rglob(p)-differs-from-glob(**/p)', f'only rglob: {sorted(set(rg) - written)[:4]} only glob(**/p): {sorted(written - set(rg))[:4]}'))
                    # user-supplied FORCEWIN / FORCEUNIX are ignored
                    if [str(x) for x in r.glob(txt, flags=flags | G.W)] != got or [str(x) for x in r.glob(txt, flags=flags | G.U)] != got:
                        bad.append(('user-FORCEWIN/FORCEUNIX-not-ignored', ''))
                # match(REALPATH) <=> rglob membership, for relative paths below cwd
                os.chdir(t.root)
                try:
                    here = PL.Path('.')
                    rg = {str(x) for x in with_alarm(lambda: list(here.rglob(txt, flags=flags)))}
                    cands = set(ents) | rg
                    m = set()
                    for c in sorted(cands):
                        if PL.Path(c).match(txt, flags=flags | PL.P):
                            m.add(str(PL.Path(c)))
                    for x in sorted(rg - m)[:3]:
                        bad.append(('rglob-yields-a-path-that-match(REALPATH)-rejects', x))
                        parts = x.split('/')
                        via_link[x] = any(os.path.islink('/'.join(parts[:i])) for i in range(1, len(parts)))          # (the first-decomposition finding needs a link on the way)
                    for x in sorted(m - rg)[:3]:
                        bad.append(('match(REALPATH)-accepts-a-path-that-rglob-does-not-yield', x))
                    # globmatch / full_match == glob.globmatch on the string (trailing separator for directories)
                    for c in sorted(ents)[:12]:
                        p = PL.Path(c)
                        s = str(p) + ('/' if p.is_dir() else '')
                        w = G.globmatch(s, txt, flags=(flags & PL.FLAG_MASK) | G.U)
                        if p.globmatch(txt, flags=flags) != w or p.full_match(txt, flags=flags) != w:
                            bad.append(('Path.globmatch/full_match-differs-from-glob.globmatch(str+sep)', c))
                        pp = PL.PurePosixPath(c)
                        if pp.globmatch(txt, flags=flags & ~PL.P) != G.globmatch(str(pp), txt, flags=(flags & PL.FLAG_MASK & ~PL.P) | G.U):
                            bad.append(('PurePosixPath.globmatch-differs-from-glob.globmatch(FORCEUNIX)', c))
                        pw = PL.PureWindowsPath(c)
                        if pw.globmatch(txt, flags=flags & ~PL.P) != G.globmatch(str(pw), txt, flags=(flags & PL.FLAG_MASK & ~PL.P) | G.W):
                            bad.append(('PureWindowsPath.globmatch-differs-from-glob.globmatch(FORCEWIN)', c))
                finally:
                    os.chdir(cwd0)
                out.append(dict(base, bad=bad[:8], n=len(rg), via_link=via_link))
            except CaseTimeout:
                os.chdir(cwd0)
                out.append(dict(base, bad=[('timeout', '')], n=0))
            except Exception:
                os.chdir(cwd0)
                out.append(dict(base, error=traceback.format_exc()[-900:]))
            finally:
                globrun.end_alarm(tok)
        # error clauses (once per tree)
        bad = []
        try:
            for api in ('glob', 'rglob'):
                try:
                    list(getattr(PL.Path(t.root), api)('/abs/*'))
                    bad.append((f'absolute-pattern-to-{api}-does-not-raise-ValueError', ''))
                except ValueError:
                    pass
            try:
                PL.PureWindowsPath('a').globmatch('a', flags=PL.P)
                bad.append(('REALPATH-on-foreign-pure-class-does-not-raise-ValueError', ''))
            except ValueError:
                pass
            if PL.PurePosixPath('a').globmatch('A', flags=G.W) or not PL.PureWindowsPath('a').globmatch('A', flags=G.U):
                bad.append(('platform-rules-not-fixed-by-the-path-class', ''))
        except Exception:
            bad.append(('error-clause-crashed', traceback.format_exc()[-300:]))
        out.append(dict(tree=tname, pattern='<error clauses>', flags=0, fl='', bad=bad, n=1))
    return out
