"""Generated directory trees for the bounded run-time contract checks (built under tempfile.mkdtemp(), removed in finally).

A tree spec is a dict  relative path -> kind :  'f' regular file, 'd' directory, ('l', target) symlink with the given
(relative-to-link) target.  Parents are created implicitly."""
import os
import random
import shutil
import tempfile

BASIC = {
    'a': 'f', 'b.txt': 'f', '.h': 'f', 'd': 'd', 'd/a': 'f', 'd/.hh': 'f', 'd/e': 'd', 'd/e/a': 'f', 'd/e/b.txt': 'f', 'c': 'd', 'c/a': 'd', 'c/a/a': 'f',
}
LINKS = {
    'f': 'f', 'd': 'd', 'd/x': 'f', 'd/s': 'd', 'd/s/y': 'f', 'ld': ('l', 'd'), 'lf': ('l', 'f'), 'dang': ('l', 'nowhere'), 'd/up': ('l', '..'),
    '.hd': 'd', '.hd/z': 'f', 'lh': ('l', '.hd'), 'd/s/lf2': ('l', '../x'), 'd/s/t': 'd', 'd/s/t/y2': 'f',
}
NESTED = {'a': 'd', 'a/a': 'd', 'a/a/a': 'f', 'a/b': 'f', 'b': 'd', 'b/a': 'f', 'b/b': 'd', 'b/b/b': 'f', 'a/.a': 'f', '.a': 'd', '.a/a': 'f'}
CASE = {'Sub': 'd', 'Sub/A.txt': 'f', 'Sub/b.txt': 'f', 'sub': 'd', 'sub/a.txt': 'f', 'X': 'f', 'x': 'f', 'Sub/D': 'd', 'Sub/D/q': 'f', 'Sub/d': 'd', 'Sub/d/r': 'f', 'Sub/d/Q': 'f'}
DEEP2 = {'a': 'd', 'a/r': 'd', 'a/r/t': 'f', 'a/lr': ('l', 'r'), 'a/r/up': ('l', '../..'), 'top': 'f', 'a/r/.dot': 'd', 'a/r/.dot/in': 'f', 'a/sib': 'd', 'a/sib/lt': ('l', '../r/t')}
ACYCLIC = {'a': 'd', 'a/r': 'd', 'a/r/t': 'f', 'a/lr': ('l', 'r'), 'a/sib': 'd', 'a/sib/lt': ('l', '../r/t'), 'a/r/lk': ('l', '../sib'), 'd': 'd', 'd/ls': ('l', '../a/sib'), 'd/y': 'f',
           'a/sib/y': 'f', '.hl': ('l', 'a')}
ODD = {'x\\y': 'f', 'x': 'd', 'x/y': 'f', 'q\\': 'd', 'q\\/z': 'f', 'y': 'f', 'a*b': 'f', 'a[b]': 'f', 'axb': 'f', '{a,b}': 'f', 'a|b': 'd', 'a|b/!c': 'f', '-n': 'f', '~': 'f', 'x\\': 'd', 'x\\/y': 'f'}
RELINK = {'d': 'd', 'd/d': ('l', '../d'), 'd/A': 'f', 'd/e': 'd', 'd/e/d': ('l', '..')}      # a link named like its own parent: two ways to read 'd/d/A'
LOOPS = {'loop': ('l', 'loop'), 'm1': ('l', 'm2'), 'm2': ('l', 'm1'), 'f': 'f', 'd': 'd', 'd/x': 'f', 'd/loop2': ('l', 'loop2'), 'dang': ('l', 'nowhere')}   # links that cannot be resolved (ELOOP) exist like dangling ones
TWIN = {'p': 'd', 'p/d': 'd', 'p/d/f': 'f', 'q': 'd', 'q/lp': ('l', '../p'), 'r': 'd', 'r/lp': ('l', '../p'), 'd': 'd', 'd/g': 'f', 'zz': 'd', 'zz/lp': ('l', '../p')}
EMPTY = {}
NAMED = {'basic': BASIC, 'links': LINKS, 'nested': NESTED, 'case': CASE, 'deep2': DEEP2, 'acyclic': ACYCLIC, 'odd': ODD, 'relink': RELINK, 'loops': LOOPS}


def is_cyclic(spec):
    for p, k in spec.items():
        if isinstance(k, tuple):
            tgt = os.path.normpath(os.path.join(os.path.dirname(p), k[1]))
            if tgt == '.' or p.startswith(tgt + '/') or tgt.startswith('..'):
                return True
    return False


def random_spec(rnd, n=7):
    names = ['a', 'b', '.h', 'd', 'e', 'A', 'b.txt', '.d', 'x']
    spec = {}
    dirs = ['']
    for _ in range(n):
        parent = rnd.choice(dirs)
        name = rnd.choice(names)
        p = (parent + '/' if parent else '') + name
        if p in spec or any(q.startswith(p + '/') for q in spec):
            continue
        if any(isinstance(spec.get(x), tuple) or spec.get(x) == 'f' for x in _prefixes(p)):
            continue
        k = rnd.random()
        if k < 0.4:
            spec[p] = 'f'
        elif k < 0.75:
            spec[p] = 'd'
            dirs.append(p)
        else:
            depth = p.count('/')
            # targets never leave the tree (a link to the tree's parent would list other workers' scratch directories)
            tgt = rnd.choice((['..'] if depth >= 1 else ['.']) + ['nowhere'] + [('../' * depth) + x for x in spec if x != p][:6])
            spec[p] = ('l', tgt)
    return spec


def _prefixes(p):
    parts = p.split('/')
    return ['/'.join(parts[:i]) for i in range(1, len(parts))]


class Tree:
    def __init__(self, spec, prefix='wcv-'):
        self.spec = spec
        self.prefix = prefix
        self.root = None

    def __enter__(self):
        self.parent = tempfile.mkdtemp(prefix=self.prefix)
        self.root = os.path.join(self.parent, 'root')       # own parent: `..` never shows another worker's tree
        os.mkdir(self.root)
        for p in sorted(self.spec, key=lambda x: (x.count('/'), x)):
            k = self.spec[p]
            full = os.path.join(self.root, p)
            os.makedirs(os.path.dirname(full), exist_ok=True)
            if k == 'f':
                with open(full, 'w'):
                    pass
            elif k == 'd':
                os.makedirs(full, exist_ok=True)
            else:
                os.symlink(k[1], full)
        return self

    def __exit__(self, *a):
        shutil.rmtree(self.parent, ignore_errors=True)

    def entries_through_links(self, depth=5):
        """additionally the paths that go through symlinked directories (each real directory at most once per path: no cycles)"""
        out = []

        def walk(rel, seen, d):
            full = os.path.join(self.root, rel) if rel else self.root
            real = os.path.realpath(full)
            if real in seen or d > depth:
                return
            try:
                names = sorted(os.listdir(full))
            except OSError:
                return
            for n in names:
                p = (rel + '/' if rel else '') + n
                out.append(p)
                if os.path.isdir(os.path.join(self.root, p)):
                    walk(p, seen | {real}, d + 1)
        walk('', frozenset(), 0)
        return sorted(set(out))

    def entries(self):
        """every entry of the tree (relative paths) found by a plain lstat walk that does not follow links"""
        out = []
        for base, dirs, files in os.walk(self.root, followlinks=False):
            rel = os.path.relpath(base, self.root)
            rel = '' if rel == '.' else rel
            for n in dirs + files:
                out.append((rel + '/' if rel else '') + n)
        return sorted(out)


def link_is_written(spec, path, pattern_text):
    """True iff some component of `path` is a symlink of the tree whose NAME the pattern writes literally (then walking through it is 'as written',
    and a matcher that reads the same text with another decomposition may see the link inside a `**`)."""
    import re
    names = set(re.findall(r'[A-Za-z0-9_.]+', pattern_text))
    parts = path.rstrip('/').split('/')
    for i in range(1, len(parts) + 1):
        if isinstance(spec.get('/'.join(parts[:i])), tuple) and parts[i - 1] in names:
            return True
    return False
