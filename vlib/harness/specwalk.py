"""Specification walk: what glob() must return for a path-pattern AST on a real directory, obtained by interpreting the
pattern segment by segment against actual directory contents with the C02/C03 segment meaning (vlib/spec/den.py) and
the C05/C06 statements.  Nothing of wcmatch is used.

Rules (statement C05 / C06):
  * literal segments are followed as written (incl. `.`, `..`, symlinked directories); they need not be listed, only exist
  * magic segments are matched against the real directory listing; `.`/`..` are candidates only with SCANDOTDIR
  * a segment that is not the last one (or a pattern with a trailing separator) selects directories only
  * `**` (GLOBSTAR) = zero or more directories: hidden ones only with DOTGLOB; a symlinked directory met by `**` is a result
    but is traversed only with FOLLOW, or when the segment is `***` under GLOBSTARLONG (where FOLLOW is ignored except
    for MATCHBASE's implicit prefix)
  * MATCHBASE + slash-less pattern = the pattern at any depth
Results are returned without trailing separators (C12 checks those separately).
"""
import os

from .. import relang as R
from ..spec import pat as P, den as D


class Walk:
    def __init__(self, root, mode, which='must', scandotdir=False, follow=False, nodir=False):
        self.root, self.m, self.which = root, mode, which
        self.scandotdir, self.follow, self.nodir = scandotdir, follow, nodir
        self._list = {}

    def ab(self, rel):
        return os.path.join(self.root, rel) if rel else self.root

    def listdir(self, rel):
        if rel not in self._list:
            try:
                self._list[rel] = sorted(os.listdir(self.ab(rel)))
            except OSError:
                self._list[rel] = []
        return self._list[rel]

    @staticmethod
    def J(a, b):
        return b if a == '' else (a + b if a.endswith('/') else a + '/' + b)

    def hidden_ok(self, name):
        return self.m.dot or not name.startswith('.')

    def descend(self, rel, acc, follow):
        for name in self.listdir(rel):
            if not self.hidden_ok(name):
                continue
            p = self.J(rel, name)
            full = self.ab(p)
            isdir = os.path.isdir(full)
            islink = os.path.islink(full)
            acc.append((p, isdir, islink))
            if isdir and (not islink or follow):
                self.descend(p, acc, follow)

    def glob(self, els):
        m = self.m
        els = tuple(els)
        if not m.ext:
            out = []
            for el in els:
                out.extend(P.lower_noext((el,)) if el[0] == 'ext' else (el,))
            els = tuple(out)
        segs, lead, trail = P.segments(els)
        if lead or not segs:
            return None            # absolute / empty patterns are not walked by this spec
        has_sep = any(e[0] == 'sep' for e in els)

        def is_gs(seg):
            if len(seg) != 1:
                return None
            if seg[0][0] == 'gs' and m.globstar:
                return 'gs'
            if seg[0][0] == 'gsl' and m.globstarlong:
                return 'gsl'
            return None

        def plain(seg):
            out = []
            for t in seg:
                out += [('star',)] * (2 if t[0] == 'gs' else 3) if t[0] in ('gs', 'gsl') else [t]
            return tuple(out)
        norm = []
        for s in segs:
            g = is_gs(s)
            if g and norm and norm[-1][0] == 'GS':
                norm[-1] = ('GS', 'gsl' if 'gsl' in (g, norm[-1][1]) else g)    # consecutive globstars count as one; `***` anywhere in the run makes it `***`
                continue
            norm.append(('GS', g) if g else ('SEG', plain(s)))
        if m.matchbase and not has_sep and not trail and len(norm) == 1:
            norm.insert(0, ('GS', 'gsl' if (m.globstarlong and self.follow) else 'gs-implicit'))
        cur = [('', True)]
        n = len(norm)
        for idx, (kind, val) in enumerate(norm):
            last = idx == n - 1
            need_dir = (not last) or trail
            nxt = []
            seen = set()

            def add(p, isdir):
                if p not in seen:
                    seen.add(p)
                    nxt.append((p, isdir))
            if kind == 'GS':
                fl = (val == 'gsl') or (self.follow and not m.globstarlong) or (val == 'gs-implicit' and self.follow and not m.globstarlong)
                for c, cdir in cur:
                    if c != '' and not os.path.isdir(self.ab(c)):
                        continue
                    acc = []
                    self.descend(c.rstrip('/') if c != '/' else c, acc, fl)
                    if last:
                        if c != '':
                            add(c.rstrip('/') + '/', True)      # zero segments after the written separator: the directory itself
                        for p, d, l in acc:
                            if d or not trail:
                                add(p, d)
                    else:
                        add(c, True)
                        for p, d, l in acc:
                            if d and (not l or fl):
                                add(p, True)          # a symlink met by `**` is a result, never a base for what follows
                cur = nxt
                continue
            seg = val
            literal = D.all_literal(seg)
            auto = None if literal else R.Spec(D.seg_lang(seg, m, self.which), m.maxc)
            lit = ''.join(t[1] for t in seg) if literal else None
            for c, cdir in cur:
                cc = c.rstrip('/') if c not in ('', '/') else c
                if cc != '' and not os.path.isdir(self.ab(cc)):
                    continue
                if literal:
                    if m.icase and lit not in ('.', '..'):
                        cands = [x for x in self.listdir(cc) if x.lower() == lit.lower()]
                    else:
                        cands = [lit]
                else:
                    cands = self.listdir(cc) + (['.', '..'] if self.scandotdir else [])
                    cands = [x for x in cands if auto.member(x)]
                for name in cands:
                    p = self.J(cc, name)
                    full = self.ab(p)
                    if not os.path.lexists(full):
                        continue
                    isdir = os.path.isdir(full)
                    if need_dir and not isdir:
                        continue
                    add(p, isdir)
            cur = nxt
        out = set()
        for p, isdir in cur:
            q = p.rstrip('/') if p != '/' else p
            if q == '':
                continue
            if self.nodir and os.path.isdir(self.ab(q)):
                continue
            out.add(q)
        return out


def norm_result(path):
    """glob result -> comparison form (trailing separators stripped)"""
    q = path.rstrip('/')
    return q if q else path
