"""Shared pattern sets (ASTs) for the language checks."""
import itertools

from .spec import pat as P

L = lambda c: ('lit', c)     # noqa: E731


def mkpath(segs, lead=False, trail=False, dbl=False):
    els = []
    if lead:
        els.append(('sep',))
    for i, s in enumerate(segs):
        if i:
            els.append(('sep',))
            if dbl:
                els.append(('sep',))
        els.extend(s)
    if trail:
        els.append(('sep',))
    return tuple(els)


def seg_atoms(alpha='a'):
    a = alpha
    return [
        (L(a),), (('star',),), (('q',),), (L('.'), L(a)), (('gs',),), (('gsl',),), (L(a), ('star',)), (('star',), L(a)),
        (('br', False, (('ch', a), ('ch', 'b'))),), (('ext', '?', ((L(a),),)),), (('ext', '*', ((L(a),),)), L('b')),
        (('ext', '@', ((L(a),), (L('b'), ('star',)))),), (('ext', '!', ((L(a),),)),), (L('.'),), (L('.'), L('.')),
        (('star',), ('q',), L(a)), (L('.'), ('star',)), (('ext', '+', ((('q',),),)),), (('br', True, (('ch', a),)),),
        (('esc', '*'),), (('ext', '!', ((L(a),), (('star',), L('b')))), L('c')), (('q',), ('q',)), (('br', False, (('posix', 'alpha'),)), ('star',)),
        (('star',), L('('), L(a)), (('q',), L('('), L(a)), (L('['), L(a)),
        # brackets whose range / POSIX class contains the separator: nothing but a written separator or `**` matches `/`
        (L(a), ('br', False, (('rng', ' ', '~'),)), L('b')), (('br', False, (('posix', 'punct'),)), L(a)), (L(a), ('br', False, (('rng', '+', '9'), ('ch', 'x')))),
        (('br', True, (('rng', 'a', 'c'),)), ('star',)),
    ]


def path_patterns(tier='quick', alpha='a'):
    segs = seg_atoms(alpha)
    pats = []
    for s in segs:
        pats += [mkpath([s]), mkpath([s], trail=True), mkpath([s], lead=True)]
    n2 = 14 if tier == 'quick' else len(segs)
    for a, b in itertools.product(segs[:n2], repeat=2):
        pats.append(mkpath([a, b]))
    for a, b in itertools.product(segs[:8], repeat=2):
        pats += [mkpath([a, b], trail=True), mkpath([a, b], dbl=True)]
    n3 = 6 if tier == 'quick' else 10
    for a, b, c in itertools.product(segs[:n3], repeat=3):
        pats.append(mkpath([a, b, c]))
    if tier != 'quick':
        for a, b, c, d in itertools.product(segs[:6], repeat=4):
            pats.append(mkpath([a, b, c, d]))
    # runs of consecutive globstar segments (they count as one) followed by segment-start-sensitive tokens
    gs, gsl, a, star, q = (('gs',),), (('gsl',),), (L(alpha),), (('star',),), (('q',),)
    for pre in ([], [a]):
        for g1, g2 in itertools.product((gs, gsl), repeat=2):
            for tail in ([star], [q], [a], [gs, a], [gs, star], [gs, (L('b'),)], [(('ext', '@', ((('star',),),)),)], [(('br', True, (('ch', 'b'),)), ('star',))]):
                pats.append(mkpath(pre + [g1, g2] + tail))
            pats.append(mkpath(pre + [g1, g2, star], trail=True))
    # the separator written as an escaped slash: a separator like any other (the next token stands at a segment start)
    esep = ('sep', 'esc')
    for s in segs[:12] + segs[16:20]:
        for first in ((L(alpha),), (('star',),)):
            pats.append(tuple(first) + (esep,) + tuple(s))
    pats += [(L(alpha), esep, ('sep',), L('b')), (L(alpha), ('sep',), esep, L('b')), (L(alpha), esep, ('star',), esep), (('gs',), esep, ('star',)), (L(alpha), esep, ('gs',), esep, ('q',))]
    # an extended-group opener that is never closed is literal text (C10): the separators, `**` and escaped separators after it keep their meaning
    for c in '@+*?':
        op = (('star',) if c == '*' else ('q',) if c == '?' else L(c))
        pats += [(op, L('('), L(alpha), ('sep',), ('gs',), ('sep',), L('b')), (op, L('('), L(alpha), esep, L('b')), (op, L('('), ('sep',), ('gs',)), (L('x'), op, L('('), L(alpha), ('sep',), ('gs',), ('sep',), ('q',))]
    # a written dot at the start of an alternative of one group says nothing about a LATER segment: `!(b)` there still refuses `.` and `..`
    for k in '@+?*':
        g = ('ext', k, ((L('.'), L(alpha)), (L('x'),)))
        neg = ('ext', '!', ((L('b'),),))
        pats += [(g, ('sep',), neg), (g, L('x'), ('sep',), neg), (g, ('sep',), neg, ('sep',), L(alpha)), (g, ('sep',), ('star',)), (g, ('sep',), ('ext', '@', ((('star',),),)))]
    # a negated group closed directly by a separator written as an escaped slash: the separator stays outside the group's look-ahead
    negb = ('ext', '!', ((L(alpha),),))
    pats += [(negb, esep, L('b')), (L('x'), negb, esep, L('b')), (('gs',), esep, negb, esep, L('b')), (negb, esep, ('star',)), (negb, esep, negb)]
    # a literal `+` (or a `+(...)` group) as the last thing of a pattern: a trailing separator on the path is tolerated as after any other text
    pats += [mkpath([(L(alpha),), (L('c'), L('+'), L('+'))]), mkpath([(('gs',),), (L('n'), L('+'))]), mkpath([(L(alpha),), (('ext', '+', ((L('b'),),)),)]), ((L('c'), L('+')))]
    # `/` inside brackets and groups: only generated where the statement is definite (none here)
    return list(dict.fromkeys(pats))


def name_patterns(tier='quick', alpha='ab.'):
    A = P.atoms(alpha)
    inner = [L('a'), L('b'), L('.'), ('star',), ('q',), ('br', False, (('ch', 'a'), ('ch', '.')))]
    groups = P.ext_groups(inner, '?*+@', 2, 1)
    nested = [('ext', k, ((g,),)) for k in '?*+@' for g in groups[::7]]
    negs = P.ext_groups([L('a'), ('star',), ('q',), L('.')], '!', 2, 2)
    pats = list(P.enum_names(A, 2))
    pats += [(g,) for g in groups] + [(g, x) for g in groups[::3] for x in A[:5]] + [(x, g) for g in groups[::3] for x in A[:5]]
    pats += [(g,) for g in nested] + [(L('a'), g) for g in nested[::2]]
    pats += [(n,) for n in negs] + [(n, L('a')) for n in negs[::3]] + [(n, L('.'), L('b')) for n in negs[::5]]
    pats += [(L('a'), n) for n in negs[::4]]
    # brackets mixing a POSIX class with ranges / a literal '-', and groups after a prefix whose alternatives start with wildcards
    star, q = ('star',), ('q',)
    for items in ((('posix', 'digit'), ('rng', 'a', 'c')), (('posix', 'alpha'), ('ch', '-'), ('ch', '.')), (('rng', 'a', 'c'), ('posix', 'digit'), ('rng', 'x', 'z')),
                  (('posix', 'upper'), ('ch', 'a'), ('rng', '0', '3')),
                  # a hyphen standing between a character and a POSIX class is literal (no range with a class), and what follows starts afresh
                  (('ch', 'z'), ('ch', '-'), ('posix', 'digit'), ('ch', '!')), (('ch', 'b'), ('ch', '-'), ('posix', 'alpha'), ('ch', '.'), ('rng', '0', '3'))):
        for neg in (False, True):
            b = ('br', neg, items)
            pats += [(b,), (b, star), (L('a'), b), (b, b)]
    # escaped members of a bracket denote themselves (file-name mode; in path mode an escaped separator ends the bracket)
    for items in ((('ch', 'a'), ('ech', '/')), (('ech', '/'), ('ch', 'a')), (('ech', ']'), ('ch', 'b')), (('ch', 'a'), ('ech', '-'), ('ch', 'c')), (('ech', 'a'), ('ech', '\\'))):
        for neg in (False, True):
            b = ('br', neg, items)
            pats += [(b,), (b, star), (L('a'), b, L('b'))]
    for k in '@?*+':
        for alts in (((L('a'),), (star,)), ((L('a'),), (q,)), ((star,), (L('.'), L('a'))), ((L('b'),), (('br', False, (('ch', 'a'), ('ch', '.'))),))):
            pats += [(L('a'), ('ext', k, alts)), (L('.'), ('ext', k, alts)), (L('a'), ('ext', k, alts), L('b'))]
    # `/` is an ordinary character in file-name mode (one written slash is exactly one slash)
    sl = L('/')
    pats += [(L('a'), sl, L('b')), (q, sl, L('b')), (sl, L('a')), (L('a'), sl), (L('a'), sl, sl, L('b')), (star, sl, star), (('ext', '@', ((L('a'),), (L('b'),))), sl, L('c')),
             (('br', False, (('ch', 'a'), ('ch', '/'))), L('b'))]
    # groups whose last alternative is longer than one character (a quantifier bound to the last atom only shows there)
    for k in '?*+@':
        pats += [(L('x'), ('ext', k, ((L('a'), L('b')),))), (('ext', k, ((L('a'), L('b')), (L('b'), L('a'), L('.')))), L('a')), (L('a'), ('ext', k, ((L('b'), ('ext', '+', ((L('a'), L('b')),))),)), L('.'))]
    # a literal '@', '+' or '!' that opens no group, more literal text, then a wildcard (the failed group attempt must leave the parser state as it was)
    for c in '@+!?*':
        if c in '?*':
            continue
        pats += [(L(c), L('a'), star), (L(c), L('a'), q), (L(c), L('a'), ('br', False, (('ch', '.'), ('ch', 'x'))), L('b')), (L(c), L('a'), L('.'), star), (L(c), star), (L(c), L('a'), ('ext', '?', ((L('b'),),)))]
    pats += degraded()
    pats += [d + (L('b'),) for d in degraded()[:6]] + [(L('a'),) + d for d in degraded()[:6]]
    if tier != 'quick':
        pats += list(P.enum_names(P.atoms('abB.'), 3))
    return list(dict.fromkeys(pats))


def degraded():
    """malformed constructs that C10 says degrade to literal text (unterminated groups / brackets): the same text, read as literals"""
    star, q = ('star',), ('q',)
    return [(star, L('('), L('a')), (q, L('('), L('a')), (L('@'), L('('), L('a')), (L('+'), L('('), L('a'), L('|'), L('b')), (L('!'), L('('), L('a')),
            (star, L('('), L('a'), L('|'), L('b')), (L('['), L('a')), (L('a'), L('[')), (star, L('('), q), (q, L('('), star), (L('['), L('!'), L('a')), (L('a'), L(')'), star)]
