"""pyvc - verification-condition generator / forward symbolic executor for the REAL wcmatch function bodies.

Every run re-reads /repo/wcmatch/<module>.py, extracts the FunctionDef named by a sidecar contract (contracts/*.py) with
`ast`, executes it symbolically path by path and emits named obligations that are discharged by z3 (fallback: cvc5).

What the extraction drops: docstrings, comments (incl. `# type:` comments), annotations, @overload stubs, Generic bases.
f-strings / str.format used for messages become opaque strings.

Python semantics assumed by the encoding (DESIGN.md 2.1): ints are mathematical; flag words are BitVec(64) (every
constant in the code is below 2**37 and flags are only tested as `flags & CONST`); truthiness as in Python; attribute
lookup is static; evaluation order left-to-right with short-circuit and/or; distinct container parameters do not alias;
calls without a contract are pure uninterpreted functions of their (normalised) arguments, except that calling an
unknown method on `self` is refused (Unsupported) unless the contract lists it as pure.

Loops are cut by invariants; calls to contracted functions are replaced by their contract; `raise`/`try` use an
exception-class lattice; generators log `yield`s into ghost state; program points can carry ghost updates and
obligations (`at`).
"""
import ast
import hashlib
import os
import subprocess
import tempfile
import time

import z3

from .common import REPO

BV = 64
Obj = z3.DeclareSort('Obj')
NONE_OBJ = z3.Const('None!', Obj)


class Unsupported(Exception):
    pass


_cnt = [0]


def fresh(p):
    _cnt[0] += 1
    return f'{p}!{_cnt[0]}'


# ---------------------------------------------------------------------------------------------- values
class V:
    __slots__ = ('kind', 't', 'a')

    def __init__(self, kind, t=None, **a):
        self.kind, self.t, self.a = kind, t, a

    def __repr__(self):
        return f'V({self.kind},{self.t},{self.a if self.a else ""})'


def Int(t):
    return V('int', z3.IntVal(t) if isinstance(t, int) else t)


def Flags(t):
    return V('bv', z3.BitVecVal(t, BV) if isinstance(t, int) else t)


def Bool(t):
    return V('bool', z3.BoolVal(t) if isinstance(t, bool) else t)


def Str(t, is_bytes=False):
    return V('str', z3.StringVal(t) if isinstance(t, str) else t, is_bytes=is_bytes)


def ObjV(t, **a):
    return V('obj', t, **a)


NONE = V('none')


def fresh_of(kind, name, **a):
    if kind == 'int':
        return Int(z3.Int(fresh(name)))
    if kind == 'bv':
        return Flags(z3.BitVec(fresh(name), BV))
    if kind == 'bool':
        return Bool(z3.Bool(fresh(name)))
    if kind == 'str':
        return Str(z3.String(fresh(name)), **a)
    if kind == 'obj':
        return ObjV(z3.Const(fresh(name), Obj))
    if kind == 'list':
        return V('list', None, length=z3.Int(fresh(name + '.len')), elem=a.get('elem'))
    if kind == 'none':
        return NONE
    raise Unsupported(f'fresh {kind}')


def fresh_like(v, name):
    if v.kind == 'set':
        return V('set', z3.Const(fresh(name), v.t.sort()))
    if v.kind == 'list':
        return V('list', None, length=z3.Int(fresh(name + '.len')), elem=v.a.get('elem'))
    if v.kind == 'str':
        return Str(z3.String(fresh(name)), is_bytes=v.a.get('is_bytes', False))
    if v.kind == 'opt':
        return V('opt', None, isnone=z3.Bool(fresh(name + '.isnone')), inner=fresh_like(v.a['inner'], name))
    if v.kind == 'tuple':
        return V('tuple', None, items=[fresh_like(x, name) for x in v.a['items']])
    return fresh_of(v.kind, name)


def truthy(v):
    k = v.kind
    if k == 'bool':
        return v.t
    if k == 'int':
        return v.t != 0
    if k == 'bv':
        return v.t != z3.BitVecVal(0, BV)
    if k == 'str':
        return z3.Length(v.t) > 0
    if k == 'none':
        return z3.BoolVal(False)
    if k == 'list':
        return v.a['length'] > 0
    if k == 'tuple':
        return z3.BoolVal(len(v.a['items']) > 0)
    if k == 'opt':
        return z3.And(z3.Not(v.a['isnone']), truthy(v.a['inner']))
    if k == 'set':
        return v.t != z3.EmptySet(v.t.sort().domain())
    if k == 'obj':
        if 'truth' not in v.a:
            v.a['truth'] = truth_term(v.t)
        return v.a['truth']
    if k == 'cset':
        if v.a.get('guards'):
            return z3.Or(*v.a['guards'])
        return z3.BoolVal(len(v.a['items']) > 0)
    raise Unsupported('truthy ' + k)


TRUTH = z3.Function('truthy', Obj, z3.BoolSort())


def truth_term(t):
    """truthiness of an Obj term: pushed through if-then-else and the value injections, uninterpreted otherwise"""
    if z3.is_app(t):
        d = t.decl()
        if d.kind() == z3.Z3_OP_ITE:
            c, a, b = t.children()
            return z3.If(c, truth_term(a), truth_term(b))
        nm = d.name()
        if nm == 'inj_bool':
            return t.arg(0)
        if nm == 'inj_int':
            return t.arg(0) != 0
        if nm == 'inj_bv':
            return t.arg(0) != z3.BitVecVal(0, BV)
        if nm in ('inj_str', 'inj_bytes'):
            return z3.Length(t.arg(0)) > 0
    return TRUTH(t)


def is_bytes_term(t, leaf):
    """`isinstance(t, bytes)` for an Obj term: decided for string injections, pushed through if-then-else, `leaf(t)` otherwise"""
    if z3.is_app(t):
        d = t.decl()
        if d.kind() == z3.Z3_OP_ITE:
            c, a, b = t.children()
            return z3.If(c, is_bytes_term(a, leaf), is_bytes_term(b, leaf))
        if d.name() == 'inj_bytes':
            return z3.BoolVal(True)
        if d.name() == 'inj_str':
            return z3.BoolVal(False)
    return leaf(t)


_inj = {}


def to_obj(v):
    """Inject any value into the uninterpreted Obj sort (for arguments of uninterpreted calls)."""
    k = v.kind
    if k == 'obj':
        return v.t
    if k == 'none':
        return NONE_OBJ
    if k == 'opt':
        return z3.If(v.a['isnone'], NONE_OBJ, to_obj(v.a['inner']))
    if k in ('int', 'bool', 'bv', 'str'):
        if k == 'str' and v.a.get('is_bytes'):
            k = 'bytes'          # bytes and str are distinct objects even when they spell the same code units
        f = _inj.get(k)
        if f is None:
            f = _inj[k] = z3.Function('inj_' + k, v.t.sort(), Obj)
        return f(v.t)
    if k == 'tuple':
        items = [to_obj(x) for x in v.a['items']]
        f = z3.Function(f'tuple{len(items)}', *([Obj] * len(items) + [Obj]))
        return f(*items) if items else z3.Const('tuple0', Obj)
    if k == 'list':
        f = z3.Function('list_of_len', z3.IntSort(), Obj)
        return f(v.a['length'])
    if k == 'dict':
        return z3.Const('dict:' + v.a['key'], Obj)
    if k == 'set':
        raise Unsupported('set as call argument')
    raise Unsupported('to_obj ' + k)


def U(name, *args, ret='obj'):
    """Uninterpreted application name(args) -> value of kind `ret`."""
    targs = [a if isinstance(a, z3.ExprRef) and a.sort() == Obj else to_obj(a if isinstance(a, V) else lift_py(a)) for a in args]
    rs = {'obj': Obj, 'bool': z3.BoolSort(), 'int': z3.IntSort(), 'bv': z3.BitVecSort(BV), 'str': z3.StringSort()}[ret]
    f = z3.Function(f'{name}/{len(targs)}', *([Obj] * len(targs) + [rs]))
    t = f(*targs) if targs else z3.Const(f'{name}/0', rs)
    return V(ret if ret != 'obj' else 'obj', t)


def lift_py(c):
    if isinstance(c, V):
        return c
    if isinstance(c, bool):
        return Bool(c)
    if isinstance(c, int):
        return Int(c)
    if isinstance(c, str):
        return Str(c)
    if isinstance(c, bytes):
        return Str(c.decode('latin-1'), is_bytes=True)
    if c is None:
        return NONE
    if isinstance(c, (tuple, list)):
        return V('tuple', None, items=[lift_py(x) for x in c])
    if isinstance(c, (frozenset, set)):
        return V('cset', None, items=[lift_py(x) for x in c])
    raise Unsupported(f'lift {type(c)}')


def is_none_term(t):
    """`t is None` for an Obj term: values built by injections / tuples / lists are never None."""
    if z3.is_app(t):
        d = t.decl()
        if d.kind() == z3.Z3_OP_ITE:
            c, a, b = t.children()
            return z3.If(c, is_none_term(a), is_none_term(b))
        nm = d.name()
        if nm.startswith(('inj_', 'tuple', 'list_of_len')):
            return z3.BoolVal(False)
    return t == NONE_OBJ


STR_LOWER = z3.Function('str_lower', z3.StringSort(), z3.StringSort())
PY_IS = z3.Function('py_is', Obj, Obj, z3.BoolSort())        # object identity: uninterpreted, only known to imply ==


def eq(a, b):
    """z3 Bool for Python `a == b` on modelled kinds."""
    if a.kind == 'none' or b.kind == 'none':
        x = b if a.kind == 'none' else a
        if x.kind == 'none':
            return z3.BoolVal(True)
        if x.kind == 'opt':
            return x.a['isnone']
        if x.kind == 'obj':
            return is_none_term(x.t)
        return z3.BoolVal(False)
    if a.kind == 'opt' or b.kind == 'opt':
        if a.kind == 'opt' and b.kind == 'opt':
            return z3.Or(z3.And(a.a['isnone'], b.a['isnone']), z3.And(z3.Not(a.a['isnone']), z3.Not(b.a['isnone']), eq(a.a['inner'], b.a['inner'])))
        o, x = (a, b) if a.kind == 'opt' else (b, a)
        return z3.And(z3.Not(o.a['isnone']), eq(o.a['inner'], x))
    if a.kind == 'int' and b.kind == 'bv':
        return z3.Int2BV(a.t, BV) == b.t
    if a.kind == 'bv' and b.kind == 'int':
        return a.t == z3.Int2BV(b.t, BV)
    if a.kind == 'bool' and b.kind == 'int':
        return z3.If(a.t, 1, 0) == b.t
    if a.kind == 'int' and b.kind == 'bool':
        return a.t == z3.If(b.t, 1, 0)
    if a.kind == 'tuple' and b.kind == 'tuple':
        if len(a.a['items']) != len(b.a['items']):
            return z3.BoolVal(False)
        return z3.And(*[eq(x, y) for x, y in zip(a.a['items'], b.a['items'])]) if a.a['items'] else z3.BoolVal(True)
    if a.kind != b.kind:
        if 'obj' in (a.kind, b.kind):
            return to_obj(a) == to_obj(b)
        return z3.BoolVal(False)
    if a.kind == 'str' and a.a.get('is_bytes', False) != b.a.get('is_bytes', False):
        return z3.BoolVal(False)
    return a.t == b.t


# ---------------------------------------------------------------------------------------------- states / outcomes
class Outcome:
    def __init__(self, kind, val=None, exc=None):
        self.kind, self.val, self.exc = kind, val, exc      # normal | return | raise | break | continue


class St:
    def __init__(self, pc=None, env=None, fields=None, ghost=None, trace=None, tmp=None):
        self.pc = pc or []
        self.env = env or {}
        self.fields = fields or {}
        self.ghost = ghost or {}
        self.trace = trace or []
        self.tmp = tmp or {}

    def fork(self, c=None, note=None):
        s = St(list(self.pc), dict(self.env), dict(self.fields), dict(self.ghost), list(self.trace), dict(self.tmp))
        if c is not None:
            s.pc.append(c)
        if note:
            s.trace.append(note)
        return s


class Fork:
    """Result of a call that forks the path: list of (condition, V | Outcome, ghost/field updater or None)."""

    def __init__(self, alts):
        self.alts = alts


EXC = {
    'BaseException': None, 'Exception': 'BaseException', 'StopIteration': 'Exception', 'PatternLimitException': 'Exception',
    '_wcparse.PatternLimitException': 'PatternLimitException',
    'bracex.ExpansionLimitException': 'Exception', 'OSError': 'Exception', 'ValueError': 'Exception', 'TypeError': 'Exception',
    'SyntaxError': 'Exception', 'IndexError': 'LookupError', 'KeyError': 'LookupError', 'LookupError': 'Exception',
    'PathNameException': 'Exception', '_wcparse.PathNameException': 'PathNameException', 'DotException': 'Exception',
    'AttributeError': 'Exception', 'OverflowError': 'ArithmeticError', 'ArithmeticError': 'Exception', 'HookError': 'Exception',
}


def isa(e, cls):
    cls = cls.split('.')[-1] if cls not in EXC else cls
    while e is not None:
        if e == cls or e.split('.')[-1] == cls:
            return True
        e = EXC.get(e, 'Exception' if e != 'BaseException' else None)
    return False


class AbstractIter:
    """length: z3 Int; elem(k) -> V; raise_rule(st, k) -> [(cond, exc)] may fire at the head of iteration k;
    exhaust_rule(st, k) -> z3 Bool assumed when the iterator is exhausted normally."""

    def __init__(self, length, elem, raise_rule=None, exhaust_rule=None):
        self.length, self.elem, self.raise_rule, self.exhaust_rule = length, elem, raise_rule, exhaust_rule


# ---------------------------------------------------------------------------------------------- source binding
_src_cache = {}


def module_ast(module):
    path = os.path.join(REPO, 'wcmatch', module + '.py')
    key = (path, os.path.getmtime(path))
    if key not in _src_cache:
        src = open(path).read()
        _src_cache[key] = (ast.parse(src), src)
    return _src_cache[key]


def find_def(module, qual):
    tree, src = module_ast(module)
    node = tree
    for part in qual.split('.'):
        body = node.body
        cands = [n for n in body if isinstance(n, (ast.FunctionDef, ast.ClassDef)) and n.name == part and
                 not any(ast.unparse(d).endswith('overload') for d in getattr(n, 'decorator_list', []))]
        if not cands:
            # nested function (e.g. norm_pattern.norm)
            cands = [n for n in ast.walk(node) if isinstance(n, ast.FunctionDef) and n.name == part and n is not node]
        if not cands:
            raise Unsupported(f'{module}.{qual}: definition not found')
        node = cands[-1]
    return node, ast.get_source_segment(src, node)


def module_consts(module):
    """Evaluate simple module-level constant assignments (ints, strs, tuples, frozensets of them, names of earlier ones)."""
    tree, _ = module_ast(module)
    env = {}
    imports = {}
    for n in tree.body:
        if isinstance(n, ast.ImportFrom) and n.level == 1:
            for a in n.names:
                imports[a.asname or a.name] = a.name
        if isinstance(n, ast.Assign):
            try:
                val = _const_eval(n.value, env, imports)
            except Exception:
                continue
            for t in n.targets:
                if isinstance(t, ast.Name):
                    env[t.id] = val
                elif isinstance(t, ast.Tuple):
                    pass
    return env, imports


_mod_const_cache = {}


def consts_of(module):
    tree, _ = module_ast(module)
    key = (module, id(tree))
    if key not in _mod_const_cache:
        _mod_const_cache[key] = module_consts(module)
    return _mod_const_cache[key]


def _const_eval(e, env, imports):
    if isinstance(e, ast.Constant):
        if isinstance(e.value, (int, str, bytes, bool)) or e.value is None:
            return e.value
        raise ValueError
    if isinstance(e, ast.Name):
        return env[e.id]
    if isinstance(e, ast.Attribute) and isinstance(e.value, ast.Name) and e.value.id in imports:
        sub, _ = consts_of(imports[e.value.id])
        return sub[e.attr]
    if isinstance(e, ast.BinOp):
        a, b = _const_eval(e.left, env, imports), _const_eval(e.right, env, imports)
        ops = {ast.BitOr: lambda: a | b, ast.BitAnd: lambda: a & b, ast.BitXor: lambda: a ^ b, ast.Add: lambda: a + b,
               ast.LShift: lambda: a << b, ast.Sub: lambda: a - b, ast.Mult: lambda: a * b}
        return ops[type(e.op)]()
    if isinstance(e, ast.Tuple):
        return tuple(_const_eval(x, env, imports) for x in e.elts)
    if isinstance(e, ast.Call) and isinstance(e.func, ast.Name) and e.func.id == 'frozenset' and len(e.args) == 1:
        v = _const_eval(e.args[0], env, imports)
        return frozenset(v)
    if isinstance(e, ast.UnaryOp) and isinstance(e.op, ast.Invert):
        return ~_const_eval(e.operand, env, imports)
    raise ValueError


def signature(module, qual):
    """(param names, defaults dict name->ast, kwonly names, has_varkw) of the real function; `self` dropped for methods."""
    fn, _ = find_def(module, qual)
    a = fn.args
    pos = [x.arg for x in a.posonlyargs + a.args]
    defaults = {}
    for name, d in zip(reversed(pos), reversed(a.defaults)):
        defaults[name] = d
    kwonly = [x.arg for x in a.kwonlyargs]
    for name, d in zip(kwonly, a.kw_defaults):
        if d is not None:
            defaults[name] = d
    if '.' in qual and pos and pos[0] in ('self', 'cls'):
        pos = pos[1:]
    return pos, defaults, kwonly, a.kwarg is not None


# ---------------------------------------------------------------------------------------------- engine
class Engine:
    def __init__(self, module, qual, contract):
        self.module, self.qual, self.c = module, qual, contract
        loc = getattr(contract, 'locate', None)
        self.fn, self.src = loc() if loc else find_def(module, qual)
        self.consts, self.imports = consts_of(module)
        self.obls = []           # (name, St, claim, lineno)
        self.paths = []          # terminal (St, Outcome)
        loops = [n for n in ast.walk(self.fn) if isinstance(n, (ast.For, ast.While))]
        loops.sort(key=lambda n: (n.lineno, n.col_offset))
        self.loop_ord = {id(n): i + 1 for i, n in enumerate(loops)}
        self.loops = loops
        self.is_generator = any(isinstance(n, (ast.Yield, ast.YieldFrom)) for n in ast.walk(self.fn))
        self.hooks = dict(getattr(contract, 'hooks', {}))
        self.pure = set(getattr(contract, 'pure', ()))
        self.forking = set(getattr(contract, 'forking', ()))
        self.at = getattr(contract, 'at', {})
        self.ghost_update = getattr(contract, 'ghost_update', {})

    # ---- obligations
    def oblige(self, name, st, claim, node=None):
        self.obls.append((name, st.fork(), claim, getattr(node, 'lineno', 0)))

    def point(self, kind, name, node, st, result=None):
        """program point `kind:name` (call:NAME | yield | assign:self.X): obligations first, then ghost updates"""
        st.ghost['$point_value'] = result
        for pat, claims in self.at.items():
            if self._pmatch(pat, kind, name):
                for cname, fn in claims:
                    self.oblige(cname, st, fn(st), node)
        for pat, fn in self.ghost_update.items():
            if self._pmatch(pat, kind, name):
                fn(st, result)

    @staticmethod
    def _pmatch(pat, kind, name):
        for alt in pat.split('|'):
            k, _, n = alt.partition(':')
            if k == kind and (n == name or n == '*' or (not n and not name)):
                return True
        return False

    def feasible(self, st):
        s = z3.Solver()
        s.set('timeout', 2000)
        s.add(*st.pc)
        return s.check() != z3.unsat

    # ---- name resolution
    def resolve_const(self, name):
        if name in self.consts:
            return self.consts[name]
        raise KeyError(name)

    def dotted(self, e):
        try:
            return ast.unparse(e)
        except Exception:
            return None

    # ---- expressions
    def cond(self, e, st):
        if isinstance(e, ast.BoolOp):
            # short-circuit: operand i is evaluated under the knowledge that the earlier ones did not decide the result
            ps, pushed = [], 0
            try:
                for x in e.values:
                    p = self.cond(x, st)
                    ps.append(p)
                    st.pc.append(p if isinstance(e.op, ast.And) else z3.Not(p))
                    pushed += 1
            finally:
                del st.pc[len(st.pc) - pushed:]
            return z3.And(*ps) if isinstance(e.op, ast.And) else z3.Or(*ps)
        if isinstance(e, ast.UnaryOp) and isinstance(e.op, ast.Not):
            return z3.Not(self.cond(e.operand, st))
        if isinstance(e, ast.Compare):
            return self.compare(e, st)
        if isinstance(e, ast.Call) and self.dotted(e.func) == 'bool' and len(e.args) == 1:
            return self.cond(e.args[0], st)
        return truthy(self.ev(e, st))

    def compare(self, e, st):
        vals = [self.ev(e.left, st)] + [self.ev(c, st) for c in e.comparators]
        out = []
        for op, a, b in zip(e.ops, vals, vals[1:]):
            if isinstance(op, (ast.In, ast.NotIn)):
                if b.kind == 'cset':
                    gs = b.a.get('guards') or [None] * len(b.a['items'])
                    alts = [eq(a, x) if g is None else z3.And(g, eq(a, x)) for x, g in zip(b.a['items'], gs)]
                    r = z3.Or(*alts) if alts else z3.BoolVal(False)
                elif b.kind == 'tuple':
                    alts = [eq(a, x) for x in b.a['items']]
                    r = z3.Or(*alts) if alts else z3.BoolVal(False)
                elif b.kind == 'set':
                    r = z3.IsMember(a.t, b.t)
                elif b.kind == 'str' and a.kind == 'str':
                    r = z3.Contains(b.t, a.t)
                elif b.kind in ('obj', 'str'):
                    r = truthy(U('contains', b, a))
                else:
                    raise Unsupported('in ' + b.kind)
                out.append(z3.Not(r) if isinstance(op, ast.NotIn) else r)
                continue
            if isinstance(op, (ast.Is, ast.IsNot)):
                r = eq(a, b)
                if a.kind in ('obj', 'tuple', 'list', 'set', 'dict') and b.kind in ('obj', 'tuple', 'list', 'set', 'dict'):
                    # identity between two objects: implies equality, is not implied by it (None / small constants are
                    # handled by eq above; `x is None` never reaches here because NONE has kind 'none')
                    r = z3.And(r, z3.Or(z3.And(is_none_term(to_obj(a)), is_none_term(to_obj(b))), PY_IS(to_obj(a), to_obj(b))))
                out.append(z3.Not(r) if isinstance(op, ast.IsNot) else r)
                continue
            if isinstance(op, ast.Eq):
                out.append(eq(a, b))
                continue
            if isinstance(op, ast.NotEq):
                out.append(z3.Not(eq(a, b)))
                continue
            if a.kind == 'bool':
                a = Int(z3.If(a.t, 1, 0))
            if b.kind == 'bool':
                b = Int(z3.If(b.t, 1, 0))
            if a.kind != 'int' or b.kind != 'int':
                raise Unsupported(f'ordering on {a.kind}/{b.kind}')
            r = {ast.Lt: lambda: a.t < b.t, ast.LtE: lambda: a.t <= b.t, ast.Gt: lambda: a.t > b.t, ast.GtE: lambda: a.t >= b.t}[type(op)]()
            out.append(r)
        return z3.And(*out) if len(out) > 1 else out[0]

    def ev(self, e, st):
        if id(e) in st.tmp:
            return st.tmp[id(e)]
        if isinstance(e, ast.Constant):
            c = e.value
            if isinstance(c, (bool, int, str, bytes)) or c is None:
                return lift_py(c)
            raise Unsupported(f'constant {c!r}')
        if isinstance(e, ast.Name):
            if e.id in st.env:
                return st.env[e.id]
            if e.id in self.hooks:
                return self.hooks[e.id](self, e, st, None)
            if e.id in self.consts:
                return self.lift_const(self.consts[e.id])
            if e.id in ('True', 'False', 'None'):
                return lift_py({'True': True, 'False': False, 'None': None}[e.id])
            return ObjV(z3.Const('global:' + e.id, Obj))
        if isinstance(e, ast.Attribute):
            full = self.dotted(e)
            if isinstance(e.value, ast.Name) and e.value.id == 'self':
                if e.attr in st.fields:
                    return st.fields[e.attr]
                if ('self.' + e.attr) in self.hooks:
                    return self.hooks['self.' + e.attr](self, e, st, None)
                raise Unsupported(f'read of unmodelled field self.{e.attr}')
            if full in self.hooks:
                return self.hooks[full](self, e, st, None)
            if isinstance(e.value, ast.Name) and e.value.id in self.imports:
                sub, _ = consts_of(self.imports[e.value.id])
                if e.attr in sub:
                    return self.lift_const(sub[e.attr])
            base = self.ev(e.value, st)
            if base.kind == 'obj' and 'fields' in base.a and e.attr in base.a['fields']:
                return base.a['fields'][e.attr]
            return U('attr.' + e.attr, base)
        if isinstance(e, ast.BinOp):
            return self.binop(e.op, self.ev(e.left, st), self.ev(e.right, st))
        if isinstance(e, ast.UnaryOp):
            if isinstance(e.op, ast.Not):
                return Bool(z3.Not(self.cond(e.operand, st)))
            v = self.ev(e.operand, st)
            if isinstance(e.op, ast.USub) and v.kind == 'int':
                return Int(-v.t)
            if isinstance(e.op, ast.Invert) and v.kind == 'bv':
                return Flags(~v.t)
            raise Unsupported('unary')
        if isinstance(e, ast.BoolOp):
            # value-producing and/or: only for uniform kinds
            vals = [self.ev(x, st) for x in e.values]
            if all(v.kind == 'bool' for v in vals):
                return Bool(self.cond(e, st))
            res = vals[-1]
            for x in reversed(vals[:-1]):
                c = truthy(x)
                a, b = (res, x) if isinstance(e.op, ast.And) else (x, res)     # and: x if falsy else res
                res = self.ite(c, a, b)
            return res
        if isinstance(e, ast.Compare):
            return Bool(self.cond(e, st))
        if isinstance(e, ast.IfExp):
            c = self.cond(e.test, st)
            cs = z3.simplify(c)
            if z3.is_true(cs):
                return self.ev(e.body, st)
            if z3.is_false(cs):
                return self.ev(e.orelse, st)
            st.pc.append(c)
            try:
                a = self.ev(e.body, st)
            finally:
                st.pc.pop()
            st.pc.append(z3.Not(c))
            try:
                b = self.ev(e.orelse, st)
            finally:
                st.pc.pop()
            return self.ite(c, a, b)
        if isinstance(e, ast.Subscript):
            return self.subscript(e, st)
        if isinstance(e, ast.Call):
            r = self.call(e, st)
            if isinstance(r, Fork):
                raise Unsupported(f'forking call in nested position: {self.dotted(e.func)}')
            return r
        if isinstance(e, ast.Tuple):
            return V('tuple', None, items=[self.ev(x, st) for x in e.elts])
        if isinstance(e, ast.List):
            if not e.elts:
                return V('list', None, length=z3.IntVal(0), elem=None)
            return V('tuple', None, items=[self.ev(x, st) for x in e.elts])
        if isinstance(e, ast.Set):
            return V('cset', None, items=[self.ev(x, st) for x in e.elts])
        if isinstance(e, ast.JoinedStr):
            if getattr(self.c, 'concrete_fstrings', False):
                # opt-in: an f-string whose parts are all strings (no conversion / format spec) is their concatenation
                parts = []
                for x in e.values:
                    if isinstance(x, ast.Constant) and isinstance(x.value, str):
                        parts.append(Str(x.value))
                    elif isinstance(x, ast.FormattedValue) and x.conversion == -1 and x.format_spec is None:
                        parts.append(self.ev(x.value, st))
                    else:
                        parts = None
                        break
                if parts and all(v.kind == 'str' for v in parts):
                    return Str(z3.Concat(*[v.t for v in parts]) if len(parts) > 1 else parts[0].t)
            return Str(z3.String(fresh('fstring')))
        if isinstance(e, ast.Dict):
            if not e.keys:
                return V('dict', None, key=fresh('dict'))
            if all(isinstance(k, ast.Constant) for k in e.keys):
                return V('dict', None, key=fresh('dict'), items={k.value: self.ev(v, st) for k, v in zip(e.keys, e.values)})
        raise Unsupported(ast.dump(e)[:100])

    def lift_const(self, c):
        if isinstance(c, bool):
            return Bool(c)
        if isinstance(c, int):
            return Flags(c) if c >= 0 else Int(c)
        return lift_py(c)

    def ite(self, c, a, b):
        if a.kind == b.kind and a.kind in ('int', 'bool', 'bv', 'str', 'obj') and a.t is not None:
            out = V(a.kind, z3.If(c, a.t, b.t))
            if a.kind == 'str':
                out.a['is_bytes'] = a.a.get('is_bytes', False)
            return out
        if a.kind == 'int' and b.kind == 'bv':
            return Flags(z3.If(c, z3.Int2BV(a.t, BV), b.t))
        if a.kind == 'bv' and b.kind == 'int':
            return Flags(z3.If(c, a.t, z3.Int2BV(b.t, BV)))
        if a.kind == 'none' and b.kind == 'none':
            return NONE
        if 'none' in (a.kind, b.kind):
            x, isnone = (b, c) if a.kind == 'none' else (a, z3.Not(c))
            if x.kind == 'opt':
                return V('opt', None, isnone=z3.Or(isnone, x.a['isnone']), inner=x.a['inner'])
            return V('opt', None, isnone=isnone, inner=x)
        if a.kind == 'tuple' and b.kind == 'tuple' and len(a.a['items']) == len(b.a['items']):
            return V('tuple', None, items=[self.ite(c, x, y) for x, y in zip(a.a['items'], b.a['items'])])
        if a.kind == 'opt' or b.kind == 'opt':
            ia, xa = (a.a['isnone'], a.a['inner']) if a.kind == 'opt' else (z3.BoolVal(False), a)
            ib, xb = (b.a['isnone'], b.a['inner']) if b.kind == 'opt' else (z3.BoolVal(False), b)
            return V('opt', None, isnone=z3.If(c, ia, ib), inner=self.ite(c, xa, xb))
        if a.kind == 'cset' and b.kind == 'cset':
            # a conditional choice between two constant sets: one set whose members carry guards
            ga = a.a.get('guards') or [z3.BoolVal(True)] * len(a.a['items'])
            gb = b.a.get('guards') or [z3.BoolVal(True)] * len(b.a['items'])
            return V('cset', None, items=list(a.a['items']) + list(b.a['items']), guards=[z3.And(c, g) for g in ga] + [z3.And(z3.Not(c), g) for g in gb])
        return ObjV(z3.If(c, to_obj(a), to_obj(b)))

    def binop(self, op, a, b):
        if isinstance(op, (ast.BitAnd, ast.BitOr, ast.BitXor)):
            if a.kind == 'bool' and b.kind == 'bool':
                return Bool({ast.BitAnd: z3.And, ast.BitOr: z3.Or, ast.BitXor: z3.Xor}[type(op)](a.t, b.t))
            ta = a.t if a.kind == 'bv' else (z3.Int2BV(a.t, BV) if a.kind == 'int' else None)
            tb = b.t if b.kind == 'bv' else (z3.Int2BV(b.t, BV) if b.kind == 'int' else None)
            if ta is None or tb is None:
                if a.kind == 'set' and b.kind == 'set' and isinstance(op, ast.BitOr):
                    return V('set', z3.SetUnion(a.t, b.t))
                raise Unsupported(f'bit op on {a.kind}/{b.kind}')
            return Flags({ast.BitAnd: lambda: ta & tb, ast.BitOr: lambda: ta | tb, ast.BitXor: lambda: ta ^ tb}[type(op)]())
        if a.kind == 'bool':
            a = Int(z3.If(a.t, 1, 0))
        if b.kind == 'bool':
            b = Int(z3.If(b.t, 1, 0))
        if a.kind == 'int' and b.kind == 'int':
            if isinstance(op, ast.Add):
                return Int(a.t + b.t)
            if isinstance(op, ast.Sub):
                return Int(a.t - b.t)
            if isinstance(op, ast.Mult):
                return Int(a.t * b.t)
            if isinstance(op, ast.Mod):
                return Int(a.t % b.t)
        if a.kind == 'str' and b.kind == 'str' and isinstance(op, ast.Add):
            return Str(z3.Concat(a.t, b.t), is_bytes=a.a.get('is_bytes', False))
        if a.kind == 'str' and b.kind in ('int', 'bv') and isinstance(op, ast.Mult):
            n = z3.simplify(b.t)
            if z3.is_int_value(n) or z3.is_bv_value(n):
                k = n.as_long()
                if 0 < k <= 16:
                    return Str(z3.Concat(*[a.t] * k) if k > 1 else a.t, is_bytes=a.a.get('is_bytes', False))      # text * small constant
        if isinstance(op, ast.Add) and a.kind in ('obj', 'str') and b.kind in ('obj', 'str'):
            return U('concat', a, b)
        if isinstance(op, ast.Add) and a.kind in ('obj', 'tuple') and b.kind in ('obj', 'tuple'):
            return U('concat', ObjV(to_obj(a)), ObjV(to_obj(b)))        # list + list where one side is an abstract list
        raise Unsupported(f'binop {type(op).__name__} on {a.kind}/{b.kind}')

    def subscript(self, e, st):
        a = self.ev(e.value, st)
        sl = e.slice
        if a.kind == 'str':
            if isinstance(sl, ast.Slice):
                n = z3.Length(a.t)

                def idx(x, dflt):
                    if x is None:
                        return dflt
                    v = self.ev(x, st)
                    if v.kind != 'int':
                        raise Unsupported('slice index')
                    return z3.If(v.t < 0, z3.If(n + v.t < 0, 0, n + v.t), z3.If(v.t > n, n, v.t))
                lo, hi = idx(sl.lower, z3.IntVal(0)), idx(sl.upper, n)
                return Str(z3.SubString(a.t, lo, z3.If(hi - lo < 0, 0, hi - lo)), is_bytes=a.a.get('is_bytes', False))
            raise Unsupported('string index (IndexError not modelled)')
        if a.kind == 'dict' and 'items' in a.a and isinstance(sl, ast.Constant) and sl.value in a.a['items']:
            return a.a['items'][sl.value]
        if a.kind == 'tuple':
            if isinstance(sl, ast.Constant) and isinstance(sl.value, int):
                return a.a['items'][sl.value]
            iv = self.ev(sl, st)
            if iv.kind == 'int' and z3.is_int_value(z3.simplify(iv.t)):
                return a.a['items'][z3.simplify(iv.t).as_long()]
            # symbolic index into a constant tuple: if-then-else chain
            items = a.a['items']
            if iv.kind == 'bool':
                iv = Int(z3.If(iv.t, 1, 0))
            res = items[-1]
            for i in range(len(items) - 2, -1, -1):
                res = self.ite(iv.t == i, items[i], res)
            return res
        if a.kind == 'list' and isinstance(sl, ast.Slice) and sl.lower is None and sl.upper is None:
            return a
        if a.kind in ('obj', 'list'):
            if isinstance(sl, ast.Slice):
                args = [self.ev(x, st) if x is not None else NONE for x in (sl.lower, sl.upper)]
                return U('slice', a if a.kind == 'obj' else ObjV(to_obj(a)), *args)
            return U('getitem', a if a.kind == 'obj' else ObjV(to_obj(a)), self.ev(sl, st))
        raise Unsupported('subscript on ' + a.kind)

    # ---- calls
    def norm_args(self, module, qual, e, st):
        """Arguments of call node `e` to the real function module.qual, in declaration order, defaults filled in."""
        pos, defaults, kwonly, _ = signature(module, qual)
        names = pos + kwonly
        vals = {}
        for n, a in zip(pos, e.args):
            if isinstance(a, ast.Starred):
                raise Unsupported('*args')
            vals[n] = self.ev(a, st)
        if len(e.args) > len(pos):
            raise Unsupported('too many positional arguments')
        for kw in e.keywords:
            if kw.arg is None:
                raise Unsupported('**kwargs')
            if kw.arg in vals:
                raise Unsupported('duplicate argument')
            vals[kw.arg] = self.ev(kw.value, st)
        consts, imports = consts_of(module)
        out = []
        for n in names:
            if n in vals:
                out.append(vals[n])
            elif n in defaults:
                dv = _const_eval(defaults[n], consts, imports)
                if isinstance(dv, int) and not isinstance(dv, bool) and n != 'flags':
                    out.append(Int(dv))
                else:
                    out.append(self.lift_const(dv))
            else:
                raise Unsupported(f'missing argument {n} in call to {module}.{qual}')
        extra = set(vals) - set(names)
        if extra:
            raise Unsupported(f'unknown keyword {extra}')
        return out

    def call(self, e, st):
        name = self.dotted(e.func)
        if name == 'bool' and len(e.args) == 1:
            return Bool(self.cond(e.args[0], st))
        if name == 'len' and len(e.args) == 1:
            a = self.ev(e.args[0], st)
            if a.kind == 'opt':
                a = a.a['inner']          # len(None) raises; the code under contract guards it (`if x is not None`)
            if a.kind == 'list':
                return Int(a.a['length'])
            if a.kind == 'str':
                return Int(z3.Length(a.t))
            if a.kind == 'tuple':
                return Int(len(a.a['items']))
            if a.kind == 'opt':
                a = a.a['inner']
            r = U('len', a, ret='int')
            st.pc.append(r.t >= 0)
            return r
        if name == 'isinstance' and 'isinstance' not in self.hooks and len(e.args) == 2:
            a = self.ev(e.args[0], st)
            cls = self.dotted(e.args[1])
            if a.kind == 'str':
                isb = a.a.get('is_bytes', False)
                if cls == 'bytes':
                    return Bool(isb)
                if cls == 'str':
                    return Bool(not isb)
                if cls in ('(str, bytes)', '(bytes, str)'):
                    return Bool(True)
            return U('isinstance:' + cls, a if a.kind != 'list' else ObjV(to_obj(a)), ret='bool')
        if name == 'set' and not e.args:
            sort = getattr(self.c, 'set_sort', z3.StringSort())
            return V('set', z3.EmptySet(sort))
        if name in ('tuple', 'list') and len(e.args) == 1:
            a = self.ev(e.args[0], st)
            return a
        if name == 'max' and len(e.args) == 2:
            a, b = self.ev(e.args[0], st), self.ev(e.args[1], st)
            if a.kind == 'int' and b.kind == 'int':
                return Int(z3.If(a.t >= b.t, a.t, b.t))
        if name in self.hooks:
            self.point('call', name.split('.')[-1], e, st)
            r = self.hooks[name](self, e, st, [self.ev(a, st) for a in e.args] if not any(isinstance(a, ast.Starred) for a in e.args) else None)
            for i in getattr(self.c, 'mutates', {}).get(name, ()):
                if i < len(e.args) and isinstance(e.args[i], ast.Name) and e.args[i].id in st.env:
                    st.env[e.args[i].id] = fresh_like(st.env[e.args[i].id], e.args[i].id)     # the callee may mutate this argument
            return r
        short = name.split('.')[-1] if name else ''
        if isinstance(e.func, ast.Attribute) and ('.' + e.func.attr) in self.hooks and not any(isinstance(a, ast.Starred) for a in e.args):
            # method-name hook ('.subn', '.join', ...): binds whatever expression the receiver is, so that re-spelling the receiver does not unbind the contract
            self.point('call', e.func.attr, e, st)
            return self.hooks['.' + e.func.attr](self, e, st, [self.ev(a, st) for a in e.args])
        # pure uninterpreted function of the arguments; repo functions get normalised argument lists
        target = getattr(self.c, 'callees', {}).get(name)
        if target is not None:
            args = self.norm_args(target[0], target[1], e, st)
            self.point('call', short, e, st)
            return U(f'{target[0]}.{target[1]}', *args, ret=target[2] if len(target) > 2 else 'obj')
        if name and name.startswith('self.') and name.count('.') == 1 and short not in self.pure:
            raise Unsupported(f'call to self.{short} without contract/hook (would need a frame)')
        if isinstance(e.func, ast.Attribute) and e.func.attr == 'format':
            return Str(z3.String(fresh('formatted')))        # message / template instantiation: opaque string
        if any(isinstance(a, ast.Starred) for a in e.args) or any(k.arg is None for k in e.keywords):
            raise Unsupported('star args')
        args = [self.ev(a, st) for a in e.args]
        kws = sorted((k.arg, self.ev(k.value, st)) for k in e.keywords)
        root = e.func
        while isinstance(root, ast.Attribute):
            root = root.value
        is_module_fn = isinstance(root, ast.Name) and root.id not in st.env and (root.id in self.imports or root.id in ('os', 're', 'util', 'bracex', 'functools', 'copyreg', 'stat', 'unicodedata', 'sys'))
        if isinstance(e.func, ast.Attribute) and not is_module_fn:
            recv = self.ev(e.func.value, st)
            mname = e.func.attr
            if mname in ('append', 'add') and len(args) == 1 and recv.kind in ('list', 'set'):
                self.point('call', mname, e, st, args[0])
            if recv.kind == 'obj' and mname == 'pop' and len(args) == 1 and isinstance(e.func.value, (ast.Name, ast.Attribute)):
                idx = args[0]
                if idx.kind == 'int' and z3.is_int_value(z3.simplify(idx.t)) and z3.simplify(idx.t).as_long() == 0:
                    head = U('list.head', recv)
                    self.store_back(e.func.value, U('list.tail', recv), st)
                    return head
            if recv.kind == 'list' and mname == 'append' and len(args) == 1:
                nl = V('list', None, length=recv.a['length'] + 1, elem=recv.a.get('elem'), tail=list(recv.a.get('tail', [])) + [args[0]])
                self.store_back(e.func.value, nl, st)
                return NONE
            if recv.kind == 'set' and mname == 'add' and len(args) == 1:
                self.store_back(e.func.value, V('set', z3.SetAdd(recv.t, args[0].t)), st)
                return NONE
            if recv.kind == 'str' and mname == 'endswith' and len(args) == 1 and args[0].kind == 'str':
                return Bool(z3.SuffixOf(args[0].t, recv.t))
            if recv.kind == 'str' and mname == 'startswith' and len(args) == 1 and args[0].kind == 'str':
                return Bool(z3.PrefixOf(args[0].t, recv.t))
            if recv.kind == 'str' and mname == 'lower' and not args:
                return Str(STR_LOWER(recv.t), is_bytes=recv.a.get('is_bytes', False))
            self.point('call', mname, e, st)
            return U('method.' + mname + ''.join(f',{k}=' for k, _ in kws), recv, *args, *[v for _, v in kws])
        self.point('call', short, e, st)
        return U('fn.' + name + ''.join(f',{k}=' for k, _ in kws), *args, *[v for _, v in kws])

    # ---- statements
    def block(self, stmts, st):
        frontier = [(st, Outcome('normal'))]
        for s in stmts:
            nxt = []
            for cur, oc in frontier:
                if oc.kind != 'normal':
                    nxt.append((cur, oc))
                    continue
                nxt.extend(self.stmt(s, cur))
            frontier = nxt
            if len(frontier) > 4000:
                raise Unsupported('path explosion')
        return frontier

    def store_back(self, target, val, st):
        if isinstance(target, ast.Name):
            st.env[target.id] = val
        elif isinstance(target, ast.Attribute) and self.dotted(target.value) == 'self':
            st.fields[target.attr] = val
        else:
            raise Unsupported('mutation of ' + ast.dump(target)[:60])

    def assign(self, target, val, st, node=None):
        if isinstance(target, ast.Name):
            st.env[target.id] = val
        elif isinstance(target, ast.Attribute) and self.dotted(target.value) == 'self':
            self.point('assign', 'self.' + target.attr, node or target, st, val)
            st.fields[target.attr] = val
        elif isinstance(target, ast.Tuple):
            if val.kind != 'tuple' or len(val.a['items']) != len(target.elts):
                if val.kind == 'obj':
                    for i, t in enumerate(target.elts):
                        self.assign(t, U(f'unpack{i}', val), st, node)
                    return
                raise Unsupported('tuple unpack')
            for t, v in zip(target.elts, val.a['items']):
                self.assign(t, v, st, node)
        elif isinstance(target, ast.Subscript):
            h = self.hooks.get('setitem')
            if h is None:
                raise Unsupported('subscript store')
            h(self, target, st, val)
        else:
            raise Unsupported(ast.dump(target)[:80])

    def forking_calls(self, e):
        """Call nodes inside expression e whose callee is registered as forking, in evaluation order."""
        out = []
        for n in ast.walk(e):
            if isinstance(n, ast.Call):
                nm = self.dotted(n.func)
                if nm in self.forking:
                    out.append(n)
        out.sort(key=lambda n: (n.lineno, n.col_offset))
        return out

    def eval_forking(self, e, st, as_cond=False):
        """Evaluate expression e that may contain forking calls. Returns list of (st, V | Outcome); with as_cond the
        value is Bool(truth of e) computed by `cond` (each call is evaluated exactly once either way)."""
        if e is None:
            return [(st, NONE)]
        if isinstance(e, ast.Subscript) and not isinstance(e.slice, ast.Slice) and getattr(self.c, 'index_forks', False) and not as_cond:
            # opt-in: `text[i]` on a str forks into the in-range value and IndexError (Python's rule: -len <= i < len)
            a = self.ev(e.value, st)
            if a.kind == 'str' and not a.a.get('is_bytes', False):
                i = self.ev(e.slice, st)
                if i.kind != 'int':
                    raise Unsupported('string index of kind ' + i.kind)
                n = z3.Length(a.t)
                ok = z3.And(i.t >= -n, i.t < n)
                out = []
                s_ok = st.fork(ok, f'L{e.lineno}:index-ok')
                if self.feasible(s_ok):
                    out.append((s_ok, Str(z3.SubString(a.t, z3.If(i.t < 0, n + i.t, i.t), 1))))
                s_bad = st.fork(z3.Not(ok), f'L{e.lineno}:IndexError')
                if self.feasible(s_bad):
                    out.append((s_bad, Outcome('raise', exc='IndexError')))
                return out
        final = (lambda s: Bool(self.cond(e, s))) if as_cond else (lambda s: self.ev(e, s))
        calls = self.forking_calls(e)
        if not calls:
            return [(st, final(st))]
        if (isinstance(e, ast.BoolOp) and as_cond and len(e.values) >= 2 and getattr(self.c, 'short_circuit_forks', False) and
                not any(self.forking_calls(x) for x in e.values[:-1]) and self.forking_calls(e.values[-1])):
            # opt-in: `a and b and CALL(...)` / `a or CALL(...)` - the forking call (with its side effects on the ghost state) happens only when the
            # operands before it did not decide the result
            is_and = isinstance(e.op, ast.And)
            pre = self.cond(ast.BoolOp(op=e.op, values=e.values[:-1]) if len(e.values) > 2 else e.values[0], st)
            out = []
            decided = st.fork(z3.Not(pre) if is_and else pre, f'L{e.lineno}:short-circuit')
            if self.feasible(decided):
                out.append((decided, Bool(not is_and)))
            go = st.fork(pre if is_and else z3.Not(pre), f'L{e.lineno}:last-operand')
            if self.feasible(go):
                out.extend(self.eval_forking(e.values[-1], go, as_cond=True))
            return out
        states = [(st, None)]
        for cnode in calls:
            nxt = []
            for s, _ in states:
                r = self.call(cnode, s)
                if not isinstance(r, Fork):
                    s.tmp[id(cnode)] = r
                    nxt.append((s, None))
                    continue
                for cnd, val, upd in r.alts:
                    s2 = s.fork(cnd, f'L{cnode.lineno}:{self.dotted(cnode.func)}->{val.exc if isinstance(val, Outcome) else "ok"}')
                    if not self.feasible(s2):
                        continue
                    if upd:
                        upd(s2)
                    if isinstance(val, Outcome):
                        nxt.append((s2, val))
                    else:
                        s2.tmp[id(cnode)] = val
                        nxt.append((s2, None))
            states = nxt
        out = []
        for s, oc in states:
            if oc is not None:
                out.append((s, oc))
            else:
                out.append((s, final(s)))
        return out

    def stmt(self, s, st):
        N = [(st, Outcome('normal'))]
        if isinstance(s, ast.Pass):
            return N
        if isinstance(s, ast.Expr):
            if isinstance(s.value, ast.Constant):
                return N
            if isinstance(s.value, (ast.Yield, ast.YieldFrom)):
                return self.yield_(s.value, st)
            out = []
            for s2, v in self.eval_forking(s.value, st):
                out.append((s2, v if isinstance(v, Outcome) else Outcome('normal')))
            return out
        if isinstance(s, (ast.Assign, ast.AnnAssign)):
            if s.value is None:
                return N
            if isinstance(s.value, (ast.Yield, ast.YieldFrom)):
                raise Unsupported('yield expression value')
            out = []
            for s2, v in self.eval_forking(s.value, st):
                if isinstance(v, Outcome):
                    out.append((s2, v))
                    continue
                for t in (s.targets if isinstance(s, ast.Assign) else [s.target]):
                    self.assign(t, v, s2, s)
                out.append((s2, Outcome('normal')))
            return out
        if isinstance(s, ast.AugAssign):
            cur = self.ev(s.target, st)
            out = []
            for s2, v in self.eval_forking(s.value, st):
                if isinstance(v, Outcome):
                    out.append((s2, v))
                    continue
                if cur.kind == 'set' and isinstance(s.op, ast.BitOr):
                    if v.kind == 'cset':
                        t = cur.t
                        for it in v.a['items']:
                            t = z3.SetAdd(t, it.t)
                        nv = V('set', t)
                    else:
                        nv = V('set', z3.SetUnion(cur.t, v.t))
                else:
                    nv = self.binop(s.op, self.ev(s.target, s2), v)
                self.assign(s.target, nv, s2, s)
                out.append((s2, Outcome('normal')))
            return out
        if isinstance(s, ast.Return):
            out = []
            for s2, v in self.eval_forking(s.value, st):
                out.append((s2, v if isinstance(v, Outcome) else Outcome('return', v)))
            return out
        if isinstance(s, ast.Raise):
            if s.exc is None:
                name = st.ghost.get('$handling', 'Exception')
            elif isinstance(s.exc, ast.Call):
                name = self.dotted(s.exc.func)
            else:
                name = self.dotted(s.exc)
                if name in st.env and st.env[name].kind == 'exc':
                    name = st.env[name].a['cls']
            self.point('raise', name.split('.')[-1], s, st)
            return [(st, Outcome('raise', exc=name))]
        if isinstance(s, ast.If):
            out = []
            for s1, tv in self.eval_forking(s.test, st, as_cond=True):
                if isinstance(tv, Outcome):
                    out.append((s1, tv))
                    continue
                c = tv.t
                a = s1.fork(c, f'L{s.lineno}:T')
                b = s1.fork(z3.Not(c), f'L{s.lineno}:F')
                if self.feasible(a):
                    out.extend(self.block(s.body, a))
                if self.feasible(b):
                    out.extend(self.block(s.orelse, b))
            return out
        if isinstance(s, ast.Break):
            return [(st, Outcome('break'))]
        if isinstance(s, ast.Continue):
            return [(st, Outcome('continue'))]
        if isinstance(s, ast.For):
            return self.for_(s, st)
        if isinstance(s, ast.While):
            return self.while_(s, st)
        if isinstance(s, ast.Try):
            return self.try_(s, st)
        if isinstance(s, ast.With):
            # `with EXPR as NAME: body` - the context expression is evaluated (hooks / forking as for any call), its value is bound to
            # NAME (the managers met in this code base - os.scandir - return themselves), the body runs, exceptions propagate;
            # __exit__ is a no-op for the model (closing a directory iterator has no observable effect on the contracts)
            cur = [(st, Outcome('normal'))]
            for item in s.items:
                nxt = []
                for s1, oc in cur:
                    if oc.kind != 'normal':
                        nxt.append((s1, oc))
                        continue
                    for s2, v in self.eval_forking(item.context_expr, s1):
                        if isinstance(v, Outcome):
                            nxt.append((s2, v))
                            continue
                        if item.optional_vars is not None:
                            self.assign(item.optional_vars, v, s2, s)
                        nxt.append((s2, Outcome('normal')))
                cur = nxt
            out = []
            for s1, oc in cur:
                out.extend(self.block(s.body, s1) if oc.kind == 'normal' else [(s1, oc)])
            return out
        if isinstance(s, ast.FunctionDef):
            st.env[s.name] = V('fn', None, node=s)
            return N
        if isinstance(s, ast.Assert):
            self.oblige(f'{self.qual}.assert@{s.lineno}', st, self.cond(s.test, st), s)
            return N
        raise Unsupported(ast.dump(s)[:100])

    def yield_(self, y, st):
        if isinstance(y, ast.YieldFrom):
            h = self.hooks.get('yield from')
            if h is None:
                raise Unsupported('yield from without hook')
            return h(self, y, st)
        out = []
        for s2, v in self.eval_forking(y.value, st):
            if isinstance(v, Outcome):
                out.append((s2, v))
                continue
            self.point('yield', '', y, s2, v)
            s2.ghost['$yields'] = s2.ghost.get('$yields', z3.IntVal(0)) + 1
            s2.ghost['$last_yield'] = v
            # resume point: the environment may act before execution continues
            env_act = getattr(self.c, 'on_resume', None)
            if env_act:
                env_act(self, s2)
            out.append((s2, Outcome('normal')))
        return out

    def assigned(self, body):
        names, fields, mutated = set(), set(), set()
        for n in ast.walk(ast.Module(body=body, type_ignores=[])):
            tgts = []
            if isinstance(n, ast.Assign):
                tgts = n.targets
            elif isinstance(n, (ast.AugAssign, ast.AnnAssign)):
                tgts = [n.target]
            elif isinstance(n, ast.For):
                tgts = [n.target]
            elif isinstance(n, ast.ExceptHandler) and n.name:
                names.add(n.name)
            for t in tgts:
                for x in ast.walk(t):
                    if isinstance(x, ast.Name) and isinstance(x.ctx, ast.Store):
                        names.add(x.id)
                    elif isinstance(x, ast.Attribute) and self.dotted(x.value) == 'self' and isinstance(x.ctx, ast.Store):
                        fields.add(x.attr)
            if isinstance(n, ast.Call) and self.dotted(n.func) in getattr(self.c, 'mutates', {}):
                for i in self.c.mutates[self.dotted(n.func)]:
                    if i < len(n.args) and isinstance(n.args[i], ast.Name):
                        names.add(n.args[i].id)
            if isinstance(n, ast.Call) and isinstance(n.func, ast.Attribute) and n.func.attr in ('add', 'append', 'remove', 'pop', 'insert', 'extend', 'clear'):
                if isinstance(n.func.value, ast.Name):
                    names.add(n.func.value.id)
                elif isinstance(n.func.value, ast.Attribute) and self.dotted(n.func.value.value) == 'self':
                    fields.add(n.func.value.attr)
        return names, fields

    def loop_inv(self, s):
        ordn = self.loop_ord[id(s)]
        invs = getattr(self.c, 'invariants', {})
        if ordn not in invs:
            raise Unsupported(f'loop {ordn} at line {s.lineno} has no invariant')
        header, inv = invs[ordn]
        real = ast.unparse(s.iter if isinstance(s, ast.For) else s.test)
        if header is not None and header != real:
            raise Unsupported(f'loop {ordn} header changed: contract binds {header!r}, code has {real!r}')
        return ordn, inv

    def havoc_loop(self, s, st, ordn):
        names, fields = self.assigned(s.body)
        extra_ghost = getattr(self.c, 'loop_ghosts', {}).get(ordn, ())
        h = st.fork(None, f'loop{ordn}:head')
        for n in names:
            if n in h.env:
                h.env[n] = fresh_like(h.env[n], n)
                if h.env[n].kind == 'list':
                    h.pc.append(h.env[n].a['length'] >= 0)        # a havoced list is still a list
        for f in fields:
            if f in h.fields:
                h.fields[f] = fresh_like(h.fields[f], f)
                if h.fields[f].kind == 'list':
                    h.pc.append(h.fields[f].a['length'] >= 0)
        for g in extra_ghost:
            v = h.ghost[g]
            if isinstance(v, V):
                h.ghost[g] = fresh_like(v, g)
            elif z3.is_bool(v):
                h.ghost[g] = z3.Bool(fresh(g))
            elif z3.is_int(v):
                h.ghost[g] = z3.Int(fresh(g))
            else:
                h.ghost[g] = z3.Const(fresh(g), v.sort())
        return h

    def for_(self, s, st):
        ordn, inv = self.loop_inv(s)
        tag = f'{self.qual}.loop{ordn}'
        itb = getattr(self.c, 'iters', {}).get(ordn)
        if itb is not None:
            it = itb(self, s.iter, st)
        else:
            seqv = self.ev(s.iter, st)
            if seqv.kind == 'list':
                el = seqv.a.get('elem') or (lambda k, nm=fresh('elem'): ObjV(z3.Function(nm, z3.IntSort(), Obj)(k)))
                it = AbstractIter(seqv.a['length'], el)
            elif seqv.kind == 'tuple':
                items = seqv.a['items']
                out = []
                cur = [(st, Outcome('normal'))]
                # constant-length tuple: unroll
                for itv in items:
                    nxt = []
                    for s1, oc in cur:
                        if oc.kind != 'normal':
                            nxt.append((s1, oc))
                            continue
                        s1 = s1.fork()
                        self.assign(s.target, itv, s1)
                        for s2, oc2 in self.block(s.body, s1):
                            if oc2.kind in ('normal', 'continue'):
                                nxt.append((s2, Outcome('normal')))
                            elif oc2.kind == 'break':
                                out.append((s2, Outcome('normal')))
                            else:
                                out.append((s2, oc2))
                    cur = nxt
                return out + cur
            elif seqv.kind == 'opt' and seqv.a['inner'].kind == 'list':
                self.oblige(f'{tag}.iterable_is_not_None', st, z3.Not(seqv.a['isnone']), s)
                inner = seqv.a['inner']
                el = inner.a.get('elem') or (lambda k, nm=fresh('elem'): ObjV(z3.Function(nm, z3.IntSort(), Obj)(k)))
                it = AbstractIter(inner.a['length'], el)
            elif seqv.kind == 'obj':
                ln = U('len', seqv, ret='int')
                st.pc.append(ln.t >= 0)
                it = AbstractIter(ln.t, lambda k, sv=seqv: U('getitem', sv, Int(k)))
            else:
                raise Unsupported(f'iteration over {seqv.kind}')
        oe = getattr(self.c, 'on_entry', {}).get(ordn)
        if oe:
            oe(self, st, s)
        self.oblige(f'{tag}.inv_entry', st, inv(st, z3.IntVal(0)), s)
        h = self.havoc_loop(s, st, ordn)
        k = z3.Int(fresh(f'k{ordn}'))
        h.pc += [k >= 0, k <= it.length]
        ax = getattr(self.c, 'axioms_at', {}).get(ordn)
        if ax:
            h.pc += ax(h, k)
        h.pc.append(inv(h, k))
        h.ghost[f'$k{ordn}'] = k
        out = []
        if it.raise_rule:
            for cnd, exc in it.raise_rule(h, k):
                r = h.fork(cnd, f'loop{ordn}:iter-raises-{exc}')
                if self.feasible(r):
                    out.append((r, Outcome('raise', exc=exc)))
        ex = h.fork(k == it.length, f'loop{ordn}:exhausted')
        if it.exhaust_rule is not None:
            ex.pc.append(it.exhaust_rule(ex, k))
        if self.feasible(ex):
            out.extend(self.block(s.orelse, ex) if s.orelse else [(ex, Outcome('normal'))])
        b = h.fork(k < it.length, f'loop{ordn}:iter')
        el = it.elem(k)
        b.ghost[f'$elem{ordn}'] = el
        b.ghost['$loops'] = tuple(b.ghost.get('$loops', ())) + (ordn,)
        self.assign(s.target, el, b)
        hook = getattr(self.c, 'on_iter', {}).get(ordn)
        if hook:
            hook(self, b, k)
        for s2, oc in self.block(s.body, b):
            if oc.kind in ('normal', 'continue'):
                self.oblige(f'{tag}.inv_preserved', s2, inv(s2, k + 1), s)
            elif oc.kind == 'break':
                s2.ghost['$loops'] = tuple(x for x in s2.ghost.get('$loops', ()) if x != ordn)
                out.append((s2, Outcome('normal')))
            else:
                if oc.kind == 'raise':
                    s2.ghost['$loops'] = tuple(x for x in s2.ghost.get('$loops', ()) if x != ordn)
                out.append((s2, oc))
        return out

    def while_(self, s, st):
        ordn, inv = self.loop_inv(s)
        tag = f'{self.qual}.loop{ordn}'
        self.oblige(f'{tag}.inv_entry', st, inv(st, None), s)
        h = self.havoc_loop(s, st, ordn)
        h.pc.append(inv(h, None))
        out = []
        for s1, tv in self.eval_forking(s.test, h, as_cond=True):
            if isinstance(tv, Outcome):
                out.append((s1, tv))
                continue
            c = tv.t
            ex = s1.fork(z3.Not(c), f'loop{ordn}:exit')
            if self.feasible(ex):
                out.append((ex, Outcome('normal')))
            b = s1.fork(c, f'loop{ordn}:iter')
            if not self.feasible(b):
                continue
            dec = getattr(self.c, 'decreases', {}).get(ordn)
            before = dec(b) if dec else None
            for s2, oc in self.block(s.body, b):
                if oc.kind in ('normal', 'continue'):
                    self.oblige(f'{tag}.inv_preserved', s2, inv(s2, None), s)
                    if dec:
                        self.oblige(f'{tag}.decreases', s2, z3.And(dec(s2) < before, before >= 0), s)
                elif oc.kind == 'break':
                    out.append((s2, Outcome('normal')))
                else:
                    out.append((s2, oc))
        return out

    def try_(self, s, st):
        out = []
        for s2, oc in self.block(s.body, st):
            if oc.kind != 'raise':
                if oc.kind == 'normal' and s.orelse:
                    out.extend(self.block(s.orelse, s2))
                else:
                    out.append((s2, oc))
                continue
            handled = False
            for h in s.handlers:
                classes = ['BaseException'] if h.type is None else ([self.dotted(x) for x in h.type.elts] if isinstance(h.type, ast.Tuple) else [self.dotted(h.type)])
                if any(isa(oc.exc, c) for c in classes):
                    hs = s2.fork(None, f'L{h.lineno}:except')
                    hs.ghost['$handling'] = oc.exc
                    if h.name:
                        hs.env[h.name] = V('exc', None, cls=oc.exc)
                    out.extend(self.block(h.body, hs))
                    handled = True
                    break
            if not handled:
                out.append((s2, oc))
        if s.finalbody:
            fin = []
            for s2, oc in out:
                for s3, oc3 in self.block(s.finalbody, s2):
                    fin.append((s3, oc if oc3.kind == 'normal' else oc3))
            out = fin
        return out

    # ---- driver
    def run(self, params, fields=None, ghost=None, pre=None):
        st = St(env=dict(params), fields=dict(fields or {}), ghost=dict(ghost or {}), pc=list(pre or []))
        if self.is_generator:
            st.ghost.setdefault('$yields', z3.IntVal(0))
        res = self.block(self.fn.body, st)
        final = []
        for s, oc in res:
            if oc.kind == 'normal':
                oc = Outcome('return', NONE)
            final.append((s, oc))
        self.paths = final
        return final


# ---------------------------------------------------------------------------------------------- discharge
def smt2_of(pc, neg_claim):
    s = z3.Solver()
    s.add(*pc)
    s.add(neg_claim)
    return s.to_smt2()


def cvc5_check(smt2, seconds=20):
    """'unsat' | 'sat' | 'unknown' via /usr/bin/cvc5 (fallback back end)."""
    if not os.path.exists('/usr/bin/cvc5'):
        return 'unknown'
    with tempfile.NamedTemporaryFile('w', suffix='.smt2', delete=False) as f:
        f.write('(set-logic ALL)\n' + smt2)
        path = f.name
    try:
        r = subprocess.run(['/usr/bin/cvc5', '--strings-exp', f'--tlimit={seconds * 1000}', path], capture_output=True, text=True, timeout=seconds + 5)
        out = r.stdout.strip().splitlines()
        return out[0] if out and out[0] in ('sat', 'unsat') else 'unknown'
    except Exception:
        return 'unknown'
    finally:
        os.unlink(path)


def _model_is_valid(s, m):
    """z3's sequence solver occasionally answers `sat` with a model that does not satisfy the assertions (seen on string +
    uninterpreted-function queries: 3 of 12 identical runs).  A model under which some assertion evaluates to literally False is
    rejected; assertions that stay symbolic (quantifiers) are not judged."""
    try:
        for a in s.assertions():
            if z3.is_false(m.eval(a, model_completion=True)):
                return False
    except z3.Z3Exception:
        return True
    return True


def discharge(pc, claim, timeout_ms=10000):
    """-> (status, backend, secs, model|None); status in proved/refuted/undecided.
    A `sat` answer counts only with a model that satisfies the assertions; otherwise the query is repeated with other seeds and
    then handed to cvc5 (an invalid model never becomes a refutation)."""
    t0 = time.time()
    s = None
    for attempt in range(4):
        s = z3.Solver()
        s.set('timeout', timeout_ms)
        if attempt:
            s.set('random_seed', attempt)
        s.add(*pc)
        s.add(z3.Not(claim))
        r = s.check()
        if r == z3.unsat:
            return 'proved', 'z3', time.time() - t0, None
        if r == z3.sat:
            m = s.model()
            if _model_is_valid(s, m):
                return 'refuted', 'z3', time.time() - t0, m
            continue            # invalid model: ask again
        break
    r2 = cvc5_check(s.to_smt2())
    if r2 == 'unsat':
        return 'proved', 'cvc5', time.time() - t0, None
    if r2 == 'sat':
        return 'refuted', 'cvc5', time.time() - t0, None
    return 'undecided', 'z3+cvc5', time.time() - t0, None
