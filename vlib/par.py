"""Process-pool helper (fork): map a top-level function over chunks of work on all cores."""
import multiprocessing as mp
import os


def ncpu():
    return max(1, min(16, os.cpu_count() or 1))


def chunks(seq, n):
    seq = list(seq)
    k = max(1, (len(seq) + n - 1) // n)
    return [seq[i:i + k] for i in range(0, len(seq), k)]


def pmap(fn, items, procs=None, chunk=None):
    """Ordered map of fn over items using a fork pool; fn must be picklable (module-level)."""
    procs = procs or ncpu()
    items = list(items)
    if procs == 1 or len(items) < 2:
        return [fn(x) for x in items]
    ctx = mp.get_context('fork')
    with ctx.Pool(procs) as pool:
        return pool.map(fn, items, chunksize=chunk or max(1, len(items) // (procs * 8)))
