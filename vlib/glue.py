"""Runs the pyvc contract obligations that belong to a property (filled in by contracts/*)."""


def run(chk, pid):
    try:
        from contracts import registry
    except ImportError:
        return
    registry.run(chk, pid)
