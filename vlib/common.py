"""Shared run accounting for every check: obligations, bounded cases, violations, known findings, evidence, exit codes.

Exit codes (DESIGN.md 3):  0 held / 1 VIOLATION / 2 undecided / 3 checker broken.
"""
import hashlib
import json
import os
import re
import sys
import time
import traceback

VERIF = os.path.dirname(os.path.dirname(os.path.abspath(__file__)))
REPO = os.environ.get('WCMATCH_REPO', '/repo')
if REPO not in sys.path:
    sys.path.insert(0, REPO)

KNOWN_FILE = os.path.join(VERIF, 'known_findings.json')
# overridable so that runs against scratch copies (tools/mutant.py, tools/seedrun.py) never touch the real evidence
EVIDENCE_DIR = os.environ.get('VERIF_EVIDENCE_DIR') or os.path.join(VERIF, 'evidence')
REPLAY_DIR = os.environ.get('VERIF_REPLAY_DIR') or os.path.join(VERIF, 'replays')


def load_known():
    with open(KNOWN_FILE) as f:
        return json.load(f)


def sha1_text(s):
    return hashlib.sha1(s.encode('utf-8', 'surrogatepass')).hexdigest()[:12]


class Check:
    def __init__(self, pid, tier='quick', seed=0, level='other', technique=''):
        self.pid, self.tier, self.seed, self.level, self.technique = pid, tier, int(seed), level, technique
        self.t0 = time.time()
        self.obls = []            # dicts: name, status, backend, secs, function
        self.functions = {}       # qualname -> dict(file, lines, sha1)
        self.assumptions = []
        self.samples = []
        self.ob_samples = []
        self.evaluations = 0
        self.nontrivial = set()
        self.nontrivial_overflow = 0
        self.rule = ''
        self.bounds = {}
        self.violations = []
        self.known_hits = {}
        self.undecided = []
        self.open = []            # obligations left open by an engine limit (time/state); reported, never decide the exit code
        self.broken = []
        self.notes = []
        self.extra = {}
        self.exhaustive = None
        self.known = [k for k in load_known().get('findings', []) if k['property'] == pid]
        os.makedirs(EVIDENCE_DIR, exist_ok=True)
        os.makedirs(REPLAY_DIR, exist_ok=True)

    # ------------------------------------------------------------------ obligations (deductive part)
    def function(self, qualname, file, lineno, end_lineno, src):
        self.functions[qualname] = dict(file=file, lines=[lineno, end_lineno], sha1=sha1_text(src))

    def obligation(self, name, status, backend, secs=0.0, function=None, detail=None):
        assert status in ('proved', 'refuted', 'undecided')
        self.obls.append(dict(name=name, status=status, backend=backend, secs=round(secs, 4), function=function))
        if len(self.ob_samples) < 12 and detail:
            self.ob_samples.append(dict(name=name, status=status, backend=backend, detail=str(detail)[:300]))

    # ------------------------------------------------------------------ bounded part
    def case(self, key=None, nontrivial=True, n=1):
        self.evaluations += n
        if nontrivial and key is not None:
            if len(self.nontrivial) < 2_000_000:
                self.nontrivial.add(key if isinstance(key, (int, str, bytes)) else hash(key))
            else:
                self.nontrivial_overflow += 1

    def sample(self, obj, cap=8):
        if len(self.samples) < cap:
            self.samples.append(obj)

    def assume(self, text):
        if text not in self.assumptions:
            self.assumptions.append(text)

    # ------------------------------------------------------------------ verdicts
    def match_known(self, sig):
        for k in self.known:
            ok = True
            for field, rx in k.get('where', {}).items():
                if not re.fullmatch(rx, str(sig.get(field, '')), re.S):
                    ok = False
                    break
            if ok and 'witness_language' in k:
                w = sig.get('witness')
                if w is None:
                    ok = False
                else:
                    if isinstance(w, bytes):
                        w = w.decode('latin-1')
                    ok = re.fullmatch(k['witness_language'], w, re.S) is not None
            if ok:
                return k
        return None

    def known_hit(self, k, sig=None):
        kid = k['id']
        if kid not in self.known_hits:
            self.known_hits[kid] = dict(count=0, what=k['what'], example=None)
        self.known_hits[kid]['count'] += 1
        if self.known_hits[kid]['example'] is None and sig is not None:
            self.known_hits[kid]['example'] = {a: (b if isinstance(b, (int, float, bool, type(None))) else str(b)[:200])
                                               for a, b in sig.items()}

    def violation(self, sig, what, replay_src=None, no_input=False):
        """sig: dict describing the failing obligation/input.  Returns True if it is a NEW violation."""
        k = self.match_known(sig)
        if k is not None:
            self.known_hit(k, sig)
            return False
        if len(self.violations) >= 25:
            self.violations.append(None)
            return True
        name = re.sub(r'[^A-Za-z0-9_.-]+', '_', str(sig.get('obligation', 'case')))[:60]
        path = os.path.join(REPLAY_DIR, f'{self.pid}-{name}-{sha1_text(json.dumps(sig, default=str, sort_keys=True))}.py')
        body = replay_src or ''
        header = f'"""Replay for a violation of {self.pid}\nobligation/case: {sig.get("obligation")}\n{what}\nsignature: {json.dumps(sig, default=str)[:2000]}\n"""\n'
        with open(path, 'w') as f:
            f.write(header + body)
        self.violations.append(dict(sig={a: str(b)[:300] for a, b in sig.items()}, what=what, replay=path))
        print(f'VIOLATION property={self.pid} replay={path}' + (' no-failing-input-found' if no_input else ''))
        print(f'  {what}')
        sys.stdout.flush()
        return True

    def undecide(self, name, why):
        self.undecided.append(dict(name=name, why=str(why)[:300]))

    def leave_open(self, name, why):
        self.open.append(dict(name=name, why=str(why)[:300]))

    def broke(self, why):
        self.broken.append(str(why)[:2000])

    def note(self, s):
        self.notes.append(s)

    # ------------------------------------------------------------------ finish
    def finish(self, explanation, checker_cmd=None, trusted_base=None):
        for kid, h in sorted(self.known_hits.items()):
            print(f'KNOWN-FINDING: property={self.pid} {kid} {h["what"]} (met {h["count"]}x; e.g. {json.dumps(h["example"], default=str)[:300]})')
        nobl = len(self.obls)
        proved = sum(1 for o in self.obls if o['status'] == 'proved')
        by_backend = {}
        for o in self.obls:
            b = by_backend.setdefault(o['backend'], dict(obligations=0, proved=0, refuted=0, undecided=0, secs=0.0))
            b['obligations'] += 1
            b[o['status']] += 1
            b['secs'] = round(b['secs'] + o['secs'], 3)
        nviol = len(self.violations)
        cov = dict(
            explanation=explanation,
            obligations=nobl, discharged=proved,
            obligations_by_backend=by_backend,
            functions_under_contract=self.functions,
            obligation_samples=self.ob_samples,
            evaluations=self.evaluations,
            distinct_nontrivial=len(self.nontrivial) + self.nontrivial_overflow * 0,
            rule=self.rule,
            bounds=self.bounds,
            samples=self.samples if self.samples else (self.ob_samples[:3] or ['(none)']),
            checker_cmd=checker_cmd or f'./check {self.pid} --tier {self.tier}',
            trusted_base=trusted_base or [],
            known_findings_met={k: dict(count=v['count'], what=v['what']) for k, v in self.known_hits.items()},
            undecided=self.undecided[:40], undecided_count=len(self.undecided),
            open_obligations=self.open[:40], open_count=len(self.open),
            violations_detail=[v for v in self.violations if v][:25],
            notes=self.notes,
        )
        if self.exhaustive is not None:
            cov['exhaustive'] = self.exhaustive
        cov.update(self.extra)
        level = self.level
        if level == 'proof' and (nobl == 0 or proved != nobl):
            level = 'other'
        ev = dict(property_id=self.pid, tier=self.tier, seed=self.seed, level=level, coverage=cov,
                  assumptions=self.assumptions, wall_s=round(time.time() - self.t0, 2), violations=nviol)
        with open(os.path.join(EVIDENCE_DIR, f'{self.pid}.json'), 'w') as f:
            json.dump(ev, f, indent=1, default=str)
            f.write('\n')
        if self.broken:
            for b in self.broken:
                print(f'CHECKER-BROKEN {self.pid}: {b}')
        if nviol:
            code = 1          # an established violation (each has its own replay / named obligation) stands even if another part of the check broke
        elif self.broken:
            code = 3
        elif self.undecided:
            for u in self.undecided[:10]:
                print(f'UNDECIDED {self.pid}: {u["name"]}: {u["why"]}')
            code = 2
        else:
            code = 0
        print(f'{self.pid} [{self.tier}] exit={code} obligations={nobl} proved={proved} cases={self.evaluations} '
              f'violations={nviol} known={sum(v["count"] for v in self.known_hits.values())} undecided={len(self.undecided)} open={len(self.open)} '
              f'wall={ev["wall_s"]}s')
        return code


def run_main(fn):
    """Run a check's main(check) with crash -> exit 3 mapping."""
    try:
        code = fn()
    except SystemExit:
        raise
    except BaseException:
        traceback.print_exc()
        print('CHECKER-BROKEN: traceback above')
        sys.exit(3)
    sys.exit(code)
