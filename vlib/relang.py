"""relang - exact language engine for the regular expressions wcmatch emits (CPython `re` syntax and semantics).

Two automaton families share one interface (start / step / accepts / bounds):

* `Impl`  - a CPython regex (text + compile flags, str or bytes) with look-aheads, `^`, `$` (which also matches before a
            final newline), `\\Z`, scoped `(?i:..)`/`(?s:..)`, lazy/greedy repeats.  Parsed by CPython's own front end
            (`re._parser`), semantics by Brzozowski derivatives over Boolean terms (see DESIGN.md 2.2).
* `Spec`  - classical extended regular expressions (concat, union, star, intersection, complement, classes) used by
            the specification functions (`vlib/spec`).  No look-around; plain Brzozowski derivatives.

`compare(...)` walks the product of any number of automata over the minterms of all their character classes and
returns a shortest distinguishing string.  Everything is exact for *all* strings over the alphabet 0..maxc.
Anything outside the supported regex subset raises `Unsupported` (the caller reports the obligation as undecided).
"""
import re
import re._parser as sp
import re._constants as sc
import re._casefix as _casefix
import _sre

UMAX = 0x10FFFF


class Unsupported(Exception):
    pass


# ---------------------------------------------------------------------------------------------- range sets
def norm(rs):
    rs = sorted(rs)
    out = []
    for lo, hi in rs:
        if lo > hi:
            continue
        if out and lo <= out[-1][1] + 1:
            if hi > out[-1][1]:
                out[-1] = (out[-1][0], hi)
        else:
            out.append((lo, hi))
    return tuple(out)


def compl(rs, maxc):
    out = []
    cur = 0
    for lo, hi in rs:
        if lo > maxc:
            break
        if lo > cur:
            out.append((cur, lo - 1))
        cur = hi + 1
    if cur <= maxc:
        out.append((cur, maxc))
    return tuple(out)


def clip(rs, maxc):
    return tuple((lo, min(hi, maxc)) for lo, hi in rs if lo <= maxc)


def in_rs(c, rs):
    for lo, hi in rs:
        if c < lo:
            return False
        if c <= hi:
            return True
    return False


def inter_rs(a, b):
    out = []
    for lo, hi in a:
        for lo2, hi2 in b:
            l, h = max(lo, lo2), min(hi, hi2)
            if l <= h:
                out.append((l, h))
    return norm(out)


# ---------------------------------------------------------------------------------------------- CPython case tables
_U_NONID = None      # code point -> unicode_tolower(cp) for every cp whose lower differs
_U_INV = None        # lowered cp -> tuple of cps (other than itself) that lower to it


def _tables():
    global _U_NONID, _U_INV
    if _U_NONID is None:
        low = _sre.unicode_tolower
        d = {}
        for c in range(UMAX + 1):
            l = low(c)
            if l != c:
                d[c] = l
        inv = {}
        for c, l in d.items():
            inv.setdefault(l, []).append(c)
        _U_NONID, _U_INV = d, {k: tuple(v) for k, v in inv.items()}
    return _U_NONID, _U_INV


def _fold_unicode(rs):
    """Set of characters matched by a class with member ranges `rs` under re.IGNORECASE (str pattern, Unicode rules),
    following re._compiler._optimize_charset + IN_UNI_IGNORE: ch matches iff lower(ch) in S', S' = lower(S) + fixes."""
    nonid, inv = _tables()
    fixes = _casefix._EXTRA_CASES
    cased = False
    sprime = list(rs)
    for lo, hi in rs:
        if hi - lo < 4096:
            for c in range(lo, hi + 1):
                if not cased and _sre.unicode_iscased(c):
                    cased = True
                l = nonid.get(c, c)
                if l != c:
                    sprime.append((l, l))
                for k in fixes.get(l, ()):
                    sprime.append((k, k))
        else:
            cased = True          # every range this large contains cased characters
            for c, l in nonid.items():
                if lo <= c <= hi:
                    sprime.append((l, l))
            for l, ks in fixes.items():
                if in_rs(l, ((lo, hi),)) or any(lo <= c <= hi for c in inv.get(l, ())):
                    for k in ks:
                        sprime.append((k, k))
    if not cased:
        return norm(rs)
    sprime = norm(sprime)
    # preimage under lower: fixed points of lower that are in S', plus non-fixed points whose lower is in S'
    out = list(sprime)
    extra = []
    for l, cs in inv.items():
        if in_rs(l, sprime):
            for c in cs:
                extra.append((c, c))
    # remove non-fixed points of lower that are in S' but whose lower is not
    res = norm(out + extra)
    drop = [c for c, l in nonid.items() if in_rs(c, sprime) and not in_rs(l, sprime)]
    if drop:
        res = inter_rs(res, compl(norm([(c, c) for c in drop]), UMAX))
    return res


def _fold_ascii(rs):
    """Same under re.IGNORECASE for a bytes pattern (or re.ASCII): lower_ascii(ch) in lower_ascii(S)."""
    low = [(c + 32 if 65 <= c <= 90 else c) for lo, hi in rs for c in range(max(lo, 0), min(hi, 127) + 1)]
    cased = any(97 <= c <= 122 for c in low)
    if not cased:
        return norm(rs)
    sprime = norm([(lo, hi) for lo, hi in rs] + [(c, c) for c in low])
    up = [(c - 32, c - 32) for lo, hi in sprime for c in range(max(lo, 97), min(hi, 122) + 1)]
    res = norm(list(sprime) + up)
    # an upper-case letter in S' whose lower is not in S' does not match (cannot happen: lower was added) - keep exact
    return res


# ---------------------------------------------------------------------------------------------- Impl: AST from sre
# AST: ('cls', ranges) ('cat', (x..)) ('alt', (x..)) ('rep', x, lo, hi|None) ('la', x) ('nla', x) ('bol',) ('eol',) ('eos',)

def _cls(rs, neg, ic, uni, maxc):
    rs = norm(rs)
    if ic:
        rs = _fold_unicode(rs) if uni else _fold_ascii(rs)
    rs = clip(rs, maxc)
    return ('cls', compl(rs, maxc) if neg else rs)


_CATEGORY = {
    sc.CATEGORY_DIGIT: [(48, 57)],
    sc.CATEGORY_SPACE: [(9, 13), (32, 32)],
    sc.CATEGORY_WORD: [(48, 57), (65, 90), (95, 95), (97, 122)],
}


def _from_sre(items, ic, dotall, uni, maxc, groups):
    out = []
    for op, av in items:
        if op is sc.LITERAL:
            out.append(_cls([(av, av)], False, ic, uni, maxc))
        elif op is sc.NOT_LITERAL:
            out.append(_cls([(av, av)], True, ic, uni, maxc))
        elif op is sc.ANY:
            out.append(('cls', ((0, maxc),) if dotall else compl(((10, 10),), maxc)))
        elif op is sc.IN:
            neg = False
            rs = []
            for o2, a2 in av:
                if o2 is sc.NEGATE:
                    neg = True
                elif o2 is sc.LITERAL:
                    rs.append((a2, a2))
                elif o2 is sc.RANGE:
                    rs.append(tuple(a2))
                elif o2 is sc.CATEGORY and not uni and a2 in _CATEGORY:
                    rs.extend(_CATEGORY[a2])
                else:
                    raise Unsupported(f'set item {o2} {a2}')
            out.append(_cls(rs, neg, ic, uni, maxc))
        elif op is sc.SUBPATTERN:
            g, add, dele, p = av
            ic2 = (ic or bool(add & re.I)) and not (dele & re.I)
            da2 = (dotall or bool(add & re.S)) and not (dele & re.S)
            if (add | dele) & ~(re.I | re.S):
                raise Unsupported('scoped flag other than i/s')
            if g is not None:
                groups.append(g)
            out.append(_from_sre(list(p), ic2, da2, uni, maxc, groups))
        elif op is sc.BRANCH:
            out.append(('alt', tuple(_from_sre(list(a), ic, dotall, uni, maxc, groups) for a in av[1])))
        elif op is sc.AT:
            if av in (sc.AT_BEGINNING, sc.AT_BEGINNING_STRING):
                out.append(('bol',))
            elif av is sc.AT_END:
                out.append(('eol',))
            elif av is sc.AT_END_STRING:
                out.append(('eos',))
            else:
                raise Unsupported(f'anchor {av}')
        elif op in (sc.ASSERT, sc.ASSERT_NOT):
            d, p = av
            if d != 1:
                raise Unsupported('lookbehind')
            out.append(('la' if op is sc.ASSERT else 'nla', _from_sre(list(p), ic, dotall, uni, maxc, groups)))
        elif op in (sc.MAX_REPEAT, sc.MIN_REPEAT):
            lo, hi, p = av
            out.append(('rep', _from_sre(list(p), ic, dotall, uni, maxc, groups), lo, None if hi is sc.MAXREPEAT else hi))
        else:
            raise Unsupported(f'sre op {op}')
    if len(out) == 1:
        return out[0]
    return ('cat', tuple(out))


def parse_impl(pattern, flags=0):
    """pattern: str/bytes regex text, or a compiled re.Pattern (its own flags are used). Returns (ast, maxc, ngroups)."""
    if isinstance(pattern, re.Pattern):
        flags = pattern.flags
        pattern = pattern.pattern
    is_bytes = isinstance(pattern, bytes)
    if flags & re.M or flags & re.X and False:
        raise Unsupported('MULTILINE')
    if flags & re.L:
        raise Unsupported('LOCALE')
    try:
        t = sp.parse(pattern, flags & ~re.U if is_bytes else flags)
    except re.error as e:
        raise Unsupported(f're.error: {e}')
    fl = t.state.flags
    if fl & re.M:
        raise Unsupported('MULTILINE')
    uni = not is_bytes and not (fl & re.A)
    maxc = 255 if is_bytes else UMAX
    groups = []
    ast = _from_sre(list(t), bool(fl & re.I), bool(fl & re.S), uni, maxc, groups)
    return ast, maxc, len(groups)


# ---------------------------------------------------------------------------------------------- Impl: terms
EMPTY = ('empty',)
EPS = ('eps',)
ALL = ('all',)
NL = ('cls', ((10, 10),))


def mk_or(ts):
    s = set()
    for t in ts:
        if t == ALL:
            return ALL
        if t == EMPTY:
            continue
        if t[0] == 'or':
            s |= t[1]
        else:
            s.add(t)
    if not s:
        return EMPTY
    if len(s) == 1:
        return next(iter(s))
    for t in s:
        if t[0] == 'not' and t[1] in s:
            return ALL
    return ('or', frozenset(s))


def mk_and(ts):
    s = set()
    for t in ts:
        if t == EMPTY:
            return EMPTY
        if t == ALL:
            continue
        if t[0] == 'and':
            s |= t[1]
        else:
            s.add(t)
    if not s:
        return ALL
    if len(s) == 1:
        return next(iter(s))
    for t in s:
        if t[0] == 'not' and t[1] in s:
            return EMPTY
    return ('and', frozenset(s))


def mk_not(t):
    if t == EMPTY:
        return ALL
    if t == ALL:
        return EMPTY
    if t[0] == 'not':
        return t[1]
    return ('not', t)


def mk_seq(x, K):
    if K == EMPTY:
        return EMPTY
    if x[0] == 'cat':
        for y in reversed(x[1]):
            K = mk_seq(y, K)
        return K
    if x[0] == 'cls' and not x[1]:
        return EMPTY
    return ('seq', x, K)


def has_bol(x):
    k = x[0]
    if k == 'bol':
        return True
    if k in ('cat', 'alt'):
        return any(has_bol(y) for y in x[1])
    if k in ('rep', 'la', 'nla'):
        return has_bol(x[1])
    return False


def _la_term(x, first):
    if first and has_bol(x):
        return ('seqf', x)          # Seq(x, ALL) whose own first step is still at position 0
    return mk_seq(x, ALL)


def E(x, first):
    """Term for the set of remaining inputs on which x can match the empty string at this position."""
    k = x[0]
    if k == 'cls':
        return EMPTY
    if k == 'cat':
        return mk_and([E(y, first) for y in x[1]])
    if k == 'alt':
        return mk_or([E(y, first) for y in x[1]])
    if k == 'rep':
        return ALL if x[2] == 0 else E(x[1], first)
    if k == 'la':
        return _la_term(x[1], first)
    if k == 'nla':
        return mk_not(_la_term(x[1], first))
    if k == 'bol':
        return ALL if first else EMPTY
    if k == 'eol':
        return mk_or([EPS, mk_seq(NL, EPS)])
    if k == 'eos':
        return EPS
    raise ValueError(k)


def nullable(t):
    k = t[0]
    if k == 'empty':
        return False
    if k in ('eps', 'all'):
        return True
    if k == 'or':
        return any(nullable(u) for u in t[1])
    if k == 'and':
        return all(nullable(u) for u in t[1])
    if k == 'not':
        return not nullable(t[1])
    if k == 'seq':
        return nullable(E(t[1], False)) and nullable(t[2])
    if k == 'seqf':
        return nullable(E(t[1], True))
    raise ValueError(k)


def _dec(x):
    return ('rep', x[1], max(x[2] - 1, 0), None if x[3] is None else x[3] - 1)


class _Deriv:
    """Derivative computation with a per-instance cache (one per comparison family to bound memory)."""

    def __init__(self):
        self.cache = {}

    def dcons(self, x, K, c, first):
        k = x[0]
        if k == 'cls':
            return K if in_rs(c, x[1]) else EMPTY
        if k == 'alt':
            return mk_or([self.dcons(y, K, c, first) for y in x[1]])
        if k == 'cat':
            ys = x[1]
            res = []
            guard = []
            for idx, y in enumerate(ys):
                rest = ys[idx + 1:]
                K2 = mk_seq(('cat', rest), K) if rest else K
                term = self.dcons(y, K2, c, first)
                if guard and term != EMPTY:
                    term = mk_and([self.D(g, c, first) for g in guard] + [term])
                res.append(term)
                e = E(y, first)
                if e == EMPTY:
                    break
                if e != ALL:
                    guard.append(e)
            return mk_or(res)
        if k == 'rep':
            lo, hi = x[2], x[3]
            if hi is not None and hi == 0:
                return EMPTY
            if lo >= 1:
                return self.dcons(('cat', (x[1], _dec(x))), K, c, first)
            return self.dcons(x[1], mk_seq(_dec(x), K), c, first)
        if k in ('la', 'nla', 'bol', 'eol', 'eos'):
            return EMPTY
        raise ValueError(k)

    def D(self, t, c, first=False):
        key = (t, c, first)
        r = self.cache.get(key)
        if r is None:
            r = self._D(t, c, first)
            self.cache[key] = r
        return r

    def _D(self, t, c, first):
        k = t[0]
        if k in ('empty', 'eps'):
            return EMPTY
        if k == 'all':
            return ALL
        if k == 'or':
            return mk_or([self.D(u, c, first) for u in t[1]])
        if k == 'and':
            return mk_and([self.D(u, c, first) for u in t[1]])
        if k == 'not':
            return mk_not(self.D(t[1], c, first))
        if k == 'seq':
            x, K = t[1], t[2]
            a = self.dcons(x, K, c, first)
            e = E(x, first)
            if e == EMPTY:
                return a
            return mk_or([a, mk_and([self.D(e, c, first), self.D(K, c, first)])])
        if k == 'seqf':
            return self.D(('seq', t[1], ALL), c, True)
        raise ValueError(k)


def _bounds_ast(x, acc):
    k = x[0]
    if k == 'cls':
        for lo, hi in x[1]:
            acc.add(lo)
            acc.add(hi + 1)
    elif k in ('cat', 'alt'):
        for y in x[1]:
            _bounds_ast(y, acc)
    elif k in ('rep', 'la', 'nla'):
        _bounds_ast(x[1], acc)
    elif k == 'eol':
        acc.add(10)
        acc.add(11)


class Impl:
    """Automaton of `re.fullmatch(pattern, s)` - or, with search=False and full=False, of `pattern.match(s)` (prefix)."""

    def __init__(self, pattern, flags=0, full=True):
        self.ast, self.maxc, self.ngroups = parse_impl(pattern, flags)
        self.full = full
        self.dv = _Deriv()
        self.tail = EPS if full else ALL

    def start(self):
        return ('START',)

    def step(self, t, c):
        if t == ('START',):
            return self.dv.D(('seq', self.ast, self.tail), c, True)
        return self.dv.D(t, c, False)

    def accepts(self, t):
        if t == ('START',):
            return nullable(E(self.ast, True)) and nullable(self.tail)
        return nullable(t)

    def bounds(self, acc):
        _bounds_ast(self.ast, acc)

    def member(self, s):
        t = self.start()
        for ch in s:
            t = self.step(t, ch if isinstance(ch, int) else ord(ch))
        return self.accepts(t)


# ---------------------------------------------------------------------------------------------- Spec: classical extended regexes
# nodes: ('0',) ('1',) ('c', ranges) ('.', a, b) ('|', frozenset) ('&', frozenset) ('~', a) ('*', a)
S0 = ('0',)
S1 = ('1',)


def s_cls(rs):
    rs = norm(rs)
    return ('c', rs) if rs else S0


def s_chr(ch):
    c = ch if isinstance(ch, int) else ord(ch)
    return ('c', ((c, c),))


def s_cat(*xs):
    res = S1
    for x in reversed(xs):
        if x == S0 or res == S0:
            res = S0
        elif x == S1:
            pass
        elif res == S1:
            res = x
        elif x[0] == '.':
            res = ('.', x[1], s_cat(x[2], res))
        else:
            res = ('.', x, res)
    return res


def s_alt(*xs):
    s = set()
    for x in xs:
        if x == S0:
            continue
        if x[0] == '|':
            s |= x[1]
        else:
            s.add(x)
    if not s:
        return S0
    if S_ALL in s:
        return S_ALL
    cl = [x for x in s if x[0] == 'c']
    if len(cl) > 1:
        s -= set(cl)
        s.add(s_cls([r for x in cl for r in x[1]]))
    if len(s) == 1:
        return next(iter(s))
    return ('|', frozenset(s))


def s_and(*xs):
    s = set()
    for x in xs:
        if x == S0:
            return S0
        if x == S_ALL:
            continue
        if x[0] == '&':
            s |= x[1]
        else:
            s.add(x)
    if not s:
        return S_ALL
    if len(s) == 1:
        return next(iter(s))
    for x in s:
        if x[0] == '~' and x[1] in s:
            return S0
    return ('&', frozenset(s))


def s_not(x):
    if x[0] == '~':
        return x[1]
    return ('~', x)


def s_star(x):
    if x in (S0, S1):
        return S1
    if x[0] == '*':
        return x
    return ('*', x)


S_ALL = ('~', S0)


def s_plus(x):
    return s_cat(x, s_star(x))


def s_opt(x):
    return s_alt(S1, x)


def s_str(s):
    return s_cat(*[s_chr(ch) for ch in s]) if len(s) else S1


def s_diff(a, b):
    return s_and(a, s_not(b))


_nu_cache = {}


def s_nullable(x):
    r = _nu_cache.get(x)
    if r is not None:
        return r
    k = x[0]
    if k == '0' or k == 'c':
        r = False
    elif k == '1' or k == '*':
        r = True
    elif k == '.':
        r = s_nullable(x[1]) and s_nullable(x[2])
    elif k == '|':
        r = any(s_nullable(y) for y in x[1])
    elif k == '&':
        r = all(s_nullable(y) for y in x[1])
    elif k == '~':
        r = not s_nullable(x[1])
    else:
        raise ValueError(k)
    _nu_cache[x] = r
    return r


_sd_cache = {}


def s_deriv(x, c):
    key = (x, c)
    r = _sd_cache.get(key)
    if r is not None:
        return r
    k = x[0]
    if k in ('0', '1'):
        r = S0
    elif k == 'c':
        r = S1 if in_rs(c, x[1]) else S0
    elif k == '.':
        r = s_cat(s_deriv(x[1], c), x[2])
        if s_nullable(x[1]):
            r = s_alt(r, s_deriv(x[2], c))
    elif k == '|':
        r = s_alt(*[s_deriv(y, c) for y in x[1]])
    elif k == '&':
        r = s_and(*[s_deriv(y, c) for y in x[1]])
    elif k == '~':
        r = s_not(s_deriv(x[1], c))
    elif k == '*':
        r = s_cat(s_deriv(x[1], c), x)
    else:
        raise ValueError(k)
    if len(_sd_cache) > 2_000_000:
        _sd_cache.clear()
    _sd_cache[key] = r
    return r


def _bounds_spec(x, acc, seen):
    if x in seen:
        return
    seen.add(x)
    k = x[0]
    if k == 'c':
        for lo, hi in x[1]:
            acc.add(lo)
            acc.add(hi + 1)
    elif k == '.':
        _bounds_spec(x[1], acc, seen)
        _bounds_spec(x[2], acc, seen)
    elif k in ('|', '&'):
        for y in x[1]:
            _bounds_spec(y, acc, seen)
    elif k in ('~', '*'):
        _bounds_spec(x[1], acc, seen)


class Spec:
    def __init__(self, node, maxc=UMAX):
        self.node = node
        self.maxc = maxc

    def start(self):
        return self.node

    def step(self, t, c):
        return s_deriv(t, c)

    def accepts(self, t):
        return s_nullable(t)

    def bounds(self, acc):
        _bounds_spec(self.node, acc, set())

    def member(self, s):
        t = self.node
        for ch in s:
            t = s_deriv(t, ch if isinstance(ch, int) else ord(ch))
        return s_nullable(t)


class Mapped:
    """Automaton of h^-1(L(inner)): steps the inner automaton on h(c). `breaks` lists the code points where h changes
    behaviour (so that minterms are refined enough for h to be uniform-or-pointwise on each)."""

    def __init__(self, inner, h, points):
        self.inner, self.h, self.points, self.maxc = inner, h, tuple(points), inner.maxc

    def start(self):
        return self.inner.start()

    def step(self, t, c):
        return self.inner.step(t, self.h(c))

    def accepts(self, t):
        return self.inner.accepts(t)

    def bounds(self, acc):
        self.inner.bounds(acc)
        for p in self.points:
            acc.add(p)
            acc.add(p + 1)


# ---------------------------------------------------------------------------------------------- product search
class StateLimit(Exception):
    pass


def product_search(autos, bad, maxc=None, extra_points=(), limit=300000):
    """Breadth-first search of the product of `autos`; `bad(tuple_of_accept_bools)` -> truthy marks a counterexample
    state.  Returns None if no reachable state is bad, else (witness_code_points, accept_tuple).  Exact over the
    alphabet 0..maxc (minterm representatives).  Raises StateLimit if more than `limit` product states are met."""
    if maxc is None:
        maxc = min(a.maxc for a in autos)
    acc = {0}
    for a in autos:
        a.bounds(acc)
    for p in extra_points:
        acc.add(p)
        acc.add(p + 1)
    reps = sorted(b for b in acc if 0 <= b <= maxc)
    s0 = tuple(a.start() for a in autos)
    seen = {s0: None}
    queue = [s0]
    qi = 0
    n = len(autos)
    while qi < len(queue):
        st = queue[qi]
        qi += 1
        accs = tuple(autos[i].accepts(st[i]) for i in range(n))
        if bad(accs):
            w = []
            cur = st
            while seen[cur] is not None:
                cur, ch = seen[cur]
                w.append(ch)
            w.reverse()
            return w, accs
        for c in reps:
            nx = tuple(autos[i].step(st[i], c) for i in range(n))
            if nx not in seen:
                seen[nx] = (st, c)
                queue.append(nx)
                if len(seen) > limit:
                    raise StateLimit(len(seen))
    return None


def to_str(cps, is_bytes=False):
    return bytes(cps) if is_bytes else ''.join(map(chr, cps))


def equal(a, b, dom=None, **kw):
    """None if L(a) == L(b) (on dom, if given); else (witness code points, in_a, in_b)."""
    autos = [a, b] + ([dom] if dom is not None else [])
    r = product_search(autos, (lambda t: t[0] != t[1] and (len(t) < 3 or t[2])), **kw)
    if r is None:
        return None
    return r[0], r[1][0], r[1][1]


def between(impl, must, may, dom=None, **kw):
    """None if must <= impl <= may on dom; else (witness, in_impl, in_must, in_may)."""
    autos = [impl, must, may] + ([dom] if dom is not None else [])

    def bad(t):
        if len(t) > 3 and not t[3]:
            return False
        return (t[1] and not t[0]) or (t[0] and not t[2])
    r = product_search(autos, bad, **kw)
    if r is None:
        return None
    return r[0], r[1][0], r[1][1], r[1][2]


def is_empty(a, dom=None, **kw):
    autos = [a] + ([dom] if dom is not None else [])
    r = product_search(autos, (lambda t: t[0] and (len(t) < 2 or t[1])), **kw)
    return None if r is None else r[0]
