"""Per-pattern language obligations against wcmatch's translate()/compile output (used by C01, C02, C03, C08, C17, C18).

Work items are (kind, pattern_ast, flagset_name, is_bytes); a worker renders the pattern, asks the real wcmatch for
the regexes, builds the denotation interval and decides the obligation for all names.
"""
import re
import sys
import time
import traceback

from . import relang as R
from . import lang
from .common import REPO
from .spec import pat as P, den as D

if REPO not in sys.path:
    sys.path.insert(0, REPO)

from wcmatch import fnmatch as F     # noqa: E402
from wcmatch import glob as G        # noqa: E402
from wcmatch import _wcparse as W    # noqa: E402


def mode_from_flags(flags, path, is_bytes=False, internal=0):
    """Mode (spec side) for public flag word `flags` as the property statements read it (C17 for case/platform)."""
    win = bool(flags & W.FORCEWIN) and not bool(flags & W.FORCEUNIX)
    case = bool(flags & W.CASE)
    icase = (bool(flags & W.IGNORECASE) or win) and not case
    return D.Mode(path=path, dot=bool(flags & W.DOTMATCH), ext=bool(flags & W.EXTMATCH), icase=icase, win=win,
                  is_bytes=is_bytes, globstar=bool(flags & W.GLOBSTAR), globstarlong=bool(flags & W.GLOBSTARLONG),
                  matchbase=bool(flags & W.MATCHBASE), extmatchbase=bool(internal & W._EXTMATCHBASE),
                  nodotdir=bool(flags & W.NODOTDIR))


_FLAGNAMES = [(n, getattr(W, n)) for n in ('CASE', 'IGNORECASE', 'RAWCHARS', 'NEGATE', 'MINUSNEGATE', 'PATHNAME', 'DOTMATCH',
                                              'EXTMATCH', 'GLOBSTAR', 'BRACE', 'REALPATH', 'FOLLOW', 'SPLIT', 'MATCHBASE', 'NODIR',
                                              'NEGATEALL', 'FORCEWIN', 'FORCEUNIX', 'GLOBTILDE', 'NOUNIQUE', 'NODOTDIR',
                                              'GLOBSTARLONG', '_EXTMATCHBASE', '_NOABSOLUTE', '_TRANSLATE', '_ANCHOR')]


def flagnames(flags):
    """'|NAME|NAME|' (sorted as declared) - used by known-finding predicates. MARK / SCANDOTDIR are glob-level bits."""
    return '|' + '|'.join([n for n, v in _FLAGNAMES if flags & v] + [n for n, v in (('MARK', 0x1000000), ('SCANDOTDIR', 0x2000000)) if flags & v]) + '|'


def replay_fn(api, pattern, flags, extra=''):
    def fmt(w, expected):
        return (f"import sys; sys.path.insert(0, {REPO!r})\n"
                f"from wcmatch import {api.split('.')[0]}\n"
                f"name = {w!r}; pattern = {pattern!r}; flags = {flags}\n"
                f"got = {api}(name, pattern, flags=flags{extra})\n"
                f"print('got', got, 'expected', {expected!r})\n"
                f"sys.exit(0 if got == {expected!r} else 1)\n")
    return fmt


ITEM_SECONDS = 20


def _alarm(signum, frame):
    raise TimeoutError(f'{ITEM_SECONDS}s per-obligation budget')


def _with_budget(fn):
    import functools
    import signal

    @functools.wraps(fn)
    def wrapped(item):
        old = signal.signal(signal.SIGALRM, _alarm)
        signal.alarm(ITEM_SECONDS)
        try:
            return fn(item)
        except TimeoutError as e:
            return 'open', [('leave_open', (item[1], f'{e}: {P.render(item[2])!r} flags {item[3]}'))]
        finally:
            signal.alarm(0)
            signal.signal(signal.SIGALRM, old)
    return wrapped


@_with_budget
def fn_item(item):
    """Decide one fnmatch-mode obligation.  item = (prop, obligation, tokens, flags, is_bytes, domain, known)
    domain: 'visible' (C01: non-empty names not starting with `.` unless DOTMATCH) | 'hidden' (C03) | 'all'."""
    prop, obligation, tokens, flags, is_bytes, domain, known = item
    try:
        txt = P.render(tokens)
        pt = txt.encode('latin-1') if is_bytes else txt
        m = mode_from_flags(flags, False, is_bytes)
        if m.ext and not D.definable(tokens):
            return 'skipped', []
        # the regex the matcher itself executes (translate() uses other group templates; C08 ties the two together)
        pos, neg = W.compile_pattern(pt, F._flag_transform(flags))
        if len(pos) != 1 or neg:
            return 'skipped', []
        must = R.Spec(D.den_name(tokens, m, 'must'), m.maxc)
        may = R.Spec(D.den_name(tokens, m, 'may'), m.maxc)
        if domain == 'visible':
            dom = D.dom_nonempty(m) if m.dot else R.s_cat(R.s_cls(R.compl(((46, 46),), m.maxc)), R.S_ALL)
        elif domain == 'hidden':
            dom = D.dom_hidden_name(m)
        else:
            dom = D.dom_nonempty(m)
        sig = dict(pattern=txt, flags=flags, fl=flagnames(flags), mode='fnmatch', bytes=is_bytes)

        def native(w):
            return F.fnmatch(w, pt, flags=flags)
        return lang.decide_pure(known, obligation, pos[0], must, may, R.Spec(dom, m.maxc), sig, native=native,
                                expect_fmt=replay_fn('fnmatch.fnmatch', pt, flags), is_bytes=is_bytes)
    except lang.CheckerBroken as e:
        return 'broken', [('broke', (str(e),))]
    except Exception:
        return 'broken', [('broke', (f'{P.render(tokens)!r} flags={flags}: ' + traceback.format_exc()[-1500:],))]


@_with_budget
def path_item(item):
    """Decide one glob-mode obligation. item = (prop, obligation, path_ast, flags, is_bytes, domain, known, internal)"""
    prop, obligation, els, flags, is_bytes, domain, known, internal = item
    try:
        txt = P.render(els)
        pt = txt.encode('latin-1') if is_bytes else txt
        m = mode_from_flags(flags, True, is_bytes, internal)
        segs, lead, trail = P.segments(els)
        if m.ext and not all(D.definable(s) for s in segs):
            return 'skipped', []
        if any(len(s) >= 2 and all(t[0] == 'star' for t in s) for s in segs):
            return 'skipped', []          # `*` `*` renders as `**`: ambiguous with the globstar token
        # the regexes the matcher itself executes (see fn_item)
        pos, neg = W.compile_pattern(pt, G._flag_transform(flags) | internal)
        nodir = bool(flags & W.NODIR)
        if len(pos) != 1 or (neg and not nodir) or len(neg) > 1:
            return 'skipped', []
        must_n, rel = D.den_path(els, m, 'must')
        may_n, _ = D.den_path(els, m, 'may')
        if domain == 'visible':
            dom = D.dom_relative(m) if rel else D.dom_nonempty(m)
            if not m.dot:
                dom = R.s_and(dom, R.s_not(D.dom_hidden_path(m)))
            else:
                dom = R.s_and(dom, R.s_not(D.dom_dotdir_segment(m)))       # `.` / `..` segments belong to C03
        elif domain == 'hidden':
            dom = R.s_and(D.dom_relative(m) if rel else D.dom_nonempty(m), D.dom_hidden_path(m))
        else:
            dom = D.dom_relative(m) if rel else D.dom_nonempty(m)
        impl = R.Impl(pos[0])
        if nodir:
            # whole-call language = positive minus the directory-exclusion regex; the statement: never a directory
            nd = R.Impl(neg[0])
            impl = _Diff(impl, nd)
            ds = D.dir_syntax(m)
            must_n = R.s_diff(must_n, ds)
            may_n = R.s_diff(may_n, ds)
        sig = dict(pattern=txt, flags=flags, fl=flagnames(flags | internal), mode='glob', bytes=is_bytes, internal=internal)

        def native(w):
            if internal:
                return W.compile(pt, G._flag_transform(flags) | internal).match(w)
            return G.globmatch(w, pt, flags=flags)
        st, ops = lang.decide_pure(known, obligation, impl, R.Spec(must_n, m.maxc), R.Spec(may_n, m.maxc),
                                   R.Spec(dom, m.maxc), sig, native=native,
                                   expect_fmt=replay_fn('glob.globmatch', pt, flags), is_bytes=is_bytes)
        return st, ops
    except lang.CheckerBroken as e:
        return 'broken', [('broke', (str(e),))]
    except Exception:
        return 'broken', [('broke', (f'{P.render(els)!r} flags={flags}: ' + traceback.format_exc()[-1500:],))]


class _Diff:
    """automaton of L(a) \\ L(b)"""

    def __init__(self, a, b):
        self.a, self.b, self.maxc = a, b, min(a.maxc, b.maxc)

    def start(self):
        return (self.a.start(), self.b.start())

    def step(self, t, c):
        return (self.a.step(t[0], c), self.b.step(t[1], c))

    def accepts(self, t):
        return self.a.accepts(t[0]) and not self.b.accepts(t[1])

    def bounds(self, acc):
        self.a.bounds(acc)
        self.b.bounds(acc)

    def member(self, s):
        return self.a.member(s) and not self.b.member(s)


def run_items(chk, fn, items, procs=None):
    from .par import pmap
    t0 = time.time()
    res = pmap(fn, items, procs)
    counts = {}
    for (status, ops), it in zip(res, items):
        counts[status] = counts.get(status, 0) + 1
        if status == 'skipped':
            continue
        lang.apply_ops(chk, ops)
        if status in ('proved', 'known', 'violation'):
            chk.case(key=(P.render(it[2]), it[3], it[4]), nontrivial=True)
    return counts, time.time() - t0


def count_ext_groups(tokens):
    n = 0
    for t in tokens:
        if t[0] == 'ext':
            n += 1
            for a in t[2]:
                n += count_ext_groups(a)
    return n


@_with_budget
def translate_item(item):
    """C08: translate() regexes compile, mean what the matcher's own regexes mean, and carry one capture group per extended group.
    item = (prop, obligation, els, flags, is_bytes, mode('fnmatch'|'glob'), known)"""
    import re
    prop, obligation, els, flags, is_bytes, kind, known = item
    try:
        txt = P.render(els)
        pt = txt.encode('latin-1') if is_bytes else txt
        api = F if kind == 'fnmatch' else G
        tflags = api._flag_transform(flags)
        pos, neg = api.translate(pt, flags=flags)
        cpos, cneg = W.compile_pattern(pt, tflags)
        ops = []
        rec = lang._Rec(known)
        status = 'proved'
        sig = dict(pattern=txt, flags=flags, fl=flagnames(flags), mode=kind, bytes=is_bytes)
        if len(pos) != len(cpos) or len(neg) != len(cneg):
            rec.violation(dict(sig, obligation=obligation + '.same_number_of_regexes'), f'translate returns {len(pos)}+{len(neg)} regexes, the matcher uses {len(cpos)}+{len(cneg)}',
                          replay_translate(kind, pt, flags))
            return 'violation', rec.ops
        for tr, cp, which in [(a, b, 'include') for a, b in zip(pos, cpos)] + [(a, b, 'exclude') for a, b in zip(neg, cneg)]:
            try:
                ctr = re.compile(tr)
            except re.error as e:
                rec.violation(dict(sig, obligation=obligation + '.compiles', regex=str(tr)), f'translate({txt!r}, flags={flagnames(flags)}) returned {tr!r} which does not compile: {e}',
                              replay_translate(kind, pt, flags))
                status = 'violation'
                continue
            a, b = R.Impl(ctr), R.Impl(cp)
            r = R.equal(a, b)
            if r is not None:
                w = R.to_str(r[0], is_bytes)
                if bool(ctr.fullmatch(w)) != r[1] or bool(cp.fullmatch(w)) != r[2]:
                    raise lang.CheckerBroken(f'relang disagrees with CPython on {tr!r} or {cp.pattern!r} for {w!r}')
                rec.violation(dict(sig, obligation=obligation + '.same_language', witness=w, which=which),
                              f'{kind}.translate({txt!r}, flags={flagnames(flags)}): {which} regex {"matches" if r[1] else "rejects"} {w!r} but the regex the matcher executes '
                              f'{"matches" if r[2] else "rejects"} it', replay_translate(kind, pt, flags, w))
                status = 'violation'
            if which == 'include' and len(pos) == 1 and not neg and mode_from_flags(flags, kind == 'glob').ext:
                want = count_ext_groups(els)
                if ctr.groups != want:
                    rec.violation(dict(sig, obligation=obligation + '.one_capture_group_per_extended_group', groups=ctr.groups, want=want),
                                  f'{kind}.translate({txt!r}): {ctr.groups} capturing groups for {want} extended groups ({tr!r})', replay_translate(kind, pt, flags))
                    status = 'violation'
        # what a group captures: for `literal* GROUP literal*` (one top-level, non-negated group) the captured text is exactly what stands
        # between the literal prefix and suffix - also when the group matches empty (the group then captures '' and is not None)
        if len(pos) == 1 and not neg and mode_from_flags(flags, kind == 'glob').ext and not is_bytes and not flags & W.MATCHBASE:      # (no implicit prefix in front of the literal prefix)
            tl = [t for t in els if t[0] == 'ext']
            if len(tl) == 1 and tl[0][1] != '!' and count_ext_groups(els) == 1 and all(t[0] in ('lit', 'esc', 'ext') for t in els) and not any(t[0] != 'ext' and t[1] == '/' for t in els):
                k = [i for i, t in enumerate(els) if t[0] == 'ext'][0]
                pre, post = ''.join(t[1] for t in els[:k]), ''.join(t[1] for t in els[k + 1:])
                try:
                    ctr = re.compile(pos[0])
                    import itertools as _it
                    for n in range(0, 4):
                        for mid in _it.product('ab.', repeat=n):
                            name = pre + ''.join(mid) + post
                            mm = ctr.fullmatch(name)
                            if mm is not None and ctr.groups == 1 and mm.group(1) != ''.join(mid):
                                rec.violation(dict(sig, obligation=obligation + '.group_captures_the_text_it_consumed', witness=name, captured=repr(mm.group(1))),
                                              f'{kind}.translate({txt!r}): on {name!r} the group captures {mm.group(1)!r}, the text it consumed is {"".join(mid)!r}', replay_translate(kind, pt, flags, name))
                                status = 'violation'
                                raise StopIteration
                except StopIteration:
                    pass
                except re.error:
                    pass
        rec.obligation(obligation, 'proved' if status == 'proved' else 'refuted', 'relang', 0.0, detail=f'{txt!r} {flags}')
        return status, rec.ops
    except lang.CheckerBroken as e:
        return 'broken', [('broke', (str(e),))]
    except R.Unsupported as e:
        return 'open', [('leave_open', (obligation, f'regex outside the engine subset: {e} ({P.render(els)!r})'))]
    except R.StateLimit as e:
        return 'open', [('leave_open', (obligation, f'state limit {e} ({P.render(els)!r})'))]
    except Exception:
        return 'broken', [('broke', (f'{P.render(els)!r} flags={flags}: ' + traceback.format_exc()[-1500:],))]


def replay_translate(kind, pt, flags, w=None):
    mod = 'fnmatch' if kind == 'fnmatch' else 'glob'
    call = 'fnmatch.fnmatch' if kind == 'fnmatch' else 'glob.globmatch'
    return (f"import sys, re; sys.path.insert(0, {REPO!r})\nfrom wcmatch import {mod}\npos, neg = {mod}.translate({pt!r}, flags={flags})\nprint(pos, neg)\n"
            f"for r in pos + neg:\n    re.compile(r)\n" +
            (f"name = {w!r}\nvia_regex = any(re.fullmatch(r, name) for r in pos) and not any(re.fullmatch(r, name) for r in neg)\n"
             f"via_api = {call}(name, {pt!r}, flags={flags})\nprint(via_regex, via_api); sys.exit(0 if via_regex == via_api else 1)\n" if w is not None else "sys.exit(1)\n"))


@_with_budget
def bytes_item(item):
    """C18: Lang(translate(p.encode())) == Lang(translate(p)) restricted to Latin-1, for ASCII patterns. item as translate_item."""
    prop, obligation, els, flags, _, kind, known = item
    try:
        txt = P.render(els)
        api = F if kind == 'fnmatch' else G
        ps, ns = api.translate(txt, flags=flags)
        pb, nb = api.translate(txt.encode('latin-1'), flags=flags)
        rec = lang._Rec(known)
        sig = dict(pattern=txt, flags=flags, fl=flagnames(flags), mode=kind)
        status = 'proved'
        if [x.decode('latin-1') for x in pb] != ps or [x.decode('latin-1') for x in nb] != ns:
            # translate returns the encoded regexes (statement): POSIX classes are the only place where the texts may differ (0x10ffff vs 0xff tables)
            pass
        if len(ps) != len(pb) or len(ns) != len(nb):
            rec.violation(dict(sig, obligation=obligation + '.same_number_of_regexes'), f'str: {len(ps)}+{len(ns)} regexes, bytes: {len(pb)}+{len(nb)}', None)
            return 'violation', rec.ops
        for rs, rb, which in [(a, b, 'include') for a, b in zip(ps, pb)] + [(a, b, 'exclude') for a, b in zip(ns, nb)]:
            r = R.equal(R.Impl(rb), R.Impl(rs), maxc=255)
            if r is not None:
                w = bytes(r[0])
                rec.violation(dict(sig, obligation=obligation + '.same_language_on_latin1', witness=w, which=which),
                              f'{kind}.translate({txt!r}, flags={flagnames(flags)}): bytes regex {"matches" if r[1] else "rejects"} {w!r}, the str regex '
                              f'{"matches" if r[2] else "rejects"} {w.decode("latin-1")!r}',
                              f"import sys; sys.path.insert(0, {REPO!r})\nfrom wcmatch import fnmatch, glob\nm = {'fnmatch.fnmatch' if kind == 'fnmatch' else 'glob.globmatch'}\n"
                              f"a = m({w!r}, {txt.encode('latin-1')!r}, flags={flags}); b = m({w.decode('latin-1')!r}, {txt!r}, flags={flags})\nprint(a, b); sys.exit(0 if a == b else 1)\n")
                status = 'violation'
        rec.obligation(obligation, 'proved' if status == 'proved' else 'refuted', 'relang', 0.0, detail=f'{txt!r} {flags}')
        return status, rec.ops
    except R.Unsupported as e:
        return 'open', [('leave_open', (obligation, f'regex outside the engine subset: {e}'))]
    except R.StateLimit as e:
        return 'open', [('leave_open', (obligation, f'state limit {e}'))]
    except Exception:
        return 'broken', [('broke', (f'{P.render(els)!r} flags={flags}: ' + traceback.format_exc()[-1500:],))]
