"""./check dispatcher: python -m vlib.main <ID> [--tier quick|thorough] [--replay path]"""
import argparse
import importlib
import os
import subprocess
import sys

from .common import VERIF, run_main


def main():
    ap = argparse.ArgumentParser()
    ap.add_argument('pid')
    ap.add_argument('--tier', default=os.environ.get('VERIF_TIER', 'quick'), choices=['quick', 'thorough'])
    ap.add_argument('--replay')
    a = ap.parse_args()
    if a.replay:
        sys.exit(subprocess.call([sys.executable, a.replay]))
    seed = int(os.environ.get('VERIF_SEED', '0') or 0)
    sys.path.insert(0, VERIF)
    def go():
        mod = importlib.import_module(f'checks.{a.pid}')
        return mod.main(a.tier, seed)
    run_main(go)


if __name__ == '__main__':
    main()
