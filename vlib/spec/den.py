"""Denotation of pattern ASTs (pat.py) as extended regular languages (relang.Spec nodes).

Written from the property statements C01-C03, C07, C17 and the syntax tables of docs/src/markdown/{fnmatch,glob}.md,
NOT from wcmatch's parser.  Where a statement is silent the denotation is an interval (must, may).

Rules encoded (with the statement they come from):
  C01  literals/escapes match themselves; `*` any run; `?` one char; brackets with negation/ranges/C-locale POSIX
       classes; ?() *() +() @() = 0-1 / 0+ / 1+ / exactly-1 occurrence of an alternative, nested;
       !(list) (no inner negation, only literal text after it) = the strings whose corresponding part matches no
       alternative.
  C03  a leading `.` (of the name / of a path segment) is consumed only by a written `.`; in path mode a wildcard
       construct never matches a segment `.`/`..` - only a segment pattern starting with a written `.` can - and with
       NODOTDIR only the literal segment patterns `.`/`..` do.
  C02  nothing but a written separator or `**` matches `/`; each path segment is matched by exactly one segment
       pattern (non-empty); separator runs count as one; trailing separators on the path are tolerated; a trailing
       separator on the pattern demands one (except after a final `**`); GLOBSTAR `**` = zero or more whole segments;
       `***` likewise under GLOBSTARLONG; MATCHBASE slash-less pattern = any depth.
  C17  insensitive mode folds every class with CPython's own case tables; FORCEWIN makes `/` and `\\` one separator.
"""
from .. import relang as R
from ..relang import (S0, S1, S_ALL, s_cls, s_chr, s_cat, s_alt, s_and, s_not, s_star, s_plus, s_opt, s_str, s_diff,
                      s_nullable)
from . import pat as P


class Mode:
    def __init__(self, path=False, dot=False, ext=True, icase=False, win=False, is_bytes=False, globstar=False,
                 globstarlong=False, matchbase=False, extmatchbase=False, nodotdir=False):
        self.path, self.dot, self.ext, self.icase, self.win, self.is_bytes = path, dot, ext, icase, win, is_bytes
        self.globstarlong = globstarlong and path
        self.globstar = path and (globstar or self.globstarlong)
        self.matchbase, self.extmatchbase, self.nodotdir = matchbase, extmatchbase, nodotdir
        self.strict = False        # True: the 'must' reading of the leading-dot rule (see seq)
        self.maxc = 255 if is_bytes else R.UMAX
        self.seps = ((47, 47), (92, 92)) if win else ((47, 47),)
        self.full = ((0, self.maxc),)
        self.anyrs = R.compl(self.seps, self.maxc) if path else self.full     # what a wildcard character may be
        self.ANY = s_cls(self.anyrs)
        self.ANY_NODOT = s_cls(R.inter_rs(self.anyrs, R.compl(((46, 46),), self.maxc)))
        self.SEP = s_cls(self.seps)
        self.DOT = s_chr('.')

    def fold(self, rs):
        rs = R.norm(rs)
        if self.icase:
            rs = R._fold_ascii(rs) if self.is_bytes else R._fold_unicode(rs)
        return R.clip(rs, self.maxc)

    def lit(self, c):
        o = ord(c)
        if self.win and o in (47, 92) and not self.path:
            return s_cls(self.seps)          # C17: under FORCEWIN `/` and `\\` in the name are interchangeable
        return s_cls(self.fold([(o, o)]))


def br_set(tok, m):
    _, neg, items = tok
    rs = []
    for it in items:
        if it[0] == 'ech' and m.win and it[1] in '/\\':
            rs.extend(m.seps)          # C17: under the Windows rules an escaped backslash (or slash) in the pattern is THE separator
        elif it[0] in ('ch', 'ech'):
            rs.append((ord(it[1]), ord(it[1])))
        elif it[0] == 'rng':
            a, b = ord(it[1]), ord(it[2])
            if a <= b:
                rs.append((a, b))
        else:
            rs.extend(P.POSIX[it[1]])
    rs = m.fold(rs)
    if neg:
        rs = R.compl(rs, m.maxc)
    if m.path:
        rs = R.inter_rs(rs, R.compl(m.seps, m.maxc))
    return rs


def nonempty(x, m):
    return s_and(x, s_cat(s_cls(m.full), S_ALL))


def tok(t, m):
    """(E, Ns, Nm): can match empty; non-empty matches at a (name/segment) start; non-empty matches elsewhere."""
    k = t[0]
    if k in ('lit', 'esc'):
        x = m.lit(t[1])
        return False, x, x
    if k == 'q':
        return False, (m.ANY if m.dot else m.ANY_NODOT), m.ANY
    if k == 'star':
        mid = s_plus(m.ANY)
        return True, (mid if m.dot else s_cat(m.ANY_NODOT, s_star(m.ANY))), mid
    if k == 'br':
        rs = br_set(t, m)
        mid = s_cls(rs)
        return False, (mid if m.dot else s_cls(R.inter_rs(rs, R.compl(((46, 46),), m.maxc)))), mid
    if k == 'ext':
        kind, alts = t[1], t[2]
        if kind == '!':
            raise ValueError('!() only has a denotation in context (seq)')
        st = [seq(a, True, m) for a in alts]
        md = [seq(a, False, m) for a in alts]
        e = any(s_nullable(x) for x in md)
        ns = nonempty(s_alt(*st), m)
        nm = nonempty(s_alt(*md), m)
        if kind == '@':
            return e, ns, nm
        if kind == '?':
            return True, ns, nm
        rest = s_star(s_alt(*md))
        if kind == '+':
            return e, s_cat(ns, rest), s_cat(nm, rest)
        if kind == '*':
            return True, s_cat(ns, rest), s_cat(nm, rest)
    raise ValueError(t)


def all_literal(tokens):
    return all(t[0] in ('lit', 'esc') for t in tokens)


def seq(tokens, start, m):
    if not tokens:
        return S1
    t, r = tokens[0], tokens[1:]
    if t[0] == 'ext' and t[1] == '!':
        if not all_literal(r) or any(P.has_neg_ext(a) for a in t[2]):
            raise ValueError('!(...) outside the fragment the statement defines')
        lit = s_cat(*[m.lit(x[1]) for x in r]) if r else S1
        alts = s_alt(*[seq(a, start, m) for a in t[2]])
        if start and not m.dot:
            univ = s_opt(s_cat(m.ANY_NODOT, s_star(m.ANY)))
        else:
            univ = s_star(m.ANY)
        res = s_diff(s_cat(univ, lit), s_cat(alts, lit))
        if start and not m.dot and (m.strict or start == 2):
            res = s_and(res, s_not(s_cat(m.DOT, S_ALL)))      # must-mode: `!(x).b` vs `.b` is not granted
        return res
    e, ns, nm = tok(t, m)
    if start:
        if start == 2 and not m.dot:
            # must-mode: a construct that can match empty stood at the start position; the statement then grants
            # nothing for a leading `.` ("...with no wildcard standing at that position the match is granted")
            ns = s_and(ns, s_not(s_cat(m.DOT, S_ALL)))
        res = s_cat(ns, seq(r, False, m))
        if e:
            res = s_alt(res, seq(r, 2 if (m.strict or start == 2) else True, m))
        return res
    return s_cat(s_alt(nm, S1) if e else nm, seq(r, False, m))


def definable(tokens):
    """Is the token sequence inside the fragment for which the statements give a definite meaning?"""
    for i, t in enumerate(tokens):
        if t[0] == 'ext':
            if t[1] == '!':
                if not all_literal(tokens[i + 1:]) or any(P.has_neg_ext(a) for a in t[2]):
                    return False
                if not all(definable(a) for a in t[2]):
                    return False
            elif not all(definable(a) and not P.has_neg_ext(a) for a in t[2]):
                return False
    return True


# ---------------------------------------------------------------------------------------------- names (fnmatch mode)
def den_name(tokens, m, which='may'):
    """Language of a whole-name pattern in fnmatch mode (non-empty names).  which: 'must' | 'may' (they differ only on
    names with a leading `.` that a written `.` consumes after a construct that matched empty)."""
    if not m.ext:
        tokens = P.lower_noext(tokens)
    m.strict = which == 'must'
    try:
        return nonempty(seq(tuple(tokens), True, m), m)
    finally:
        m.strict = False


# ---------------------------------------------------------------------------------------------- paths (glob mode)
DOTS = None


def dots(m):
    return s_alt(s_str('.'), s_str('..'))


def starts_with_written_dot(seg):
    return bool(seg) and seg[0][0] in ('lit', 'esc') and seg[0][1] == '.'


def is_literal_dots(seg):
    return all_literal(seg) and ''.join(t[1] for t in seg) in ('.', '..')


def seg_lang(seg, m, which):
    """Language of one segment pattern (non-empty, separator-free).  which: 'must' | 'may'."""
    m.strict = which == 'must'
    try:
        L = nonempty(seq(tuple(seg), True, m), m)
    finally:
        m.strict = False
    D = dots(m)
    if m.nodotdir:
        return L if is_literal_dots(seg) else s_diff(L, D)
    if starts_with_written_dot(seg):
        return L
    if which == 'must':
        return s_diff(L, D)
    # may: additionally `.`/`..` when the leading dot is consumed by a written `.` (e.g. `?(x).`)
    if m.dot:
        m2 = Mode(path=True, dot=False, ext=m.ext, icase=m.icase, win=m.win, is_bytes=m.is_bytes)
        L2 = nonempty(seq(tuple(seg), True, m2), m2)
        return s_alt(s_diff(L, D), s_and(L2, D))
    return L


def gseg(m):
    """A whole segment admitted under `**`: non-empty, no separator, not hidden unless DOTGLOB, never `.`/`..`."""
    first = m.ANY if m.dot else m.ANY_NODOT
    return s_diff(s_cat(first, s_star(m.ANY)), dots(m))


def can_be_empty(seg, m):
    return s_nullable(seq(tuple(seg), True, m))


def den_path(path, m, which='must'):
    """Language of a path pattern.  which='must' / 'may' (interval where the statement is silent)."""
    els = tuple(path)
    if not m.ext:
        # group syntax is plain text; `|`, `(`, `)` literals - separators inside keep splitting segments
        out = []
        for el in els:
            out.extend(P.lower_noext((el,)) if el[0] == 'ext' else (el,))
        els = tuple(out)
    segs, lead, trail = P.segments(els)
    SEPS = s_plus(m.SEP)
    TRAILOPT = s_star(m.SEP)
    G = gseg(m)

    def is_gs(seg):
        if len(seg) != 1:
            return False
        if seg[0][0] == 'gs':
            return m.globstar
        if seg[0][0] == 'gsl':
            return m.globstarlong
        return False

    def plain(seg):
        out = []
        for t in seg:
            if t[0] == 'gs':
                out += [('star',), ('star',)]
            elif t[0] == 'gsl':
                out += [('star',), ('star',), ('star',)]
            else:
                out.append(t)
        return tuple(out)

    # collapse consecutive globstar segments
    norm = []
    for s in segs:
        if is_gs(s) and norm and norm[-1] == 'GS':
            continue
        norm.append('GS' if is_gs(s) else plain(s))

    tail = SEPS if trail else TRAILOPT
    lang = None
    for i in range(len(norm) - 1, -1, -1):
        s = norm[i]
        last = i == len(norm) - 1
        if s == 'GS':
            if last:
                lang = s_cat(s_opt(s_cat(G, s_star(s_cat(SEPS, G)))), TRAILOPT)
            else:
                rest = lang
                lang = s_cat(s_star(s_cat(G, SEPS)), rest)
                if which == 'may' and s_nullable(rest):
                    # everything after the `**` can match empty (`**/?(a)`): the statement does not say whether the
                    # written separator is then still required
                    lang = s_alt(lang, s_cat(G, s_star(s_cat(SEPS, G))))
        else:
            sl = seg_lang(s, m, which)
            if which == 'may' and can_be_empty(s, m):
                # statement is silent on a segment pattern that can match empty (`a/*(a)` vs `a/`)
                sl_opt = True
            else:
                sl_opt = False
            if last:
                lang_i = s_cat(sl, tail)
                if sl_opt:
                    lang_i = s_alt(lang_i, TRAILOPT)
            else:
                lang_i = s_cat(sl, SEPS, lang)
                if which == 'may' and s_nullable(lang):
                    lang_i = s_alt(lang_i, sl)
                if sl_opt:
                    lang_i = s_alt(lang_i, s_cat(TRAILOPT, lang))
            lang = lang_i
    if lang is None:
        lang = TRAILOPT
    relative = not lead
    if lead:
        lang = s_cat(SEPS, lang)
    elif (m.extmatchbase or (m.matchbase and len(norm) == 1 and not trail and not any(e[0] == 'sep' for e in els))):
        rest = lang
        lang = s_cat(s_star(s_cat(G, SEPS)), rest)
        if which == 'may' and s_nullable(rest):
            lang = s_alt(lang, s_cat(G, s_star(s_cat(SEPS, G))))
    return nonempty(lang, m), relative


def dir_syntax(m):
    """Paths that name a directory syntactically (C12 / NODIR): end with a separator, or are / end with `.`/`..`."""
    anyc = s_cls(m.full)
    allp = s_star(anyc)
    d = s_cat(dots(m), s_star(m.SEP))
    return s_alt(s_cat(allp, m.SEP), d, s_cat(allp, m.SEP, d))


def dom_relative(m):
    """Non-empty paths not starting with a separator."""
    return s_cat(s_cls(R.compl(m.seps, m.maxc)), S_ALL)


def dom_nonempty(m):
    return s_cat(s_cls(m.full), S_ALL)


def dom_hidden_name(m):
    return s_cat(s_chr('.'), S_ALL)


def dom_hidden_path(m):
    """Paths with some segment starting with `.`"""
    anyc = s_cls(m.full)
    return s_alt(s_cat(s_chr('.'), S_ALL), s_cat(s_star(anyc), m.SEP, s_chr('.'), S_ALL))


def dom_dotdir_segment(m):
    """Paths with a segment that is exactly `.` or `..` (their matching is C03's business)."""
    anyc = s_cls(m.full)
    d = dots(m)
    end = s_alt(S1, s_cat(m.SEP, S_ALL))
    return s_alt(s_cat(d, end), s_cat(s_star(anyc), m.SEP, d, end))
