"""Specification of SPLIT (C07): the pieces of a pattern between top-level unescaped `|` - not those inside bracket
expressions or extended groups.  Written from the statement and the documented bracket/group grammar, not from WcSplit.

Unterminated bracket expressions and groups are literal text (C10): `[` alone is an ordinary character, an opener `@(` without
its `)` is ordinary text and what follows it is scanned afresh.  A trailing lone backslash stays Malformed (only losslessness
('|'.join(pieces) == p) is demanded there)."""
POSIX_NAMES = ('alnum', 'alpha', 'ascii', 'blank', 'cntrl', 'digit', 'graph', 'lower', 'print', 'punct', 'space', 'upper', 'word', 'xdigit')


class Malformed(Exception):
    pass


def _bracket_end(p, i, pathname, win=False):
    """p[i] == '['; index just after the closing ']' of the bracket expression, or raise Malformed"""
    j = i + 1
    if j < len(p) and p[j] in '!^':
        j += 1
    first = True
    while True:
        if j >= len(p):
            raise Malformed
        c = p[j]
        if c == ']' and not first:
            return j + 1
        first = False
        if c == '[' and p[j + 1:j + 2] == ':':
            k = p.find(':]', j + 2)
            if k > 0 and p[j + 2:k] in POSIX_NAMES:
                j = k + 2
                continue
        if c == '\\':
            if j + 1 >= len(p):
                raise Malformed
            if pathname and p[j + 1] == '/':
                raise Malformed
            if pathname and win and p[j + 1] == '\\':
                raise Malformed          # under the Windows rules an escaped backslash is a separator too (C17)
            j += 2
            continue
        if c == '/' and pathname:
            raise Malformed
        j += 1


def _scan(p, i, ext, pathname, in_group, win=False):
    """scan from i; returns (split points at this level, index after) - for a group stops after its ')'"""
    points = []
    while i < len(p):
        c = p[i]
        if c == '\\':
            if i + 1 >= len(p):
                raise Malformed
            i += 2
            continue
        if c == '[':
            try:
                i = _bracket_end(p, i, pathname, win)
            except Malformed:
                i += 1          # an unterminated bracket expression is the literal character `[` (C10); scanning goes on behind it
            continue
        if ext and c in '?*+@!' and p[i + 1:i + 2] == '(':
            try:
                _, i = _scan(p, i + 2, ext, pathname, True, win)
            except Malformed:
                if in_group:
                    raise       # the enclosing group cannot be terminated either
                i += 1          # an unterminated group is literal text (C10): its opener is an ordinary character, what follows is scanned afresh
            continue
        if in_group and c == ')':
            return points, i + 1
        if c == '|' and not in_group:
            points.append(i)
        i += 1
    if in_group:
        raise Malformed
    return points, i


def split(p, ext, pathname=False, win=False):
    """pieces for a WELL-FORMED pattern (raises Malformed otherwise)"""
    points, _ = _scan(p, 0, ext, pathname, False, win)
    out, start = [], 0
    for k in points:
        out.append(p[start:k])
        start = k + 1
    out.append(p[start:])
    return out
