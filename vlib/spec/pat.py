"""Pattern ASTs for the specification side: tokens, rendering to wcmatch pattern text, enumeration and random generation.

The spec never parses pattern text: patterns are *generated* as ASTs and rendered, so the denotation (`den.py`) is a
function of the AST written from the property statements and the documented syntax tables, independent of wcmatch's
parser.

tokens (tuples):
  ('lit', c)                    a character written as itself (only used for characters that are not magic)
  ('esc', c)                    backslash + c : matches c
  ('star',) ('q',)              * and ?
  ('br', neg, items)            bracket expression; items: ('ch', c) | ('ech', c) escaped | ('rng', a, b) | ('posix', name)
  ('ext', kind, alts)           extended group kind in '?*+@!'; alts: tuple of token tuples
path-level elements (only in path patterns, between segments):
  ('sep',) / ('sep', 'esc')     a written separator (rendered '/' or, escaped, '\\/'; a run renders as several)
  ('gs',) ('gsl',)              a whole segment `**` / `***`
A path pattern is a tuple of elements; a segment is a maximal run of non-sep elements.
"""
import itertools
import random

POSIX = {
    'alnum': [(48, 57), (65, 90), (97, 122)], 'alpha': [(65, 90), (97, 122)], 'ascii': [(0, 127)], 'blank': [(9, 9), (32, 32)],
    'cntrl': [(0, 31), (127, 127)], 'digit': [(48, 57)], 'graph': [(33, 126)], 'lower': [(97, 122)], 'print': [(32, 126)],
    'punct': [(33, 47), (58, 64), (91, 96), (123, 126)], 'space': [(9, 13), (32, 32)], 'upper': [(65, 90)],
    'word': [(48, 57), (65, 90), (95, 95), (97, 122)], 'xdigit': [(48, 57), (65, 70), (97, 102)],
}   # the C-locale sets, written out from the POSIX definition (not from wcmatch/posix.py)


def render_br(tok):
    _, neg, items = tok
    out = ['[', '!' if neg else '']
    for it in items:
        if it[0] == 'ch':
            out.append(it[1])
        elif it[0] == 'ech':
            out.append('\\' + it[1])          # an escaped member: denotes the character itself
        elif it[0] == 'rng':
            out.append(f'{it[1]}-{it[2]}')
        else:
            out.append(f'[:{it[1]}:]')
    out.append(']')
    return ''.join(out)


def render(tokens):
    out = []
    for t in tokens:
        k = t[0]
        if k == 'lit':
            out.append(t[1])
        elif k == 'esc':
            out.append('\\' + t[1])
        elif k == 'star':
            out.append('*')
        elif k == 'q':
            out.append('?')
        elif k == 'br':
            out.append(render_br(t))
        elif k == 'ext':
            out.append(t[1] + '(' + '|'.join(render(a) for a in t[2]) + ')')
        elif k == 'sep':
            out.append('\\/' if len(t) > 1 and t[1] == 'esc' else '/')          # ('sep', 'esc'): the separator written as an escaped slash
        elif k == 'gs':
            out.append('**')
        elif k == 'gsl':
            out.append('***')
        else:
            raise ValueError(t)
    return ''.join(out)


def lower_noext(tokens):
    """The same pattern text read WITHOUT EXTMATCH: group syntax is ordinary text (`?`/`*` stay wildcards)."""
    out = []
    for t in tokens:
        if t[0] == 'ext':
            kind = t[1]
            out.append(('q',) if kind == '?' else ('star',) if kind == '*' else ('lit', kind))
            out.append(('lit', '('))
            for i, a in enumerate(t[2]):
                if i:
                    out.append(('lit', '|'))
                out.extend(lower_noext(a))
            out.append(('lit', ')'))
        else:
            out.append(t)
    return tuple(out)


def has_kind(tokens, kind):
    for t in tokens:
        if t[0] == kind:
            return True
        if t[0] == 'ext' and any(has_kind(a, kind) for a in t[2]):
            return True
    return False


def has_neg_ext(tokens):
    for t in tokens:
        if t[0] == 'ext':
            if t[1] == '!' or any(has_neg_ext(a) for a in t[2]):
                return True
    return False


def segments(path):
    """Split a path pattern into (segments, leading_sep, trailing_sep); consecutive separators collapse."""
    segs, cur = [], []
    for el in path:
        if el[0] == 'sep':
            segs.append(tuple(cur))
            cur = []
        else:
            cur.append(el)
    segs.append(tuple(cur))
    lead = len(path) > 0 and path[0][0] == 'sep'
    trail = len(path) > 1 and path[-1][0] == 'sep' or (len(path) == 1 and path[0][0] == 'sep')
    return [s for s in segs if s], lead, trail


# ---------------------------------------------------------------------------------------------- generators
def atoms(alphabet='ab.', brackets=True, escapes=True):
    A = [('lit', c) for c in alphabet]
    A += [('star',), ('q',)]
    if escapes:
        A += [('esc', '*'), ('esc', 'a'), ('esc', '.')]
    if brackets:
        A += [
            ('br', False, (('ch', 'a'), ('ch', 'b'))),
            ('br', True, (('ch', 'a'),)),
            ('br', False, (('rng', 'a', 'c'),)),
            ('br', False, (('posix', 'alpha'),)),
            ('br', True, (('posix', 'digit'), ('ch', '.'))),
            ('br', False, (('ch', '.'), ('ch', 'a'))),
        ]
    return A


def ext_groups(inner_atoms, kinds='?*+@', max_alts=2, max_len=2):
    """All groups of the given kinds with 1..max_alts alternatives, each a sequence of 0..max_len inner atoms."""
    seqs = [()]
    for n in range(1, max_len + 1):
        seqs += list(itertools.product(inner_atoms, repeat=n))
    out = []
    for k in kinds:
        for n in range(1, max_alts + 1):
            for alts in itertools.combinations(seqs, n):
                out.append(('ext', k, tuple(alts)))
    return out


def enum_names(atom_list, max_tokens):
    for n in range(1, max_tokens + 1):
        yield from itertools.product(atom_list, repeat=n)


class Gen:
    """Seeded random generator of deeper patterns."""

    def __init__(self, seed, alphabet='abAB.c-', path=False, ext=True, neg=True, posix=True):
        self.r = random.Random(seed)
        self.alphabet, self.path, self.ext, self.neg, self.posix = alphabet, path, ext, neg, posix

    def bracket(self):
        r = self.r
        items = []
        for _ in range(r.randint(1, 3)):
            k = r.random()
            if k < 0.5:
                items.append(('ch', r.choice(self.alphabet.replace('-', '') + '.x1')))
            elif k < 0.75:
                a, b = sorted(r.sample('abcdexyzABC019', 2))
                items.append(('rng', a, b))
            elif self.posix:
                items.append(('posix', r.choice(sorted(POSIX))))
            else:
                items.append(('ch', 'q'))
        return ('br', r.random() < 0.3, tuple(items))

    def atom(self, depth, allow_neg):
        r = self.r
        k = r.random()
        if k < 0.35:
            return ('lit', r.choice(self.alphabet))
        if k < 0.5:
            return ('star',)
        if k < 0.6:
            return ('q',)
        if k < 0.7:
            return self.bracket()
        if k < 0.77:
            return ('esc', r.choice('*?[a.!(\\'))
        if self.ext and depth > 0:
            kinds = '?*+@'
            kind = r.choice(kinds)
            alts = tuple(self.seq(depth - 1, r.randint(0, 3), False) for _ in range(r.randint(1, 3)))
            return ('ext', kind, alts)
        return ('lit', r.choice(self.alphabet))

    def seq(self, depth, n, allow_neg):
        return tuple(self.atom(depth, allow_neg) for _ in range(n))

    def name_pattern(self, max_tokens=8, depth=2):
        r = self.r
        if self.ext and self.neg and r.random() < 0.2:
            # `!(list)` without inner negation, preceded and followed only by literal text
            pre = tuple(('lit', r.choice('ab.')) for _ in range(r.randint(0, 1)))
            alts = tuple(self.seq(1, r.randint(0, 3), False) for _ in range(r.randint(1, 3)))
            post = tuple(('lit', r.choice('ab.')) for _ in range(r.randint(0, 2)))
            return pre + (('ext', '!', alts),) + post
        return self.seq(depth, r.randint(1, max_tokens), True)

    def path_pattern(self, max_segs=4, max_tokens=4, depth=1):
        r = self.r
        els = []
        if r.random() < 0.1:
            els.append(('sep',))
        nseg = r.randint(1, max_segs)
        for i in range(nseg):
            k = r.random()
            if k < 0.25:
                els.append(('gs',))
            elif k < 0.3:
                els.append(('gsl',))
            else:
                els.extend(self.name_pattern(max_tokens, depth))
            if i < nseg - 1:
                els.append(('sep',))
                if r.random() < 0.1:
                    els.append(('sep',))
        if r.random() < 0.2:
            els.append(('sep',))
        return tuple(els)
