"""Specification of RAWCHARS decoding (C20), written from the statement: replace each \\a \\b \\f \\n \\r \\t \\v, \\xhh, octal \\ooo
(1-3 digits), \\uhhhh, \\Uhhhhhhhh and \\N{NAME} (the last three for str only) by the character it denotes; leave `\\\\`, every other
backslash escape and all unescaped text untouched; an incomplete \\x \\u \\U \\N escape raises SyntaxError.  With `normalize` (Windows
rules) `\\/` becomes an escaped backslash pair (four backslashes) - the only rewrite that happens without RAWCHARS."""
import unicodedata

SIMPLE = {'a': '\a', 'b': '\b', 'f': '\f', 'n': '\n', 'r': '\r', 't': '\t', 'v': '\v'}
HEX = '0123456789abcdefABCDEF'


def decode(p, raw, normalize, is_bytes=False):
    out = []
    i = 0
    n = len(p)
    while i < n:
        c = p[i]
        if c != '\\':
            out.append(c)
            i += 1
            continue
        if i + 1 >= n:
            out.append(c)
            i += 1
            continue
        d = p[i + 1]
        if d == '/':
            out.append('\\\\\\\\' if normalize else '\\/')
            i += 2
            continue
        if not raw:
            out.append(p[i:i + 2])
            i += 2
            continue
        if d == '\\':
            out.append('\\\\')
            i += 2
        elif d in SIMPLE:
            out.append(SIMPLE[d])
            i += 2
        elif d in '01234567':
            j = i + 1
            while j < n and j < i + 4 and p[j] in '01234567':
                j += 1
            v = int(p[i + 1:j], 8)
            out.append(chr(v & 0xFF) if is_bytes else chr(v))
            i = j
        elif d == 'x':
            h = p[i + 2:i + 4]
            if len(h) == 2 and all(x in HEX for x in h):
                out.append(chr(int(h, 16)))
                i += 4
            else:
                raise SyntaxError('incomplete \\x')
        elif d == 'u' and not is_bytes:
            h = p[i + 2:i + 6]
            if len(h) == 4 and all(x in HEX for x in h):
                out.append(chr(int(h, 16)))
                i += 6
            else:
                raise SyntaxError('incomplete \\u')
        elif d == 'U' and not is_bytes:
            h = p[i + 2:i + 10]
            if len(h) == 8 and all(x in HEX for x in h):
                v = int(h, 16)
                if v > 0x10FFFF:
                    raise SyntaxError('\\U out of range')
                out.append(chr(v))
                i += 10
            else:
                raise SyntaxError('incomplete \\U')
        elif d == 'N' and not is_bytes:
            if p[i + 2:i + 3] == '{' and '}' in p[i + 3:]:
                k = p.index('}', i + 3)
                out.append(unicodedata.lookup(p[i + 3:k]))      # KeyError for unknown names (documented lookup error)
                i = k + 1
            else:
                raise SyntaxError('incomplete \\N')
        else:
            out.append(p[i:i + 2])
            i += 2
    return ''.join(out)
