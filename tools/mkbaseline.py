#!/usr/bin/env python3
"""Regenerate contracts/baseline_obligations.json: the names of all contract obligations DISCHARGED on the current /repo tree.
Run it only on the unchanged (pinned + fix commits) tree.  A check reports a refuted obligation without concrete
replay as a VIOLATION (no-failing-input-found) only if it is in this baseline."""
import json
import os
import sys

HERE = os.path.dirname(os.path.dirname(os.path.abspath(__file__)))
sys.path.insert(0, HERE)
from vlib.common import Check        # noqa: E402
from contracts import registry, base   # noqa: E402

names = []
bad = []
props = [json.loads(l)['id'] for l in open(os.path.join(HERE, 'properties.jsonl'))]
os.environ['VERIF_EMPTY_BASELINE'] = '1'      # never empty the live file: checks running concurrently would see no baseline
for pid in props:
    chk = Check(pid, 'quick', 0)
    registry.run(chk, pid)
    for o in chk.obls:
        (names if o['status'] == 'proved' else bad).append(o['name'])
    if chk.broken:
        print('BROKEN', pid, chk.broken[:2])
    for u in chk.undecided:
        if 'obligation-count' not in u['name']:
            print('UNDECIDED', pid, u['name'], u['why'][:200])
tmp = base.BASELINE + '.tmp'
json.dump(sorted(set(names)), open(tmp, 'w'), indent=0)
os.replace(tmp, base.BASELINE)
print(len(set(names)), 'obligations in the baseline;', len(bad), 'not discharged:', bad[:20])
