#!/bin/sh
# Run the repository's suite on a tree (default /repo); print the summary line and any failure other than the two
# baseline-failing case31 tests.  Exit 0 iff nothing new fails.
T=${1:-/repo}
cd "$T" && PYTHONPATH="$T" /venv/bin/python -m pytest -q -p no:cacheprovider --timeout=900 -rf 2>&1 | grep -E '^(FAILED|ERROR)|passed|failed' | grep -v 'case31\]' > /tmp/suite.$$ 
cat /tmp/suite.$$; if grep -qE '^(FAILED|ERROR)' /tmp/suite.$$; then rm -f /tmp/suite.$$; exit 1; fi; rm -f /tmp/suite.$$; exit 0
