#!/usr/bin/env python3
"""Verify and collect the seeded changes a wave of sub-agents left in their scratch worktrees.
usage: tools/collect_seeds.py <wave dir (e.g. /tmp/seed6)> <first seed number (e.g. 11)> <PID> [<PID> ...]
For each property and i in (1, 2): demo on the clean worktree must exit 0; the patch must apply alone; the repository's suite
must stay green (tools/suite.sh: nothing new fails); the demo must exit 1 with the patch; the worktree is restored.  Only then
the change is copied to seeded/<PID>-<n>/ (patch.diff, demo.py, notes.md, meta.json)."""
import concurrent.futures as cf
import json
import os
import re
import shutil
import subprocess
import sys

VERIF = os.path.dirname(os.path.dirname(os.path.abspath(__file__)))


def sh(cmd, cwd, env=None, timeout=1800):
    r = subprocess.run(cmd, shell=True, cwd=cwd, capture_output=True, text=True, env=env, timeout=timeout)
    return r.returncode, (r.stdout + r.stderr)


def one(wave, first, pid):
    wt = os.path.join(wave, pid)
    env = dict(os.environ, PYTHONPATH=wt)
    out = []
    sh('git checkout -- wcmatch', wt)
    head = sh('git rev-parse --short HEAD', wt)[1].strip()
    for i in (1, 2):
        sid = f'{pid}-{first + i - 1}'
        patch, demo, notes = (os.path.join(wt, 'SEED', f'{n}{i}.{e}') for n, e in (('patch', 'diff'), ('demo', 'py'), ('notes', 'md')))
        if not (os.path.exists(patch) and os.path.exists(demo)):
            out.append((sid, 'MISSING files'))
            continue
        try:
            rc0, o0 = sh(f'/venv/bin/python SEED/demo{i}.py', wt, env, 900)
            if rc0 != 0:
                out.append((sid, f'REJECT demo exits {rc0} on the clean tree: {o0[-300:]}'))
                continue
            rc, o = sh(f'git apply SEED/patch{i}.diff', wt)
            if rc != 0:
                out.append((sid, f'REJECT patch does not apply: {o[-300:]}'))
                continue
            rcs, osuite = sh(f'{VERIF}/tools/suite.sh {wt}', wt, None, 3000)
            rc1, o1 = sh(f'/venv/bin/python SEED/demo{i}.py', wt, env, 900)
            diffstat = sh('git diff --stat', wt)[1].strip().splitlines()[-1:]
        finally:
            sh('git checkout -- wcmatch', wt)
        if rcs != 0:
            out.append((sid, f'REJECT suite not green: {osuite[-400:]}'))
            continue
        if rc1 != 1:
            out.append((sid, f'REJECT demo exits {rc1} with the patch: {o1[-300:]}'))
            continue
        d = os.path.join(VERIF, 'seeded', sid)
        os.makedirs(d, exist_ok=True)
        shutil.copy(patch, os.path.join(d, 'patch.diff'))
        shutil.copy(demo, os.path.join(d, 'demo.py'))
        if os.path.exists(notes):
            shutil.copy(notes, os.path.join(d, 'notes.md'))
        needs = ''
        if os.path.exists(notes):
            txt = open(notes).read()
            m = re.search(r'(?is)(needs?[^\n]*manifest[^\n]*\n+)(.{0,600})', txt)
            needs = (m.group(2) if m else txt[:500]).strip().replace('\n', ' ')[:500]
        meta = dict(property=pid, seed=sid, breaks=pid, needs_to_manifest=needs,
                    origin=f'independent wave-6 sub-agent given only the property text, the list of earlier sites to avoid, and a scratch worktree of /repo (HEAD {head})',
                    verified=dict(how=f'tools/collect_seeds.py in worktree {wt} (removed afterwards): demo -> exit 0 on the clean tree; git apply patch; tools/suite.sh -> nothing new fails; demo -> exit 1; git checkout -- wcmatch',
                                  demo_clean_exit=rc0, demo_mutated_exit=rc1, suite=osuite.strip().splitlines()[-1] if osuite.strip() else '', diffstat=diffstat),
                    rerun=f'git -C /repo worktree add /tmp/x HEAD; copy demo.py to x/SEED/demo{i}.py; apply patch.diff; PYTHONPATH=/tmp/x /venv/bin/python SEED/demo{i}.py')
        json.dump(meta, open(os.path.join(d, 'meta.json'), 'w'), indent=1)
        out.append((sid, 'KEPT ' + (osuite.strip().splitlines()[-1] if osuite.strip() else '')))
    return out


def main():
    wave, first, pids = sys.argv[1], int(sys.argv[2]), sys.argv[3:]
    with cf.ThreadPoolExecutor(max_workers=6) as ex:
        for res in ex.map(lambda p: one(wave, first, p), pids):
            for sid, what in res:
                print(sid, what, flush=True)


if __name__ == '__main__':
    main()
