#!/usr/bin/env python3
"""Developer aid: run the contracts whose class name matches a pattern and print every obligation with its status.
usage: tools/runc.py <regex on class name> [property id]     (evidence / replays go to a temp directory)"""
import os
import re
import sys
import tempfile

HERE = os.path.dirname(os.path.dirname(os.path.abspath(__file__)))
sys.path.insert(0, HERE)
tmp = tempfile.mkdtemp(prefix='runc-')
os.environ.setdefault('VERIF_EVIDENCE_DIR', tmp)
os.environ.setdefault('VERIF_REPLAY_DIR', tmp)
os.environ['VERIF_EMPTY_BASELINE'] = '1'
from vlib.common import Check        # noqa: E402
from contracts import registry, base   # noqa: E402

rx = re.compile(sys.argv[1])
for c in registry.all_contracts():
    if not rx.search(type(c).__name__):
        continue
    for pid in ([sys.argv[2]] if len(sys.argv) > 2 else c.props):
        chk = Check(pid, 'quick', 0)
        try:
            if c.module is not None:
                base.run_contract(chk, c, pid, set())
            base.run_lemmas(chk, c, pid, set())
        except Exception:
            import traceback
            traceback.print_exc()
        print(f'== {type(c).__name__} [{pid}]')
        for o in chk.obls:
            print(f"   {o['status']:9s} {o['backend']:4s} {o['secs']:6.2f}s {o['name']}")
        for u in chk.undecided:
            print('   UNDECIDED', u['name'], u['why'])
        for b in chk.broken:
            print('   BROKEN', b)
        for n in chk.notes:
            print('   note', n)
import shutil
shutil.rmtree(tmp, ignore_errors=True)
