#!/usr/bin/env python3
"""Run checks against a scratch copy of /repo with a patch applied (never touches /repo).
usage: tools/mutant.py <patch.diff> [--suite] [--tier quick] <ID> [<ID> ...]
Prints one line per check: ID exit=<code> and the VIOLATION / KNOWN-FINDING lines.  The scratch copy is removed."""
import os
import shutil
import subprocess
import sys
import tempfile

VERIF = os.path.dirname(os.path.dirname(os.path.abspath(__file__)))


def main():
    args = sys.argv[1:]
    patch = os.path.abspath(args.pop(0))
    suite = '--suite' in args
    if suite:
        args.remove('--suite')
    tier = 'quick'
    if '--tier' in args:
        i = args.index('--tier')
        tier = args[i + 1]
        del args[i:i + 2]
    d = tempfile.mkdtemp(prefix='wcmut-')
    try:
        subprocess.run(f'cd /repo && git ls-files -z | xargs -0 cp --parents -t {d}', shell=True, check=True)
        r = subprocess.run(['git', 'apply', '--unsafe-paths', f'--directory={d}', patch], cwd='/', capture_output=True, text=True)
        if r.returncode != 0:
            r = subprocess.run(['patch', '-p1', '-d', d, '-i', patch], capture_output=True, text=True)
            if r.returncode != 0:
                print('PATCH-DID-NOT-APPLY', r.stdout[-500:], r.stderr[-500:])
                return 9
        if suite:
            r = subprocess.run([os.path.join(VERIF, 'tools', 'suite.sh'), d], capture_output=True, text=True)
            print('suite:', r.stdout.strip().replace('\n', ' | '))
        env = dict(os.environ, WCMATCH_REPO=d, VERIF_EVIDENCE_DIR=os.path.join(d, '_evidence'), VERIF_REPLAY_DIR=os.path.join(VERIF, 'replays'))
        rc = 0
        for cid in args:
            r = subprocess.run([os.path.join(VERIF, 'check'), cid, '--tier', tier], capture_output=True, text=True, env=env, cwd=VERIF)
            lines = [l for l in r.stdout.splitlines() if l.startswith(('VIOLATION', 'UNDECIDED', 'CHECKER-BROKEN'))]
            print(f'{cid} exit={r.returncode} violations={sum(l.startswith("VIOLATION") for l in lines)}')
            for l in lines[:4]:
                print('   ', l[:260])
            nxt = [l for l in r.stdout.splitlines() if l.startswith('  ')][:2]
            for l in nxt:
                print('     ', l[:260])
            if r.returncode not in (0, 1, 2):
                print(r.stdout[-1500:], r.stderr[-1500:])
            rc = max(rc, r.returncode)
        return rc
    finally:
        shutil.rmtree(d, ignore_errors=True)


if __name__ == '__main__':
    sys.exit(main())
