#!/usr/bin/env python3
"""Regenerate /verif/MANIFEST.json from the table below (one place to edit; validated against the schema)."""
import json
import os
import sys

HERE = os.path.dirname(os.path.dirname(os.path.abspath(__file__)))

TB = ('trusted: vlib/pyvc.py (own ast->z3 VC generator, cross-checked against CPython and canaries on every run), '
      'vlib/relang.py (own regex-language engine, every witness re-checked with re), vlib/spec (the reading of the '
      'statements), re._parser, z3 5.1.0; assumed contracts of os/re/bracex/lru_cache are listed in each evidence file')

CHECKS = {
    # id: (level, technique, level_text, design_ref, thorough?)
    'C01': ('other', 'sidecar contracts on the real functions discharged by own VC generator + z3 (call chain, finite POSIX/template lemmas); '
            'compiler postcondition as bounded stand-in: exact regular-language decision per pattern',
            'Glue obligations (fnmatch call chain, include-any/exclude-none loop, finite POSIX tables and regex templates) are discharged for '
            'all inputs. The parser postcondition Lang(translate(p,f)) == Den(p,f) cannot be proved over all patterns with the tools present; it '
            'is checked per pattern for ALL names by a decision procedure, bounded in the pattern only. Labelled bounded, not proved.', '5 C01'),
    'C02': ('other', 'sidecar contracts discharged by own VC generator + z3 (glob._flag_transform, is_unix_style, NODIR finite lemmas); compiler postcondition as bounded '
            'stand-in: exact regular-language decision per path pattern',
            'Flag-algebra obligations are proved for all flag words; the path-pattern compiler postcondition must <= Lang(translate(p,f)) <= may is decided per pattern for ALL paths, '
            'bounded in the pattern only. Labelled bounded, not proved.', '5 C02'),
    'C03': ('other', 'sidecar contracts discharged by own VC generator + z3 (exclusion routes force DOTMATCH, hidden guards); per-pattern exact language decision on the hidden-name domain',
            'Per pattern, the set of accepted hidden names/paths is decided exactly (an emptiness check for patterns without a written leading dot); bounded in the pattern. '
            'Glue obligations proved for all inputs.', '5 C03'),
    'C17': ('other', 'bit-vector contracts on the real flag functions discharged by z3 for all 2^64 flag words x both platforms, statement-level lemmas over the contracts; '
            'language closure obligations per pattern',
            'The mode-selection clause of C17 is a lemma over contracts proved on the real bodies (complete). Closure of the matched language under case/separator changes is exact per pattern, '
            'bounded in the pattern.', '5 C17'),
}

NOT_YET = 'check not built yet in this round (work in progress; see DESIGN.md 9 build order)'


def main():
    props = [json.loads(l)['id'] for l in open(os.path.join(HERE, 'properties.jsonl'))]
    checks = []
    for pid in props:
        if pid not in CHECKS:
            continue
        level, tech, text, ref = CHECKS[pid][:4]
        checks.append(dict(
            property_id=pid,
            quick_cmd=f'./check {pid} --tier quick',
            thorough_cmd=f'./check {pid} --tier thorough',
            evidence_file=f'evidence/{pid}.json',
            replay_cmd_template=f'./check {pid} --replay {{path}}',
            engine='pyvc+relang+harness',
            level_claimed=dict(category=level, text=text, design_ref=f'DESIGN.md {ref}'),
            level_note=TB,
            technique=tech,
        ))
    man = dict(
        version=1,
        setup_cmd='./setup.sh',
        hooks=dict(guard='WCMATCH_VERIF', enable='none needed: contracts are sidecars under /verif/contracts, /repo carries no hooks',
                   baseline_off_cmd='cd /repo && /venv/bin/python -m pytest -ra -q -p no:cacheprovider --timeout=900 --continue-on-collection-errors',
                   source_commits=[], add_only=True),
        engines=[
            dict(name='pyvc', path='vlib/pyvc.py', serves_properties=props,
                 kind_free_text='verification-condition generator / symbolic executor over the real function bodies (ast), sidecar contracts, z3'),
            dict(name='relang', path='vlib/relang.py', serves_properties=['C01', 'C02', 'C03', 'C07', 'C08', 'C09', 'C12', 'C16', 'C17', 'C18', 'C20'],
                 kind_free_text='exact decision procedure for the languages of CPython regexes with look-aheads (derivatives), used for per-pattern postconditions'),
            dict(name='harness', path='vlib/harness', serves_properties=['C04', 'C05', 'C06', 'C10', 'C12', 'C13', 'C14', 'C15', 'C16', 'C18', 'C19'],
                 kind_free_text='bounded run-time contract checking on generated strings / trees / histories (stand-in, never counted as proved)'),
        ],
        checks=checks,
        notes='Exit codes: 0 held, 1 VIOLATION, 2 undecided, 3 checker broken. Known findings: known_findings.json. See DESIGN.md.',
        not_applicable=[dict(property_id=p, reason=NOT_YET) for p in props if p not in CHECKS],
    )
    with open(os.path.join(HERE, 'MANIFEST.json'), 'w') as f:
        json.dump(man, f, indent=1)
        f.write('\n')
    try:
        import jsonschema
        jsonschema.validate(man, json.load(open('/root/.vp/MANIFEST.schema.json')))
        print('MANIFEST.json valid;', len(checks), 'checks')
    except ImportError:
        print('jsonschema missing; not validated')


if __name__ == '__main__':
    main()
