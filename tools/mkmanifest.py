#!/usr/bin/env python3
"""Regenerate /verif/MANIFEST.json from the table below (one place to edit; validated against the schema)."""
import json
import os
import sys

HERE = os.path.dirname(os.path.dirname(os.path.abspath(__file__)))

TB = ('trusted: vlib/pyvc.py (own ast->z3 VC generator, cross-checked against CPython and canaries on every run), '
      'vlib/relang.py (own regex-language engine, every witness re-checked with re), vlib/spec (the reading of the '
      'statements), re._parser, z3 5.1.0; assumed contracts of os/re/bracex/lru_cache are listed in each evidence file')

P_TXT = 'sidecar contracts on the real function bodies discharged by own VC generator (pyvc) + z3'
L_TXT = 'compiler postcondition as bounded stand-in: exact regular-language decision per pattern (relang), bounded in the pattern only'
B_TXT = 'bounded run-time contract check on generated trees / strings / histories (stand-in, never counted as proved)'

CHECKS = {
    'C01': ('other', f'{P_TXT} (fnmatch call chain, include-any/exclude-none with FULL match, finite POSIX/template lemmas); {L_TXT}',
            'Glue obligations are discharged for all inputs. The parser postcondition Lang(translate(p,f)) == Den(p,f) cannot be proved over all patterns with the tools present; it '
            'is decided per pattern for ALL names, bounded in the pattern only. Labelled bounded, not proved.', '5 C01'),
    'C02': ('other', f'{P_TXT} (glob._flag_transform, is_unix_style, NODIR routing, finite NODIR-regex lemmas); {L_TXT}',
            'Flag-algebra obligations are proved for all flag words; must <= Lang(translate(p,f)) <= may is decided per path pattern for ALL paths, bounded in the pattern.', '5 C02'),
    'C03': ('other', f'{P_TXT} (exclusion routes force DOTMATCH, Glob negate_flags/NODOTDIR, _is_hidden, _glob_dir guards); per-pattern exact language decision on the hidden-name domain',
            'Per pattern the set of accepted hidden names/paths is decided exactly (an emptiness check where no dot is written); walker guards are proved on the real bodies.', '5 C03'),
    'C04': ('other', f'{P_TXT} (REALPATH prologue of _Match.match, _match_real, call chain); {B_TXT}: glob() vs globmatch(REALPATH) on generated trees',
            'The REALPATH prologue (types, existence, separator completion, follow arguments) is proved; equality of glob() and globmatch(REALPATH) depends on the OS and on _fs_match '
            'and is checked bounded on generated trees.', '5 C04'),
    'C05': ('other', f'{P_TXT} (Glob.glob frame/dominance, _get_starting_paths, _glob_dir yield/recursion guards); {B_TXT}: glob() vs an independent specification walk',
            'Local obligations of the walker are proved, and for the pattern splitter (_GlobSplit.split) that segments are cut exactly at separator spellings and tile the pattern, for all pattern texts; walker completeness over all trees needs an inductive proof through three mutually recursive generators relative to an OS '
            'contract - stated as contract, checked bounded.', '5 C05'),
    'C06': ('other', f'{P_TXT} (follow_links / follow argument / _glob_dir recursion guard / os.walk followlinks); {B_TXT}: scandir counting and termination on trees with symlink cycles',
            'The symlink guards are proved on the real bodies (termination relative to a finite real tree); listing discipline and termination are additionally measured on generated trees.', '5 C06'),
    'C07': ('other', f'{P_TXT} (is_negative, no_negate_flags, routing of every expansion in compile_pattern/translate/_iter_patterns with loop invariants); bounded: splitter vs specification '
            'splitter on exhaustive strings; list-level exact language decision', 'Routing and flag obligations are proved for all inputs; for the SPLIT scanner (WcSplit._split and its helpers) index discipline, progress and the splitting theorem (pieces are cut at | characters and join back to the pattern) are proved for all pattern texts; WHICH | are top-level and the per-pattern meanings are bounded stand-ins.', '5 C07'),
    'C08': ('other', f'{P_TXT} (translate and compile_pattern satisfy one routing contract, _compile, call chain); per-pattern exact language equality translate() vs the matcher\'s regexes',
            'That translate and the matcher route and flag every expansion identically is proved; that _TRANSLATE does not change the language is decided per pattern for all names (bounded in the pattern).', '5 C08'),
    'C09': ('other', f'{P_TXT} (escape/is_magic call chain); finite complete enumeration magic symbols within escaped set; per-string exact singleton-language decision',
            'The finite part is complete; "escape(s) matches exactly s" is decided exactly per (string, flags), bounded in the string.', '5 C09'),
    'C10': ('other', f'{P_TXT} (only PatternLimitException escapes the limit loops; TypeError contract); {B_TXT}: exhaustive/random pattern strings through every entry point',
            'Index discipline (no rewind past the start, index inside the text, only StopIteration as control flow, progress) is proved for util.StringIter, the SPLIT scanner, the glob splitter scan and consume_path_sep; no-crash over all strings for the token handlers of the compiler is not provable with the tools present (stated in DESIGN.md): bounded exhaustive strings over focused alphabets.', '5 C10'),
    'C11': ('other', f'{P_TXT}: limit accounting of compile_pattern, translate and Glob._iter_patterns with inductive loop invariants over ghost expansion counts, recursion replaced by contract, '
            'pass-through of limit in every entry point, default values; + bounded replay on the real API',
            'Every obligation of the limit clauses is discharged for all limits/counts (unbounded) on the real bodies; what remains assumed is bracex\'s own limit contract and the ghost-count '
            'abstraction of expand(). Reported as other (not proof) because the bracex contract is read, not verified.', '5 C11'),
    'C12': ('other', f'{P_TXT} (_format_path, Glob.glob dominance and dir_only, NODIR routing, TypeError, iglob==glob chain); {B_TXT}: well-formedness and root-independence on generated trees',
            'Result formatting and exclusion dominance are proved; existence of results and equivalence of root_dir/dir_fd/cwd are OS properties, checked bounded.', '5 C12'),
    'C13': ('other', f'{P_TXT} (seen-set contract of _is_unique, duplicate filter keys, uniqueness shortcut of _parse_patterns, exclusion dominance); {B_TXT}: multi-pattern glob vs per-pattern results',
            'The data-structure contract of the seen set and the shortcut condition are proved; the union/concatenation clause over real trees is checked bounded.', '5 C13'),
    'C14': ('other', f'{P_TXT} (_parse_flags, _compile_wildcard, _valid_file/_valid_folder/compare_directory, _walk routing and skipped counter, is_hidden); {B_TXT}: WcMatch vs an independent filtered walk',
            'Per-entry predicates and routing are proved on the real bodies relative to os.walk\'s assumed contract; the whole-walk result is checked bounded on generated trees.', '5 C14'),
    'C15': ('other', f'{P_TXT}: abort protocol of _walk under a havoc environment (any poll may see kill/reset), ghost state for promptness, routing, imatch/match, frame of _abort; + bounded replay at every abort point',
            'All protocol obligations are discharged on the real bodies for every hook outcome and every abort point (sequential and asynchronous kill via havoc). Other-thread kill rests on '
            'GIL atomicity (assumed); hence other, not proof.', '5 C15'),
    'C16': ('other', f'{P_TXT} (_translate_flags, match/globmatch/full_match/glob/rglob call chain and flags); {B_TXT}: pathlib vs glob on generated trees',
            'The view functions are proved to be what the statement says in terms of glob\'s API; equality of results over real trees is checked bounded.', '5 C16'),
    'C17': ('other', f'{P_TXT}: bit-vector contracts for all 2^64 flag words x both platforms and statement-level lemmas over them; per-pattern closure obligations (inverse homomorphism product search)',
            'Mode selection is proved completely; closure of the language under case / separator changes is exact per pattern, bounded in the pattern.', '5 C17'),
    'C18': ('other', f'{P_TXT} (TypeError contract, type-symbolic is_negative); finite complete twin-constant lemmas; per-pattern language equality bytes vs str on 0..255; bounded API comparisons',
            'Twin constants and tables are compared completely; bytes/str regex equality is exact per ASCII pattern; API-level equality is bounded.', '5 C18'),
    'C19': ('other', f'frame obligations by complete AST scan (no process-wide mutable state, no mutable defaults, single typed lru_cache) + {P_TXT} (__eq__/__ne__/__hash__/__init__/reducers of matcher objects)',
            'History independence is argued by a frame proof (nothing persists between calls except two assumed-transparent caches); thread schedules are not explored; hence other.', '5 C19'),
    'C20': ('other', f'{P_TXT} (norm_pattern applied with the right arguments before expand in every route); bounded: norm_pattern vs an independent decoder on exhaustive strings; per-pattern language equality end to end',
            'Call order is proved; the decoding callback norm_pattern.norm is under contract for every alternative of its token regex (what is decoded, passed, rejected; str and bytes); that the token regexes RE_NORM / RE_BNORM find exactly the escapes is checked against an independent decoder on exhaustive short strings (bounded).', '5 C20'),
}

NOT_YET = 'check not built yet in this round (work in progress; see DESIGN.md 9 build order)'


def main():
    props = [json.loads(l)['id'] for l in open(os.path.join(HERE, 'properties.jsonl'))]
    checks = []
    for pid in props:
        if pid not in CHECKS:
            continue
        level, tech, text, ref = CHECKS[pid][:4]
        checks.append(dict(
            property_id=pid,
            quick_cmd=f'./check {pid} --tier quick',
            thorough_cmd=f'./check {pid} --tier thorough',
            evidence_file=f'evidence/{pid}.json',
            replay_cmd_template=f'./check {pid} --replay {{path}}',
            engine='pyvc+relang+harness',
            level_claimed=dict(category=level, text=text, design_ref=f'DESIGN.md {ref}'),
            level_note=TB,
            technique=tech,
        ))
    man = dict(
        version=1,
        setup_cmd='./setup.sh',
        hooks=dict(guard='WCMATCH_VERIF', enable='none needed: contracts are sidecars under /verif/contracts, /repo carries no hooks',
                   baseline_off_cmd='cd /repo && /venv/bin/python -m pytest -ra -q -p no:cacheprovider --timeout=900 --continue-on-collection-errors',
                   source_commits=[], add_only=True),
        engines=[
            dict(name='pyvc', path='vlib/pyvc.py', serves_properties=props,
                 kind_free_text='verification-condition generator / symbolic executor over the real function bodies (ast), sidecar contracts, z3'),
            dict(name='relang', path='vlib/relang.py', serves_properties=['C01', 'C02', 'C03', 'C07', 'C08', 'C09', 'C12', 'C16', 'C17', 'C18', 'C20'],
                 kind_free_text='exact decision procedure for the languages of CPython regexes with look-aheads (derivatives), used for per-pattern postconditions'),
            dict(name='harness', path='vlib/harness', serves_properties=['C04', 'C05', 'C06', 'C10', 'C12', 'C13', 'C14', 'C15', 'C16', 'C18', 'C19'],
                 kind_free_text='bounded run-time contract checking on generated strings / trees / histories (stand-in, never counted as proved)'),
        ],
        checks=checks,
        notes='Exit codes: 0 held, 1 VIOLATION, 2 undecided, 3 checker broken. Known findings: known_findings.json. See DESIGN.md.',
        not_applicable=[dict(property_id=p, reason=NOT_YET) for p in props if p not in CHECKS],
    )
    with open(os.path.join(HERE, 'MANIFEST.json'), 'w') as f:
        json.dump(man, f, indent=1)
        f.write('\n')
    try:
        import jsonschema
        jsonschema.validate(man, json.load(open('/root/.vp/MANIFEST.schema.json')))
        print('MANIFEST.json valid;', len(checks), 'checks')
    except ImportError:
        print('jsonschema missing; not validated')


if __name__ == '__main__':
    main()
