#!/usr/bin/env python3
"""Developer aid: text mutation on a scratch copy + tools/runc.py.  usage: qmut.py <file under wcmatch/> <old> <new> <contract regex> [pid]"""
import os, shutil, subprocess, sys, tempfile
HERE = os.path.dirname(os.path.dirname(os.path.abspath(__file__)))
f, old, new, rx = sys.argv[1:5]
d = tempfile.mkdtemp(prefix='qmut-')
try:
    subprocess.run(f'cd /repo && git ls-files -z | xargs -0 cp --parents -t {d}', shell=True, check=True)
    p = os.path.join(d, 'wcmatch', f)
    s = open(p).read()
    assert s.count(old) >= 1, 'old text not found'
    open(p, 'w').write(s.replace(old, new, 1))
    r = subprocess.run([os.path.join(HERE, '.venv/bin/python'), os.path.join(HERE, 'tools/runc.py'), rx] + sys.argv[5:], env=dict(os.environ, WCMATCH_REPO=d), capture_output=True, text=True)
    print('\n'.join(l for l in r.stdout.splitlines() if not l.strip().startswith('proved')) or 'ALL PROVED (mutant survived)')
    print(r.stderr[-800:])
finally:
    shutil.rmtree(d, ignore_errors=True)
