#!/usr/bin/env python3
"""Print the DESIGN.md detection table from seeded/*/meta.json."""
import json
import os

VERIF = os.path.dirname(os.path.dirname(os.path.abspath(__file__)))
rows = []
for sid in sorted(os.listdir(os.path.join(VERIF, 'seeded'))):
    m = json.load(open(os.path.join(VERIF, 'seeded', sid, 'meta.json')))
    det = m.get('detected_by') or {}
    obs = ' *(obsolete after fix 87e9867: behaviour-neutral on the current tree; detection recorded on 78f646f)*' if m.get('obsolete') else ''
    cell = '; '.join(f"{c}: {', '.join(o[:70] for o in obs[:2])}" for c, obs in det.items()) or '**missed**'
    cell += obs
    rows.append(f"| {sid} | {m['needs_to_manifest'][:230].replace('|', '/')} | {cell.replace('|', '/')} |")
print('| seed | what it needs to manifest | detected by (check: obligations) |')
print('|---|---|---|')
print('\n'.join(rows))
