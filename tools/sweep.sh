#!/bin/sh
# usage: tools/sweep.sh <tier> <first seed> <last seed> [check ids...]   - runs checks for each VERIF_SEED, prints exit codes and any alarm lines
# (evidence / replays go to a scratch directory: a sweep never rewrites the committed evidence)
tier=$1; a=$2; b=$3; shift 3
ids=${*:-C01 C02 C03 C04 C05 C06 C07 C08 C09 C10 C11 C12 C13 C14 C15 C16 C17 C18 C19 C20}
./setup.sh >/dev/null 2>&1
tmp=$(mktemp -d)
export VERIF_EVIDENCE_DIR=$tmp/evidence VERIF_REPLAY_DIR=$tmp/replays
s=$a
while [ $s -le $b ]; do
  for c in $ids; do
    out=$(VERIF_SEED=$s ./check $c --tier $tier 2>&1); rc=$?
    echo "seed=$s $c exit=$rc $(echo "$out" | tail -1 | cut -c1-160)"
    if [ $rc -ne 0 ]; then echo "$out" | grep -E '^(VIOLATION|UNDECIDED|CHECKER-BROKEN|  )' | head -8 | cut -c1-400; fi
  done
  s=$((s+1))
done
rm -rf $tmp
