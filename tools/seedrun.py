#!/usr/bin/env python3
"""Run every seeded change (seeded/<id>/patch.diff) against its property's check (and optionally others) on a scratch copy;
record which obligations / cases report it in seeded/<id>/meta.json ("detected_by") and print a table.
usage: tools/seedrun.py [--tier quick] [--all-checks] [seed ids...]"""
import concurrent.futures as cf
import json
import os
import re
import shutil
import subprocess
import sys
import tempfile

VERIF = os.path.dirname(os.path.dirname(os.path.abspath(__file__)))
ALSO = {'C05': ['C12', 'C13'], 'C03': ['C05', 'C13'], 'C04': ['C06'], 'C06': ['C04', 'C05'], 'C14': ['C07'], 'C08': ['C07'], 'C18': ['C07'], 'C20': ['C07'], 'C12': ['C05'], 'C13': ['C07'], 'C09': ['C17'], 'C17': ['C05', 'C18'], 'C10': ['C17', 'C02', 'C03', 'C01']}


def run_seed(sid, tier, allchecks):
    d = os.path.join(VERIF, 'seeded', sid)
    meta = json.load(open(os.path.join(d, 'meta.json')))
    pid = meta['property']
    if meta.get('obsolete'):
        return sid, pid, {'_obsolete': True}
    checks = [pid] + ([f'C{i:02d}' for i in range(1, 21) if f'C{i:02d}' != pid] if allchecks else ALSO.get(pid, []))
    tmp = tempfile.mkdtemp(prefix='wcseed-')
    res = {}
    try:
        subprocess.run(f'cd /repo && git ls-files -z | xargs -0 cp --parents -t {tmp}', shell=True, check=True)
        r = subprocess.run(['git', 'apply', '--unsafe-paths', f'--directory={tmp}', os.path.join(d, 'patch.diff')], cwd='/', capture_output=True, text=True)
        if r.returncode != 0:
            return sid, pid, {'_error': 'patch does not apply to the current tree: ' + r.stderr[-200:]}
        env = dict(os.environ, WCMATCH_REPO=tmp, VERIF_EVIDENCE_DIR=os.path.join(tmp, '_evidence'), VERIF_REPLAY_DIR=os.path.join(tmp, '_replays'))
        for c in checks:
            r = subprocess.run([os.path.join(VERIF, 'check'), c, '--tier', tier], capture_output=True, text=True, env=env, cwd=VERIF)
            obs = []
            lines = r.stdout.splitlines()
            for i, l in enumerate(lines):
                if l.startswith('VIOLATION'):
                    m = re.search(r'/(C\d+)-([^/]+?)-[0-9a-f]{12}\.py( no-failing-input-found)?', l)
                    if m:
                        obs.append(m.group(2) + (' [no concrete input]' if m.group(3) else ''))
            res[c] = dict(exit=r.returncode, violations=len([l for l in lines if l.startswith('VIOLATION')]), obligations=sorted(set(obs))[:6])
    finally:
        shutil.rmtree(tmp, ignore_errors=True)
    return sid, pid, res


def main():
    args = sys.argv[1:]
    tier = 'quick'
    if '--tier' in args:
        i = args.index('--tier')
        tier = args[i + 1]
        del args[i:i + 2]
    allchecks = '--all-checks' in args
    if allchecks:
        args.remove('--all-checks')
    seeds = args or sorted(os.listdir(os.path.join(VERIF, 'seeded')))
    rows = []
    with cf.ThreadPoolExecutor(max_workers=5) as ex:
        for sid, pid, res in ex.map(lambda s: run_seed(s, tier, allchecks), seeds):
            mp = os.path.join(VERIF, 'seeded', sid, 'meta.json')
            meta = json.load(open(mp))
            if res.get('_obsolete'):
                print((sid, 'obsolete (kept with its last detection)', ''), flush=True)
                continue
            det = {c: r for c, r in res.items() if isinstance(r, dict) and r.get('exit') == 1}
            meta['detected_by'] = {c: r['obligations'] for c, r in det.items()} if det else None
            meta['checks_run'] = {c: (r.get('exit') if isinstance(r, dict) else r) for c, r in res.items()}
            json.dump(meta, open(mp, 'w'), indent=1)
            own = res.get(pid, {})
            rows.append((sid, 'DETECTED' if det else 'missed', ', '.join(f'{c}:{"|".join(o[:40] for o in r["obligations"][:2])}' for c, r in det.items())[:200]))
            print(rows[-1], flush=True)
    print(sum(1 for r in rows if r[1] == 'DETECTED'), 'of', len(rows), 'detected')


if __name__ == '__main__':
    main()
